"""Shared machinery of the votca runtime-monitoring framework (see DESIGN.md §2).

build orchestration (flavours, harnesses), monitor process runner, violation /
known-finding bookkeeping and the evidence writer.
"""
import fcntl
import hashlib
import json
import os
import re
import shutil
import signal
import subprocess
import sys
import time

VERIF = os.path.dirname(os.path.dirname(os.path.abspath(__file__)))
REPO = os.environ.get("VF_REPO", "/repo")
BUILD_ROOT = os.path.join(VERIF, ".build")
if REPO != "/repo":
    BUILD_ROOT = os.path.join(
        VERIF, ".build-alt", hashlib.sha1(REPO.encode()).hexdigest()[:10])
GUARD = "VOTCA_VERIF"
NPROC = int(os.environ.get("VF_JOBS", os.cpu_count() or 4))

FLAVOURS = {
    # -fno-builtin-floor: gcc 12 folds (Index)floor(x) into lfloor before the
    # float-cast-overflow instrumentation sees the conversion
    "asan": "-O1 -g1 -fno-omit-frame-pointer -fsanitize=address,undefined "
            "-fsanitize=float-cast-overflow -fno-sanitize-recover=all "
            "-fno-builtin-floor -D_GLIBCXX_ASSERTIONS",
    "tsan": "-O1 -g1 -fno-omit-frame-pointer -fsanitize=thread",
    "fast": "-O2 -g1",
}
LINK_FLAGS = {
    "asan": "-fsanitize=address,undefined",
    "tsan": "-fsanitize=thread",
    "fast": "",
}
CSG_TARGETS = ["votca_tools", "votca_csg", "csg_map", "csg_stat", "csg_fmatch",
               "csg_imc_solve", "csg_resample", "csg_reupdate", "csg_density",
               "csg_dump", "votca_property", "csg_boltzmann", "orientcorr",
               "partial_rdf"]

SAN_ENV = {
    "ASAN_OPTIONS": "abort_on_error=1:detect_leaks=0:"
                    "detect_stack_use_after_return=1:handle_abort=1",
    "UBSAN_OPTIONS": "print_stacktrace=1:halt_on_error=1",
    "TSAN_OPTIONS": "halt_on_error=1:report_mutex_bugs=0:report_destroy_locked=0:"
                    "second_deadlock_stack=1:exitcode=66",
}

# xtp translation units that compile stand-alone (no libint/libxc/ecpint)
XTP_SOURCES = ["davidsonsolver", "matrixfreeoperator", "job",
               "progressobserver", "gnode", "rate_engine", "qmpair", "segment",
               "atom", "eeinteractor", "staticsite", "polarsite", "checkpoint",
               "IndexParser"]


class HarnessFailure(Exception):
    """inconclusive: build failure, watchdog, monitor observed nothing"""


def log(*a):
    print("[vf]", *a, file=sys.stderr, flush=True)


def sh(cmd, **kw):
    return subprocess.run(cmd, shell=isinstance(cmd, str), **kw)


class FileLock:
    def __init__(self, path):
        self.path = path

    def __enter__(self):
        os.makedirs(os.path.dirname(self.path), exist_ok=True)
        self.f = open(self.path, "w")
        fcntl.flock(self.f, fcntl.LOCK_EX)
        return self

    def __exit__(self, *a):
        fcntl.flock(self.f, fcntl.LOCK_UN)
        self.f.close()


# ----------------------------------------------------------------------------
# builds
# ----------------------------------------------------------------------------

def flavour_dir(fl):
    return os.path.join(BUILD_ROOT, fl)


def build_flavour(fl, targets=None):
    """(re)build the csg/tools libraries and executables of /repo in flavour fl.
    Incremental (ninja): a no-op when /repo did not change."""
    d = flavour_dir(fl)
    targets = targets or CSG_TARGETS
    with FileLock(os.path.join(BUILD_ROOT, fl + ".lock")):
        flags = FLAVOURS[fl] + " -D" + GUARD
        stamp = os.path.join(d, ".vf_flags")
        stale = os.path.exists(stamp) and open(stamp).read() != flags
        if not os.path.exists(os.path.join(d, "build.ninja")) or stale or \
                not os.path.exists(stamp):
            os.makedirs(d, exist_ok=True)
            cmd = ["cmake", "-S", REPO, "-B", d, "-G", "Ninja",
                   "-DBUILD_TESTING=OFF", "-DBUILD_MANPAGES=OFF",
                   "-DBUILD_XTP=OFF", "-DINJECT_MARCH_NATIVE=OFF",
                   "-DENABLE_WARNING_FLAGS=OFF", "-DCMAKE_BUILD_TYPE=None",
                   "-DCMAKE_CXX_FLAGS=" + flags,
                   "-DCMAKE_EXE_LINKER_FLAGS=" + LINK_FLAGS[fl],
                   "-DCMAKE_SHARED_LINKER_FLAGS=" + LINK_FLAGS[fl]]
            r = sh(cmd, stdout=subprocess.PIPE, stderr=subprocess.STDOUT,
                   text=True)
            if r.returncode != 0:
                shutil.rmtree(d, ignore_errors=True)
                raise HarnessFailure("cmake configure failed (%s):\n%s" %
                                     (fl, r.stdout[-3000:]))
            open(stamp, "w").write(flags)
        t0 = time.time()
        r = sh(["ninja", "-C", d, "-j", str(NPROC)] + targets,
               stdout=subprocess.PIPE, stderr=subprocess.STDOUT, text=True)
        if r.returncode != 0:
            raise HarnessFailure("build of /repo failed (%s):\n%s" %
                                 (fl, r.stdout[-6000:]))
        dt = time.time() - t0
        if dt > 5:
            log("built flavour %s in %.0fs" % (fl, dt))
    return d


def exe(fl, name):
    return os.path.join(flavour_dir(fl), "csg", "src", "tools", name)


def lib_env(fl, extra=None):
    d = flavour_dir(fl)
    env = dict(os.environ)
    env["LD_LIBRARY_PATH"] = ":".join(
        [os.path.join(d, "tools/src/libtools"),
         os.path.join(d, "csg/src/libcsg")] +
        ([env["LD_LIBRARY_PATH"]] if env.get("LD_LIBRARY_PATH") else []))
    env["VOTCASHARE"] = os.path.join(REPO, "csg", "share")
    env.update(SAN_ENV)
    if extra:
        env.update(extra)
    return env


def _xtp_config_dir(hd):
    cfg = os.path.join(hd, "xtpcfg", "votca", "xtp")
    os.makedirs(cfg, exist_ok=True)
    src = open(os.path.join(
        REPO, "xtp/include/votca/xtp/votca_xtp_config.h.in")).read()
    src = re.sub(r"#cmakedefine\s+(\w+).*", r"/* #undef \1 */", src)
    src = re.sub(r"@\w+@", "verif", src)
    p = os.path.join(cfg, "votca_xtp_config.h")
    if not os.path.exists(p) or open(p).read() != src:
        open(p, "w").write(src)
    return os.path.join(hd, "xtpcfg")


def _includes(fl):
    d = flavour_dir(fl)
    return ["-I" + os.path.join(REPO, "tools/include"),
            "-I" + os.path.join(REPO, "csg/include"),
            "-I" + os.path.join(d, "tools/include"),
            "-I" + os.path.join(d, "tools/include/votca/tools"),
            "-I" + os.path.join(d, "csg/include"),
            "-I" + os.path.join(d, "csg/include/votca/csg"),
            "-I" + os.path.join(REPO, "csg/src/tools"),
            "-I" + os.path.join(REPO, "csg/src/csg_boltzmann"),
            "-I" + os.path.join(VERIF, "harness"),
            "-isystem", "/usr/include/eigen3"]


def _ninja(fl, subdir, lines, target, what):
    hd = os.path.join(flavour_dir(fl), "harness", subdir)
    os.makedirs(hd, exist_ok=True)
    nf = os.path.join(hd, "build.ninja")
    txt = "\n".join(lines) + "\n"
    # the flavour lock is held too: a harness must not be linked while another
    # check re-links the libraries of the same flavour
    with FileLock(os.path.join(BUILD_ROOT, "%s.h_%s.lock" % (fl, subdir))), \
            FileLock(os.path.join(BUILD_ROOT, fl + ".lock")):
        if not os.path.exists(nf) or open(nf).read() != txt:
            open(nf, "w").write(txt)
        t0 = time.time()
        r = sh(["ninja", "-C", hd, "-j", str(NPROC), target],
               stdout=subprocess.PIPE, stderr=subprocess.STDOUT, text=True)
        if r.returncode != 0:
            raise HarnessFailure("%s build failed (%s):\n%s" %
                                 (what, fl, r.stdout[-8000:]))
        if time.time() - t0 > 5:
            log("built %s (%s) in %.0fs" % (what, fl, time.time() - t0))
    return os.path.join(hd, target)


def xtp_includes(fl):
    hd = os.path.join(flavour_dir(fl), "harness", "xtp")
    os.makedirs(hd, exist_ok=True)
    xcfg = _xtp_config_dir(hd)
    return ("-I{r}/xtp/include -I{x} -I{x}/votca/xtp "
            "-I/usr/include/hdf5/serial").format(r=REPO, x=xcfg)


def build_xtp_lib(fl):
    """the stand-alone subset of libxtp (no libint/libxc/ecpint needed),
    compiled from /repo/xtp/src/libxtp with the flavour's flags."""
    build_flavour(fl, ["votca_tools"])
    cxx = "g++ -std=c++17 -fopenmp %s -D%s" % (FLAVOURS[fl], GUARD)
    lines = ["cxx = " + cxx,
             "inc = " + " ".join(_includes(fl)) + " " + xtp_includes(fl),
             "rule cc",
             "  command = $cxx $inc -MMD -MF $out.d -c $in -o $out",
             "  depfile = $out.d", "  deps = gcc",
             "rule ar", "  command = rm -f $out && ar crs $out $in"]
    objs = []
    for s in XTP_SOURCES:
        lines.append("build %s.o: cc %s/xtp/src/libxtp/%s.cc" % (s, REPO, s))
        objs.append(s + ".o")
    lines.append("build libxtpmini.a: ar " + " ".join(objs))
    return _ninja(fl, "xtp", lines, "libxtpmini.a", "xtp subset library")


def build_harness(fl, name, sources=None, xtp=False, flags="", libs=""):
    """compile /verif/harness/<name>.cc (plus optional extra sources) against
    the freshly built libraries of flavour fl; returns the executable path."""
    d = build_flavour(fl, ["votca_tools", "votca_csg"])
    sources = sources or [os.path.join(VERIF, "harness", name + ".cc")]
    cxx = "g++ -std=c++17 -fopenmp %s -D%s %s" % (FLAVOURS[fl], GUARD, flags)
    ldl = ("-L{t} -L{c} -Wl,-rpath,{t} -Wl,-rpath,{c} -lvotca_csg "
           "-lvotca_tools -lboost_program_options -lboost_filesystem "
           "-lboost_system -lexpat -lpthread -ldl").format(
        t=os.path.join(d, "tools/src/libtools"),
        c=os.path.join(d, "csg/src/libcsg"))
    inc = " ".join(_includes(fl))
    xlib = ""
    if xtp:
        xa = build_xtp_lib(fl)
        inc += " " + xtp_includes(fl)
        xlib = (xa + " -L/usr/lib/x86_64-linux-gnu/hdf5/serial -lhdf5_cpp "
                "-lhdf5")
    lines = ["cxx = " + cxx, "inc = " + inc,
             "rule cc",
             "  command = $cxx $inc -MMD -MF $out.d -c $in -o $out",
             "  depfile = $out.d", "  deps = gcc",
             "rule link",
             "  command = g++ -fopenmp %s -rdynamic -o $out $in %s %s %s"
             % (LINK_FLAGS[fl], xlib, ldl, libs)]
    objs = []
    for s in sources:
        o = os.path.basename(s).replace(".cc", "") + ".o"
        lines.append("build %s: cc %s" % (o, s))
        objs.append(o)
    dep = (" | " + xa) if xtp else ""
    lines.append("build %s: link %s%s" % (name, " ".join(objs), dep))
    return _ninja(fl, name, lines, name, "harness " + name)


def build_preload(name="vfdelay", src=None):
    """LD_PRELOADable hook run-time (uninstrumented on purpose: it must not add
    synchronisation visible to TSan). Flavour independent."""
    src = src or os.path.join(VERIF, "harness", "hookrt", "delay.cc")
    lines = ["rule so",
             "  command = g++ -std=c++17 -O1 -g1 -fPIC -shared -o $out $in "
             "-lpthread",
             "build lib%s.so: so %s" % (name, src)]
    os.makedirs(flavour_dir("fast"), exist_ok=True)
    return _ninja("fast", "preload_" + name, lines, "lib%s.so" % name,
                  "preload " + name)


def build_tool(name, src, libs=""):
    """small stand-alone helper program (plain C, no sanitizer)"""
    lines = ["rule cc", "  command = gcc -O1 -o $out $in %s" % libs,
             "build %s: cc %s" % (name, src)]
    os.makedirs(flavour_dir("fast"), exist_ok=True)
    return _ninja("fast", "tool_" + name, lines, name, "tool " + name)


# ----------------------------------------------------------------------------
# running monitors
# ----------------------------------------------------------------------------

SAN_RE = re.compile(
    r"(ERROR: AddressSanitizer: [\w-]+|runtime error: .*|"
    r"WARNING: ThreadSanitizer: [\w -]+|Assertion `.*' failed|"
    r"terminate called after throwing an instance of '[^']+'|"
    r"ERROR: UndefinedBehaviorSanitizer: [\w-]+)")
FRAME_RE = re.compile(r"#\d+ (?:0x[0-9a-f]+ )?(?:in )?(\S.*?) (/\S+?):(\d+)")


def sanitizer_key(stderr):
    """structural key of a sanitizer / assertion report: kind + first frame
    inside the repository (line numbers stripped)."""
    m = SAN_RE.search(stderr)
    if not m:
        return None
    kind = m.group(1)
    kind = re.sub(r"0x[0-9a-f]+", "ADDR", kind)
    kind = re.sub(r"-?\d+(\.\d+)?(e[+-]?\d+)?", "N", kind)[:120]
    frame = ""
    for fm in FRAME_RE.finditer(stderr[m.start():]):
        path = fm.group(2)
        if "/repo/" in path or path.startswith(REPO):
            fn = re.sub(r"\(.*", "", fm.group(1))
            frame = "%s@%s" % (fn, os.path.relpath(path, REPO))
            break
    if not frame:
        am = re.search(r"(/repo/\S+?):\d+: (.*?): Assertion", stderr)
        if am:
            frame = os.path.relpath(am.group(1), REPO)
    return "sanitizer/%s/%s" % (kind.replace(" ", "_"), frame)


class ProcResult:
    def __init__(self, rc, out, err, timed_out, wall):
        self.rc, self.out, self.err = rc, out, err
        self.timed_out, self.wall = timed_out, wall

    def records(self):
        recs = []
        for ln in self.out.splitlines():
            ln = ln.strip()
            if ln.startswith("{"):
                try:
                    recs.append(json.loads(ln))
                except ValueError:
                    pass
        return recs


def run_proc(cmd, env=None, timeout=600, cwd=None, stdin=None):
    t0 = time.time()
    p = subprocess.Popen(cmd, env=env, cwd=cwd, stdout=subprocess.PIPE,
                         stderr=subprocess.PIPE, stdin=subprocess.DEVNULL
                         if stdin is None else subprocess.PIPE,
                         start_new_session=True)
    try:
        out, err = p.communicate(stdin, timeout=timeout)
        to = False
    except subprocess.TimeoutExpired:
        try:
            os.killpg(p.pid, signal.SIGKILL)
        except OSError:
            pass
        out, err = p.communicate()
        to = True
    return ProcResult(p.returncode, out.decode("utf-8", "replace"),
                      err.decode("utf-8", "replace"), to, time.time() - t0)


def run_parallel(jobs, nproc=None):
    """jobs: list of callables; run in a thread pool, keep order."""
    from concurrent.futures import ThreadPoolExecutor
    with ThreadPoolExecutor(max_workers=nproc or NPROC) as ex:
        return list(ex.map(lambda f: f(), jobs))


# ----------------------------------------------------------------------------
# check context: violations, known findings, evidence
# ----------------------------------------------------------------------------

def load_known():
    p = os.path.join(VERIF, "known_findings.json")
    if not os.path.exists(p):
        return []
    return json.load(open(p))["findings"]


class Check:
    def __init__(self, pid, tier, seed, level="exploration"):
        self.pid, self.tier, self.seed, self.level = pid, tier, seed, level
        self.t0 = time.time()
        self.evaluations = 0
        self.distinct_nontrivial = 0
        self.families = {}
        self.samples = []
        self.counters = {}
        self.violations = {}      # key -> dict(first witness, count)
        self.known_hit = {}
        self.inconclusive = []
        self.rule = ""
        self.assumptions = []
        self.extra = {}
        self.sanitizer = {}
        self.known = [k for k in load_known() if k["property"] == pid]
        self.replay_dir = os.path.join(
            VERIF if REPO == "/repo" else BUILD_ROOT, "replay", pid)

    # -- counting ---------------------------------------------------------
    def add_summary(self, rec, prefix=""):
        """merge a harness 'summary' record"""
        self.evaluations += int(rec.get("evaluations", 0))
        self.distinct_nontrivial += int(rec.get("distinct_nontrivial", 0))
        for k, v in rec.get("families", {}).items():
            self.families[prefix + k] = self.families.get(prefix + k, 0) + v
        for k, v in rec.get("counters", {}).items():
            if isinstance(v, (int, float)):
                self.counters[prefix + k] = self.counters.get(prefix + k, 0) + v
            else:
                self.counters[prefix + k] = v
        for s in rec.get("samples", []):
            if len(self.samples) < 6:
                self.samples.append(s)

    def count(self, family, n=1, nontrivial=0):
        self.evaluations += n
        self.distinct_nontrivial += nontrivial
        self.families[family] = self.families.get(family, 0) + n

    def sample(self, s):
        if len(self.samples) < 6:
            self.samples.append(s)

    # -- violations -------------------------------------------------------
    def violation(self, key, witness, what=""):
        """register a violation with structural key; witness is a dict (written
        as json) or a path."""
        for k in self.known:
            if k.get("status", "known") == "known" and _key_match(k["key"], key):
                e = self.known_hit.setdefault(k["key"], {"what": k["what"],
                                                         "count": 0})
                e["count"] += 1
                return
        v = self.violations.get(key)
        if v:
            v["count"] += 1
            return
        os.makedirs(self.replay_dir, exist_ok=True)
        fn = re.sub(r"[^A-Za-z0-9_.-]+", "_", key)[:100]
        if isinstance(witness, str) and os.path.exists(witness):
            path = witness
        else:
            path = os.path.join(self.replay_dir, fn + ".json")
            json.dump({"property": self.pid, "key": key, "what": what,
                       "seed": self.seed, "tier": self.tier,
                       "witness": witness}, open(path, "w"), indent=1,
                      default=str)
        self.violations[key] = {"count": 1, "replay": path, "what": what}

    def proc_result(self, res, what, witness=None, expect_rc=(0,)):
        """classify a finished monitor/executable process; returns True when it
        ended normally. Sanitizer aborts become violations (or known
        findings), watchdog firings become inconclusive."""
        if res.timed_out:
            self.inconclusive.append("watchdog: " + what)
            return False
        if res.rc in expect_rc:
            return True
        key = sanitizer_key(res.err)
        w = {"what": what, "rc": res.rc, "stderr_tail": res.err[-4000:]}
        if witness:
            w["case"] = witness
        if key:
            self.violation(key, w, "sanitizer/assertion report: " + what)
        else:
            self.violation("crash/rc%s/%s" % (res.rc, what.split()[0]), w,
                           "abnormal exit: " + what)
        return False

    def ingest(self, res, what, prefix="", keyprefix=""):
        """take the JSON-lines output of a harness process"""
        got_summary = False
        for rec in res.records():
            t = rec.get("t")
            if t == "summary":
                self.add_summary(rec, prefix)
                got_summary = True
            elif t == "violation":
                self.violation(keyprefix + rec["key"], rec.get("witness", rec),
                               rec.get("what", ""))
            elif t == "inconclusive":
                self.inconclusive.append(rec.get("what", "?"))
        ok = self.proc_result(res, what)
        if ok and not got_summary:
            self.inconclusive.append("no summary from: " + what)
        return ok and got_summary

    # -- finishing --------------------------------------------------------
    def finish(self):
        wall = time.time() - self.t0
        cov = {"evaluations": self.evaluations,
               "distinct_nontrivial": self.distinct_nontrivial,
               "rule": self.rule, "samples": self.samples,
               "families": self.families, "counters": self.counters,
               "violation_keys": sorted(self.violations),
               "known_findings_hit": self.known_hit,
               "skipped_inconclusive": self.inconclusive[:50],
               "sanitizer": self.sanitizer,
               "build": build_info()}
        cov.update(self.extra)
        status = 0
        if self.violations:
            status = 1
        elif self.inconclusive or self.evaluations == 0 or \
                self.distinct_nontrivial < 2:
            status = 2
        ev = {"property_id": self.pid, "tier": self.tier, "seed": self.seed,
              "level": self.level, "coverage": cov,
              "assumptions": self.assumptions, "wall_s": round(wall, 2),
              "violations": len(self.violations),
              "verdict": {0: "held on what was observed", 1: "violated",
                          2: "inconclusive"}[status]}
        evdir = os.path.join(VERIF, "evidence") if REPO == "/repo" else \
            os.path.join(BUILD_ROOT, "evidence")
        os.makedirs(evdir, exist_ok=True)
        json.dump(ev, open(os.path.join(evdir, self.pid + ".json"), "w"),
                  indent=1, default=str)
        for k, e in sorted(self.known_hit.items()):
            print("KNOWN-FINDING: property=%s %s [key=%s, %d hits]" %
                  (self.pid, e["what"], k, e["count"]))
        for k, v in sorted(self.violations.items()):
            print("VIOLATION property=%s replay=%s key=%s count=%d %s" %
                  (self.pid, v["replay"], k, v["count"], v["what"]))
        if status == 2:
            for r in self.inconclusive[:10]:
                print("INCONCLUSIVE property=%s %s" % (self.pid, r))
            if self.evaluations == 0 or self.distinct_nontrivial < 2:
                print("INCONCLUSIVE property=%s monitors observed too little "
                      "(evaluations=%d distinct_nontrivial=%d)" %
                      (self.pid, self.evaluations, self.distinct_nontrivial))
        print("%s %s tier=%s seed=%d: %s; evaluations=%d distinct_nontrivial=%d"
              " wall=%.1fs" % (self.pid, "check", self.tier, self.seed,
                               ev["verdict"], self.evaluations,
                               self.distinct_nontrivial, wall))
        return status


def _key_match(pattern, key):
    if pattern.endswith("*"):
        return key.startswith(pattern[:-1])
    return pattern == key


_BI = None


def build_info():
    global _BI
    if _BI is None:
        try:
            head = subprocess.run(["git", "-C", REPO, "rev-parse", "HEAD"],
                                  capture_output=True, text=True).stdout.strip()
            dirty = subprocess.run(
                ["git", "-C", REPO, "status", "--porcelain",
                 "--untracked-files=no"],
                capture_output=True, text=True).stdout.strip() != ""
        except OSError:
            head, dirty = "?", None
        _BI = {"repo": REPO, "repo_head": head, "dirty": dirty,
               "guard": GUARD}
    return _BI


def scratch_dir(pid):
    """per-check scratch directory under /verif/.work (never /tmp)"""
    d = os.path.join(VERIF, ".work", "%s_%d" % (pid, os.getpid()))
    shutil.rmtree(d, ignore_errors=True)
    os.makedirs(d)
    return d


def tier_n(tier, quick, thorough):
    return thorough if tier == "thorough" else quick
