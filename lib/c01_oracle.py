"""C01 executable-level oracle (plain python3, no numpy needed).

Independent recomputation of what `csg_map` has to write, from the files it
actually read: VOTCA xml topology, mapping xml file(s), .gro / LAMMPS .dump
trajectory. Nothing here is shared with the generator in checks/c01.py except
the file formats themselves.

Units: everything is converted to nm / (nm/ps) / (kJ/mol/nm) like the library
does (1 A = 0.1 nm); forces of a dump file stay in file units because
dump -> dump is the only pair that carries forces and the conversion cancels.
"""
import math
import xml.etree.ElementTree as ET

EPS = 2.220446049250313e-16


# --------------------------------------------------------------------------
# input parsers
# --------------------------------------------------------------------------

def load_topology_xml(path):
    """-> list of molecules in topology order: {name, atoms:[{name,mass}]}"""
    root = ET.parse(path).getroot()
    mols = []
    for ms in root.findall("molecules"):
        for m in ms.findall("molecule"):
            atoms = [{"name": b.get("name"),
                      "mass": float(b.get("mass", "1.0"))}
                     for b in m.findall("bead")]
            assert len(atoms) == int(m.get("nbeads"))
            for _ in range(int(m.get("nmols"))):
                mols.append({"name": m.get("name"), "atoms": atoms})
    return mols


def load_mapping_xml(path):
    """-> {ident, name, beads:[{name, parents:[atom names], w:[..], d:[..]|None,
    symmetry}]}"""
    root = ET.parse(path).getroot()
    maps = {}
    for m in root.find("maps").findall("map"):
        d = m.find("d")
        maps[m.find("name").text.strip()] = (
            [float(x) for x in m.find("weights").text.split()],
            None if d is None else [float(x) for x in d.text.split()])
    beads = []
    for b in root.find("topology").find("cg_beads").findall("cg_bead"):
        w, d = maps[b.find("mapping").text.strip()]
        sym = b.find("symmetry")
        parents = [t.split(":")[-1] for t in b.find("beads").text.split()]
        assert len(parents) == len(w)
        beads.append({"name": b.find("name").text.strip(), "parents": parents,
                      "w": w, "d": d,
                      "symmetry": 1 if sym is None else int(sym.text)})
    return {"ident": root.find("ident").text.strip(),
            "name": root.find("name").text.strip(), "beads": beads}


def parse_gro(path):
    """multi-frame .gro, fixed columns like the format defines. box as the
    three box vectors (columns a, b, c) in nm."""
    frames = []
    lines = open(path).read().split("\n")
    i = 0
    while i + 1 < len(lines):
        try:
            n = int(lines[i + 1])
        except ValueError:
            break
        if i + 2 + n >= len(lines) or lines[i + 2 + n].strip() == "":
            frames.append({"truncated": True})
            break
        pos, vel = [], []
        for ln in lines[i + 2:i + 2 + n]:
            pos.append([float(ln[20:28]), float(ln[28:36]), float(ln[36:44])])
            if len(ln) >= 68:
                vel.append([float(ln[44:52]), float(ln[52:60]),
                            float(ln[60:68])])
        f = [float(x) for x in lines[i + 2 + n].split()]
        if len(f) == 3:
            a, b, c = [f[0], 0, 0], [0, f[1], 0], [0, 0, f[2]]
        else:
            # v1(x) v2(y) v3(z) v1(y) v1(z) v2(x) v2(z) v3(x) v3(y)
            a, b, c = [f[0], f[3], f[4]], [f[5], f[1], f[6]], [f[7], f[8], f[2]]
        frames.append({"pos": pos, "vel": vel if len(vel) == n else None,
                       "force": None, "box": (a, b, c),
                       "nbox": len(f)})
        i += 3 + n
    return frames


def parse_dump(path):
    """LAMMPS dump (orthorhombic), values converted to nm; forces left in file
    units."""
    frames = []
    lines = [l.strip() for l in open(path).read().split("\n")]
    i = 0
    cur = None
    while i < len(lines):
        ln = lines[i]
        if ln.startswith("ITEM: TIMESTEP"):
            cur = {"step": int(lines[i + 1])}
            i += 2
        elif ln.startswith("ITEM: NUMBER OF ATOMS"):
            cur["n"] = int(lines[i + 1])
            i += 2
        elif ln.startswith("ITEM: BOX BOUNDS"):
            ed = []
            for k in range(3):
                lo, hi = [float(x) for x in lines[i + 1 + k].split()]
                ed.append((hi - lo) * 0.1)
            cur["box"] = ([ed[0], 0, 0], [0, ed[1], 0], [0, 0, ed[2]])
            i += 4
        elif ln.startswith("ITEM: ATOMS"):
            cols = ln.split()[2:]
            n = cur["n"]
            pos, vel, frc = [None] * n, [None] * n, [None] * n
            ci = {c: k for k, c in enumerate(cols)}
            px = [c for c in ("x", "xu") if c in ci][0]
            sfx = "u" if px == "xu" else ""
            for l in lines[i + 1:i + 1 + n]:
                t = l.split()
                a = int(t[ci["id"]]) - 1
                pos[a] = [float(t[ci[c + sfx]]) * 0.1 for c in "xyz"]
                if "vx" in ci:
                    vel[a] = [float(t[ci["v" + c]]) * 0.1 for c in "xyz"]
                if "fx" in ci:
                    frc[a] = [float(t[ci["f" + c]]) for c in "xyz"]
            cur.update(pos=pos, vel=vel if "vx" in ci else None,
                       force=frc if "fx" in ci else None, cols=cols)
            frames.append(cur)
            cur = None
            i += 1 + n
        else:
            i += 1
    return frames


# --------------------------------------------------------------------------
# geometry
# --------------------------------------------------------------------------

def _cross(u, v):
    return [u[1] * v[2] - u[2] * v[1], u[2] * v[0] - u[0] * v[2],
            u[0] * v[1] - u[1] * v[0]]


def _dot(u, v):
    return u[0] * v[0] + u[1] * v[1] + u[2] * v[2]


def _norm(u):
    return math.sqrt(_dot(u, u))


def is_open(box):
    return all(x == 0 for v in box for x in v)


def hmin(box):
    a, b, c = box
    vol = abs(_dot(a, _cross(b, c)))
    return min(vol / _norm(_cross(b, c)), vol / _norm(_cross(c, a)),
               vol / _norm(_cross(a, b)))


def nearest_image(d, box):
    """brute force: fractional reduction, then the 125 surrounding images"""
    if is_open(box):
        return list(d), _norm(d)
    a, b, c = box
    vol = _dot(a, _cross(b, c))
    ra, rb, rc = _cross(b, c), _cross(c, a), _cross(a, b)
    f = [_dot(d, ra) / vol, _dot(d, rb) / vol, _dot(d, rc) / vol]
    f = [x - round(x) for x in f]
    d0 = [f[0] * a[k] + f[1] * b[k] + f[2] * c[k] for k in range(3)]
    best, bn = d0, float("inf")
    for i in range(-2, 3):
        for j in range(-2, 3):
            for k in range(-2, 3):
                v = [d0[m] + i * a[m] + j * b[m] + k * c[m] for m in range(3)]
                n = _norm(v)
                if n < bn:
                    bn, best = n, v
    return best, bn


# --------------------------------------------------------------------------
# the map
# --------------------------------------------------------------------------

def expected_frame(mols, mappings, frame):
    """mols: load_topology_xml; mappings: {ident: load_mapping_xml};
    -> list of CG beads in output order with expected values and error scales
    """
    out = []
    box = frame["box"]
    opn = is_open(box)
    hm = None if opn else hmin(box)
    scale = max([abs(x) for p in frame["pos"] for x in p] +
                [abs(x) for v in box for x in v])
    band = 1e-9 * scale + 1e-9
    a0 = 0
    for mol in mols:
        mp = mappings.get(mol["name"])
        names = [a["name"] for a in mol["atoms"]]
        if mp is not None:
            for bd in mp["beads"]:
                idx = [a0 + names.index(p) for p in bd["parents"]]
                w = bd["w"]
                sw = math.fsum(w)
                kw = math.fsum(abs(x) for x in w) / abs(sw)
                wn = [x / sw for x in w]
                np_ = len(idx)
                r0 = frame["pos"][idx[0]]
                ups, dmax, unwrapped = [], 0.0, False
                for i in idx:
                    ri = frame["pos"][i]
                    d = [ri[k] - r0[k] for k in range(3)]
                    u, dist = nearest_image(d, box)
                    dmax = max(dmax, dist)
                    if _norm([u[k] - d[k] for k in range(3)]) > band:
                        unwrapped = True
                    ups.append([r0[k] + u[k] for k in range(3)])
                pos = [math.fsum(wn[j] * ups[j][k] for j in range(np_))
                       for k in range(3)]
                e = {"mol": mol["name"], "bead": bd["name"], "pos": pos,
                     "dmax": dmax, "unwrapped": unwrapped, "np": np_,
                     "kw": kw, "symmetry": bd["symmetry"],
                     "err_pos": 64 * EPS * kw * kw * (np_ + 4) * scale,
                     "vel": None, "force": None}
                if not opn:
                    e["oversize"] = dmax > 0.5 * hm + band
                    e["inband"] = abs(dmax - 0.5 * hm) <= band
                else:
                    e["oversize"] = e["inband"] = False
                if frame.get("vel"):
                    vs = [frame["vel"][i] for i in idx]
                    e["vel"] = [math.fsum(wn[j] * vs[j][k]
                                          for j in range(np_))
                                for k in range(3)]
                    e["err_vel"] = 64 * EPS * kw * kw * (np_ + 4) * max(
                        abs(x) for v in vs for x in v)
                if frame.get("force"):
                    fs = [frame["force"][i] for i in idx]
                    if bd["d"] is None:
                        fw = [1.0 if x != 0 else 0.0 for x in w]
                        kd = kw
                    else:
                        sd = math.fsum(bd["d"])
                        kd = math.fsum(abs(x) for x in bd["d"]) / abs(sd)
                        fw = [(bd["d"][j] / sd) / wn[j] if w[j] != 0 else 0.0
                              for j in range(np_)]
                    e["force"] = [math.fsum(fw[j] * fs[j][k]
                                            for j in range(np_))
                                  for k in range(3)]
                    e["err_force"] = 64 * EPS * (kw + kd) * (np_ + 4) * \
                        math.fsum(abs(fw[j]) * max(abs(x) for x in fs[j])
                                  for j in range(np_))
                out.append(e)
        a0 += len(mol["atoms"])
    return out


# --------------------------------------------------------------------------
# output parsers (what csg_map wrote)
# --------------------------------------------------------------------------

def parse_out_gro(path):
    return parse_gro(path)


def parse_out_dump(path):
    """values in file units (A, A/ps, kcal/mol/A); box edges in A"""
    frames = []
    lines = [l.strip() for l in open(path).read().split("\n")]
    i = 0
    cur = None
    while i < len(lines):
        ln = lines[i]
        if ln.startswith("ITEM: TIMESTEP"):
            cur = {"step": int(lines[i + 1])}
            i += 2
        elif ln.startswith("ITEM: NUMBER OF ATOMS"):
            cur["n"] = int(lines[i + 1])
            i += 2
        elif ln.startswith("ITEM: BOX BOUNDS"):
            cur["edges"] = [float(lines[i + 1 + k].split()[1]) -
                            float(lines[i + 1 + k].split()[0])
                            for k in range(3)]
            i += 4
        elif ln.startswith("ITEM: ATOMS"):
            cols = ln.split()[2:]
            ci = {c: k for k, c in enumerate(cols)}
            n = cur["n"]
            rows = [l.split() for l in lines[i + 1:i + 1 + n]]
            if len(rows) != n or any(len(r) != len(cols) for r in rows):
                cur["truncated"] = True
                frames.append(cur)
                break
            rows.sort(key=lambda t: int(t[ci["id"]]))
            cur["pos"] = [[float(t[ci[c]]) for c in "xyz"] for t in rows]
            cur["vel"] = [[float(t[ci["v" + c]]) for c in "xyz"]
                          for t in rows] if "vx" in ci else None
            cur["force"] = [[float(t[ci["f" + c]]) for c in "xyz"]
                            for t in rows] if "fx" in ci else None
            frames.append(cur)
            cur = None
            i += 1 + n
        else:
            i += 1
    return frames


def compare_frame(exp, got, outfmt, want_vel, want_force, box):
    """-> list of (key, detail) mismatches. got: one parsed output frame.
    Tolerance: half a unit of the last printed digit + propagated error."""
    bad = []
    if outfmt == "gro":
        upos, uvel, cf = 0.5e-3, 0.5e-4, 1.0      # nm
    else:
        upos, uvel, cf = 0.5e-6, 0.5e-6, 10.0     # A
    slack = 1.0 + 1e-6
    if len(got["pos"]) != len(exp):
        return [("bead-count", {"got": len(got["pos"]), "want": len(exp)})]
    for k, e in enumerate(exp):
        fam = "ellipsoid" if e["symmetry"] == 3 else "sphere"
        for c in range(3):
            w = e["pos"][c] * cf
            tol = upos * slack + e["err_pos"] * cf + 4 * EPS * abs(w)
            if not abs(got["pos"][k][c] - w) <= tol:
                bad.append((fam + "/position", {
                    "cg_bead_index": k, "bead": e["bead"], "component": c,
                    "got": got["pos"][k], "want": [x * cf for x in e["pos"]],
                    "tol": tol}))
                break
        if want_vel:
            if got.get("vel") is None:
                bad.append((fam + "/velocity-missing", {"cg_bead_index": k}))
            else:
                for c in range(3):
                    w = e["vel"][c] * cf
                    tol = uvel * slack + e["err_vel"] * cf + 4 * EPS * abs(w)
                    if not abs(got["vel"][k][c] - w) <= tol:
                        bad.append((fam + "/velocity", {
                            "cg_bead_index": k, "bead": e["bead"],
                            "got": got["vel"][k],
                            "want": [x * cf for x in e["vel"]], "tol": tol}))
                        break
        if want_force:
            if got.get("force") is None:
                bad.append((fam + "/force-missing", {"cg_bead_index": k}))
            else:
                for c in range(3):
                    w = e["force"][c]
                    tol = 0.5e-6 * slack + e["err_force"] + 16 * EPS * abs(w)
                    if not abs(got["force"][k][c] - w) <= tol:
                        bad.append((fam + "/force", {
                            "cg_bead_index": k, "bead": e["bead"],
                            "got": got["force"][k], "want": e["force"],
                            "tol": tol}))
                        break
    # per-frame box propagation (diagonal; off-diagonals belong to C08)
    diag = [box[0][0], box[1][1], box[2][2]]
    if outfmt == "gro":
        gd = [got["box"][0][0], got["box"][1][1], got["box"][2][2]]
        tolb, cfb = 0.5e-5 * slack, 1.0
    else:
        gd, tolb, cfb = got["edges"], 0.5e-6 * slack, 10.0
    for c in range(3):
        if not abs(gd[c] - diag[c] * cfb) <= tolb + 8 * EPS * abs(diag[c] * cfb):
            bad.append(("box-not-of-this-frame",
                        {"got": gd, "want": [x * cfb for x in diag]}))
            break
    return bad
