"""C06 inverse solvers return the true minimiser (DESIGN.md §5 C06).

(a) csg_fmatch on generated systems whose reference forces come from force
    functions inside the spline space (lib/c06_oracle.py fmatch, numpy),
(b) csg_imc_solve -i -g -n -r: residual of the normal equations from the
    files' digits (lib/c06_oracle.py imc),
(c) library harness for tools::linalg_constrained_qrsolve (harness/c06.cc).
All in the asan flavour.
"""
import os
import shutil

import vfcore as vf

ORACLE = os.path.join(vf.VERIF, "lib", "c06_oracle.py")
PY = "python3-vt"

RULE = ("(a) fmatch: 20..80 beads in an orthorhombic box, LAMMPS dump with "
        "forces, families nonbonded (same type, '*', cross type) / bond (1-2 "
        "groups) / angle / dihedral / mixed (non-bonded + bond [+ dihedral]) / "
        "mixed-angle; force functions = natural cubic splines or affine "
        "functions on the fit grid (steps 0.02..1.0, 2..10 intervals), "
        "constrained and plain least squares, 1/2/3 blocks (distinct or "
        "replicated frames), out_step = step/{1,2,4,5}, nbsearch grid/simple, "
        "--no-map or a 1:1 mapping; family mixed-order: 2..4 interactions "
        "(pair / bond / angle / dihedral) in a random permutation of the "
        "options file and an independent permutation of <bonded>/<cg_bonded>, "
        "0..2 of them dihedrals with fmatch.periodic on the whole circle at "
        "any position (keys fmatch/mixed-order/<kind>[-periodic]-<first|later>"
        "/...); family small-box (sub-families bond / angle / dihedral / "
        "mixed, keys fmatch/small-box/<sub>/...): 3..6 chains of 4..5 beads "
        "with bonds 0.34..0.50 nm in boxes whose edges are 2.3..3.2 times "
        "0.5 nm, every bead wrapped into the cell individually, optional pair "
        "interaction with a cutoff below half the box, up to 40 frames per "
        "block; the oracle computes bonded forces from the unwrapped chains "
        "(written digits + recorded image numbers) without any image "
        "convention, counter small_box/dihedrals_r13_or_r24_beyond_half_edge; "
        "25 % of the cases of the other families are written wrapped too; "
        "family many-equations (one fmatch case in 14; keys "
        "fmatch/many-equations/<bond|angle|nonbonded>/<ls>-ls/...): one block "
        "with N = 3*nbeads*frames_per_block equations, N the next feasible "
        "value above 4124..4200, 4500, 5000, 6001, 7000, 8191, 8193..8300, "
        "9000, 10001, 12000, 16385, plus controls N <= 4096 and N = 12288; "
        "variant tail: one or two spline intervals are sampled only by the "
        "very last equations of the block (bond / pair: >= 14 special "
        "molecules per interval in the last frame, listed last and aligned "
        "along z so that only their z rows - the last rows of the block - "
        "carry them; angle: the whole last frame, N mod 4096 >= 3*nbeads), "
        "expected = the generating function; variant noisy (constrained LS): "
        "gaussian noise of 5..40 % of the largest force, expected = the "
        "oracle's own least-squares solution over the natural-spline space "
        "(design matrix from own basis splines and gradients); counters "
        "(two or three adjacent end intervals: a single unsampled interval of a C2 spline is still determined by the others); many_eq/* incl. N, N mod 4096 and tail equations per case; "
        "family irregular-grid (sub-families periodic-dihedral / bond / angle "
        "/ nonbonded / mixed = periodic dihedral + bond and/or angle and/or "
        "pair, keys fmatch/irregular-grid/<sub>/...): ~70 % of the fit grids "
        "have a step that does not divide max - min (periodic dihedrals on "
        "[-3.141592654, 3.141592654] with steps 0.3 0.25 0.4 0.5 0.7 0.9 1.0 "
        "1.1 1.3, random 0.3..1.5, rarely 0.1; other kinds max = min + k*step "
        "+ 0.1..0.9 step), the rest dividing steps; the generating function "
        "is a periodic resp. natural cubic spline on exactly the nodes min + "
        "i*step with the last node moved to max (own numpy splines, "
        "non-uniform spacing), counters irregular_grid/<kind>/<dividing|"
        "non-dividing> and last_interval_ratio buckets; up to 40 (70) frames "
        "per block; "
        "20 % of all cases with --trj-force (known forces subtracted, "
        "cg.fmatch.dist set or not), 20 % with junk frames around the used ones "
        "and --first-frame/--nframes, 4 % with frames_per_block larger than "
        "the trajectory (documented error exit expected, no sanitizer "
        "report). A case is judged only if every spline "
        "interval of every interaction got >= 8 samples spread over at least "
        "half the interval in every block and no value lies outside the grid, "
        "otherwise it is counted skipped_inconclusive_undersampled. Internal "
        "coordinate gradients of the generator are checked against central "
        "differences in every case. distinct = sha1 of the trajectory. "
        "(b) imc_solve: n = 2..40, symmetric and non-symmetric (dense, "
        "near-triangular, prescribed singular values) A, r = |A|^2 * "
        "10^[-6,1], 6..11 printed digits, 1..3 interactions listed in "
        "shuffled order, the spelling of the ranges in turn (a:b; multi-block "
        "a:b,c:d with non-contiguous row sets per interaction; strided a:s:b "
        "and descending b:-s:a with interleaved row sets; blanks after commas, "
        "around colons, several blanks after the name, trailing blanks), every "
        "table must hold exactly the rows of the expanded index set (keys "
        "imc_solve/index-spelling/row-count|values, counters "
        "imc_index_spelling/<class>); 10 % with -r omitted (default 0) and cond(A) <= 32. (c) qrsolve: n = 2..30 unknowns, 1..n-1 constraints "
        "with cond(B) <= 1e4, scale 1e-3..1e3, dense / badly scaled / "
        "spline-structured (real CubicSpline rows) / consistent systems; "
        "non-trivial = the unconstrained minimiser violates the constraints.")


def prebuild():
    vf.build_flavour("asan")
    vf.build_harness("asan", "c06")


def _workers(chk, sub, exe, total, shards, scratch, env, what):
    per = (total + shards - 1) // shards
    jobs = [lambda s=s: vf.run_proc(
        [PY, ORACLE, sub, "--seed", str(chk.seed), "--shard", str(s), "--n",
         str(per), "--scratch", scratch, "--exe", exe], env=env, timeout=3600)
        for s in range(shards)]
    for s, res in enumerate(vf.run_parallel(jobs)):
        for rec in res.records():
            if rec.get("t") == "abnormal":
                pr = vf.ProcResult(rec["rc"], "", rec["err"], rec["timed_out"], 0)
                if not chk.proc_result(pr, rec["what"], rec["witness"]):
                    chk.sanitizer["reports"] += 1
        if not chk.ingest(res, "%s shard %d" % (what, s)):
            if res.rc != 0:
                chk.inconclusive.append("oracle worker %s/%d failed: %s" %
                                        (what, s, res.err[-800:]))


def run(chk):
    vf.build_flavour("asan")
    h = vf.build_harness("asan", "c06")
    env = vf.lib_env("asan")
    env["PYTHONDONTWRITEBYTECODE"] = "1"
    env["OMP_NUM_THREADS"] = "1"
    scratch = vf.scratch_dir(chk.pid)
    chk.rule = RULE
    chk.sanitizer = {"flavour": "asan", "reports": 0}
    n_fm = vf.tier_n(chk.tier, 224, 6720)
    n_imc = vf.tier_n(chk.tier, 480, 9600)
    n_qr = vf.tier_n(chk.tier, 4000, 100000)
    try:
        # (c) library harness
        shards = 16
        jobs = [lambda s=s: vf.run_proc(
            [h, "--seed", str(chk.seed), "--shard", str(s), "--n",
             str((n_qr + shards - 1) // shards)], env=env, timeout=1800)
            for s in range(shards)]
        for s, res in enumerate(vf.run_parallel(jobs)):
            if not chk.ingest(res, "c06 qrsolve shard %d" % s, prefix="qrsolve/"):
                chk.sanitizer["reports"] += 0 if res.rc == 0 else 1
        # (b) csg_imc_solve
        _workers(chk, "imc", vf.exe("asan", "csg_imc_solve"), n_imc, 16,
                 scratch, env, "c06 imc_solve")
        # (a) csg_fmatch
        _workers(chk, "fmatch", vf.exe("asan", "csg_fmatch"), n_fm, 16,
                 scratch, env, "c06 fmatch")
    finally:
        shutil.rmtree(scratch, ignore_errors=True)
    chk.extra["skipped_inconclusive_counters"] = {
        k: v for k, v in chk.counters.items() if "skipped" in k}
    chk.assumptions = [
        "fit tolerance of the force tables: 1e-5 of the largest knot value of "
        "the generating function (plus printed precision)",
        "the LAMMPS dump reader's kcal->kJ factor (4.1868 vs 4.184) is not "
        "judged here: a table set is accepted if it matches under either one",
        "dihedral force matching is exercised with the default (non-periodic) "
        "spline on a sub-range of (-pi, pi)",
        "imc_solve: A square (as gmc files are), cond(A^T A + r I) <= ~1e12/1e6 "
        "by construction of r; residual tolerance 1e-8*(|M||x|+|A^T b|) plus "
        "the 10-digit print precision of x propagated through M",
        "qrsolve: B full row rank, A restricted to null(B) has full column "
        "rank with cond < 1e6 (else counted as skipped)"]


def replay(path):
    vf.build_flavour("asan")
    scratch = vf.scratch_dir("C06r")
    env = vf.lib_env("asan")
    res = vf.run_proc([PY, ORACLE, "replay", path, "--scratch", scratch,
                       "--fmatch", vf.exe("asan", "csg_fmatch"), "--imc",
                       vf.exe("asan", "csg_imc_solve")], env=env, timeout=900)
    print(res.out + res.err[-2000:])
    shutil.rmtree(scratch, ignore_errors=True)
    return res.rc
