"""C12 tables and splines interpolate / fit / resample faithfully
(DESIGN.md §5 C12): library monitor (harness/c12.cc) + executable-level monitor
driving the real csg_resample, both under ASan/UBSan."""
import math
import os
import random
import shutil

import vfcore as vf

RULE = ("library: interpolating Lin/Cubic/Akima splines on uniform and "
        "non-uniform grids (adjacent spacing ratio <= 4) of 2/3/4..400 points, "
        "ordinates smooth / noisy / with zero regions / straight lines / "
        "decaying, magnitudes 1e-3..1e3, natural and periodic boundaries; "
        "relational oracles only: knot values, +-eps continuity of value and "
        "slope at knots, straight-line reproduction (values and slope, knots, "
        "between, both ends), linearity in the ordinates, natural end "
        "curvature from second differences, periodic end conditions; Fit "
        "(linear; cubic natural/periodic/derivativezero) on generated and "
        "hand-set fit grids of 2..24 knots with 3..8 data points per "
        "interval: data of a long-double reference member of the spline space "
        "must be returned, and the residual of noisy data must be orthogonal "
        "to an independently built cardinal basis; Table::Smooth, Save/Load "
        "(10 digits, flags), GenerateGridSpacing / Spline::GenerateGrid. "
        "executable: csg_resample on generated table files (--type "
        "linear|cubic|akima, --grid on the input grid / 2..10x finer / coarser "
        "and offset / beyond the range, --derivative, --fitgrid, --boundaries "
        "natural|periodic|derivativezero): on-grid values and flags, finer vs "
        "coarser output at common points, derivative table vs 5-point "
        "differences of the value table inside knot intervals, fit of "
        "in-space data. A spline case is non-trivial when it has more than the "
        "minimum number of points and non-constant ordinates; a csg_resample "
        "scenario when the output was compared at >= 3 points. distinct = "
        "hash of the canonical input; shards use disjoint seeds. "
        "csg_resample grids wider than the data (up to 1.5 grid lengths on "
        "either side) with --derivative for every type x boundary (+fit): "
        "5-point differences of the value table outside the data "
        "(*/derivative-outside-data). Fit mode with cut / --nocut "
        "(resample/fit/<lin|cubic>/<cut|nocut>/*): fit-grid ends on an input "
        "abscissa (inner / at the table edge), strictly between two abscissae "
        "or beyond the data, tables extending beyond the fit range on the "
        "left / right / both / neither, out-of-range ordinates on or far off "
        "the in-range function, in-range data in the spline space or noisy; "
        "oracle: independent Householder-QR least-squares fit (cardinal "
        "natural-cubic / hat basis on the fit grid) of exactly the data with "
        "fitgrid_min <= x <= fitgrid_max (all data with --nocut), evaluated on "
        "--grid, plus reproduction of in-space data; classes are counted in "
        "the counters fitcut/*. Object reuse (*-reuse/*): one spline "
        "object Interpolate()d / Fit()ted 2-3 times with other sizes, grids, "
        "ordinates and boundary settings (setBC / setBCInt), Fit after "
        "Interpolate and vice versa, GenerateGrid+Fit twice, must answer like "
        "a fresh object (value, derivative, grid; inside, on knots, outside); "
        "one Table resized/set, loaded, cleared, smoothed (a then b = a+b) and "
        "gridded twice. Grid sizes: an integer number of steps up to rounding "
        "(decimal grids 0:0.1:0.7, 0.05:0.05:1.25, ...) must give "
        "round((max-min)/step)+1 points with x_i = min+i*step. Every "
        "periodic family has its own violation keys (cubic-periodic/*, "
        "akima-periodic/*, fit/cubic-periodic/*, resample/*-periodic/*).")

ASSUMPTIONS = [
    "tolerances are built from the inputs only: |y|max, largest data slope, "
    "largest second divided difference (bounds the natural spline's second "
    "derivative by a factor 3), grid spacing and abscissa magnitude",
    "periodic data sets have y_0 = y_{N-1}; the period is x_{N-1}-x_0",
    "Fit is judged on well-posed problems only: >= 3 data points strictly "
    "inside every fit interval, condition number of the reference design "
    "matrix < 1e6 (tolerance 1e-9*cond*scale); periodic / derivativezero "
    "fits are judged against the smaller space (true periodic splines; "
    "zero end slope and zero end value), which is contained in either "
    "reading of the documentation",
    "Table::Smooth keeps straight lines only on uniform grids (1-2-1 weights "
    "in the index), that is what is judged",
    "Table save/load: x, y to the 10 written digits and flags; the error "
    "column is not judged here (C08)",
    "csg_resample flags are judged at output points that coincide with an "
    "input point (the statement: 'on the input grid ... keeps the point "
    "flags'); grids are generated so that the accumulated rounding of "
    "GenerateGridSpacing stays below the 1e-12 matching tolerance of the tool",
    "csg_resample --derivative is compared with a 5-point difference (exact "
    "for cubics) only where the whole stencil lies inside one knot interval; "
    "tolerance from the 10 printed digits",
]

LIB_PLAN = [  # part, type, shards, quick n, thorough n   (n = cases per shard)
    ("interp", "linear", 2, 900, 36000),
    ("interp", "cubic", 5, 360, 14000),
    ("interp", "akima", 2, 900, 36000),
    ("fit", "linear", 1, 300, 8000),
    ("fit", "cubic", 3, 250, 5000),
    ("table", "x", 1, 300, 8000),
    ("reuse", "linear", 1, 300, 12000),
    ("reuse", "cubic", 1, 300, 6000),
    ("reuse", "akima", 1, 300, 12000),
    ("reuse", "table", 1, 300, 12000),
]


# csg_resample with an output grid wider than the data: type, --boundaries, fit
OUTSIDE_COMBOS = [
    ("akima", "periodic", False), ("akima", None, False),
    ("cubic", "periodic", False), ("cubic", "natural", False),
    ("linear", "periodic", False), ("linear", None, False),
    ("linear", "derivativezero", False),
    ("linear", None, True), ("cubic", "natural", True),
    ("cubic", "periodic", True), ("cubic", "derivativezero", True),
]


def prebuild():
    vf.build_harness("asan", "c12")
    vf.build_flavour("asan", ["csg_resample"])


# ----------------------------------------------------------------------------
# csg_resample scenarios (plain python oracle)
# ----------------------------------------------------------------------------

def read_table(path):
    xs, ys, fl = [], [], []
    for ln in open(path):
        ln = ln.split("#")[0].split()
        if len(ln) < 2:
            continue
        xs.append(float(ln[0]))
        ys.append(float(ln[1]))
        fl.append(ln[2] if len(ln) > 2 else "")
    return xs, ys, fl


def natural_cubic(xk, fk, bc="natural"):
    """reference cubic spline (second derivatives by Gaussian elimination);
    bc natural | periodic (f[0]==f[-1]) | clamped0 (zero end slopes)"""
    n = len(xk)
    h = [xk[i + 1] - xk[i] for i in range(n - 1)]
    m = [(fk[i + 1] - fk[i]) / h[i] for i in range(n - 1)]
    A = [[0.0] * n for _ in range(n)]
    b = [0.0] * n
    for k in range(1, n - 1):
        A[k][k - 1] = h[k - 1] / 6
        A[k][k] = (h[k - 1] + h[k]) / 3
        A[k][k + 1] = h[k] / 6
        b[k] = m[k] - m[k - 1]
    if bc == "natural":
        A[0][0] = 1.0
        A[n - 1][n - 1] = 1.0
    elif bc == "periodic":
        A[0][0] = 1.0
        A[0][n - 1] = -1.0
        A[n - 1][n - 2] += h[n - 2] / 6
        A[n - 1][n - 1] += h[n - 2] / 3
        A[n - 1][0] += h[0] / 3
        A[n - 1][1] += h[0] / 6
        b[n - 1] = m[0] - m[n - 2]
    else:
        A[0][0] = h[0] / 3
        A[0][1] = h[0] / 6
        b[0] = m[0]
        A[n - 1][n - 2] = h[n - 2] / 6
        A[n - 1][n - 1] = h[n - 2] / 3
        b[n - 1] = -m[n - 2]
    for c in range(n):
        p = max(range(c, n), key=lambda r: abs(A[r][c]))
        A[c], A[p] = A[p], A[c]
        b[c], b[p] = b[p], b[c]
        for r in range(c + 1, n):
            f = A[r][c] / A[c][c]
            if f:
                for k in range(c, n):
                    A[r][k] -= f * A[c][k]
                b[r] -= f * b[c]
    for c in range(n - 1, -1, -1):
        for k in range(c + 1, n):
            b[c] -= A[c][k] * b[k]
        b[c] /= A[c][c]
    f2 = b

    def ev(r):
        i = 0
        while i + 2 < n and r >= xk[i + 1]:
            i += 1
        hh = xk[i + 1] - xk[i]
        a = (xk[i + 1] - r) / hh
        bb = (r - xk[i]) / hh
        return (a * fk[i] + bb * fk[i + 1] +
                ((a ** 3 - a) * f2[i] + (bb ** 3 - bb) * f2[i + 1]) * hh * hh / 6)
    return ev


def hat_spline(xk, fk):
    n = len(xk)

    def ev(r):
        i = 0
        while i + 2 < n and r >= xk[i + 1]:
            i += 1
        t = (r - xk[i]) / (xk[i + 1] - xk[i])
        return (1 - t) * fk[i] + t * fk[i + 1]
    return ev


def lstsq(Bm, y):
    """least-squares solution of Bm c = y by Householder QR (plain python);
    returns (c, condition estimate from the diagonal of R)"""
    m, n = len(Bm), len(Bm[0])
    A = [row[:] + [yy] for row, yy in zip(Bm, y)]
    diag = []
    for k in range(n):
        nrm = math.sqrt(sum(A[i][k] ** 2 for i in range(k, m)))
        if nrm == 0.0:
            return None, float("inf")
        alpha = -nrm if A[k][k] >= 0 else nrm
        v = [A[i][k] for i in range(k, m)]
        v[0] -= alpha
        vn = sum(t * t for t in v)
        if vn > 0:
            for j in range(k, n + 1):
                d = 2 * sum(v[i - k] * A[i][j] for i in range(k, m)) / vn
                for i in range(k, m):
                    A[i][j] -= d * v[i - k]
        diag.append(abs(A[k][k]))
    c = [0.0] * n
    for k in range(n - 1, -1, -1):
        c[k] = (A[k][n] - sum(A[k][j] * c[j] for j in range(k + 1, n))) / A[k][k]
    return c, max(diag) / min(diag)


def dec(micro):
    """exact decimal string of an integer number of 1e-6 units"""
    s = "-" if micro < 0 else ""
    micro = abs(micro)
    return "%s%d.%06d" % (s, micro // 1000000, micro % 1000000)


class Scenario:
    """one generated csg_resample scenario; run() executes the real tool and
    returns a result record (no shared state: runs in a worker thread)."""

    def __init__(self, idx, seed, exe, env, root):
        self.idx, self.exe, self.env = idx, exe, env
        self.rng = random.Random(seed * 1000003 + idx)
        self.dir = os.path.join(root, "s%05d" % idx)
        self.res = {"viol": [], "fam": {}, "nontrivial": 0, "samples": [],
                    "counters": {}, "procs": []}

    # -- helpers ------------------------------------------------------------
    def viol(self, key, what, **w):
        w["scenario"] = self.desc
        w["input_table"] = self.intab
        self.res["viol"].append((key, what, w))

    def count(self, fam, n=1):
        self.res["fam"][fam] = self.res["fam"].get(fam, 0) + n

    def counter(self, k, n=1):
        self.res["counters"][k] = self.res["counters"].get(k, 0) + n

    def tool(self, args, tag):
        cmd = [self.exe] + args
        r = vf.run_proc(cmd, env=self.env, timeout=300, cwd=self.dir)
        self.res["procs"].append((r, "csg_resample " + " ".join(args), tag))
        return r

    def gen_input(self, kind, periodic=False, nmin=4):
        r = self.rng
        hm = r.choice([2000, 5000, 10000, 20000, 50000, 100000, 250000])
        n = r.choice([nmin, nmin + 1, r.randint(nmin, max(nmin, 12)),
                      r.randint(max(nmin, 12), max(nmin, 60)),
                      r.randint(max(nmin, 60), 400)])
        # keep |x|max * n small: the tool matches grid points with an absolute
        # 1e-12 after n accumulated additions
        while True:
            k0 = r.choice([0, 0, r.randint(0, 40), r.randint(-40, 40)])
            xmax = max(abs(k0 * hm), abs((k0 + n - 1) * hm)) * 1e-6
            if xmax * n <= 2000:
                break
            n = max(nmin, n // 2)
        xm = [(k0 + j) * hm for j in range(n)]          # micro units
        xs = [float(dec(v)) for v in xm]
        A = math.exp(r.uniform(math.log(1e-3), math.log(1e3)))
        off = r.uniform(-10, 10) * A if r.random() < 0.3 else 0.0
        L = xs[-1] - xs[0]
        k1 = r.uniform(0.5, 6) / L * 6.283
        k2 = r.uniform(0.5, 20) / L * 6.283
        p1 = r.uniform(0, 6.283)
        ys = []
        for x in xs:
            t = x - xs[0]
            if kind == 0:
                y = off + A * (math.sin(k1 * t + p1) + 0.3 * math.cos(k2 * t))
            elif kind == 1:
                y = off + A * r.gauss(0, 1)
            elif kind == 2:
                y = 0.0 if t < 0.3 * L else A * (t / L - 0.3) ** 2 * math.cos(k1 * t)
            else:
                y = off + A * math.exp(-3 * t / L) + 0.01 * A * r.gauss(0, 1)
            ys.append(float("%.12g" % y))
        if periodic:
            ys[-1] = ys[0]
        fmode = r.randint(0, 3)
        fl = []
        for j in range(n):
            if fmode == 0:
                fl.append("i")
            elif fmode == 1:
                fl.append(r.choice("iou"))
            elif fmode == 2:
                fl.append("u" if j < n // 4 else ("o" if j > n - 3 else "i"))
            else:
                fl.append("iou"[j % 3])
        self.hm, self.k0, self.n = hm, k0, n
        self.xm, self.xs, self.ys, self.fl = xm, xs, ys, fl
        self.write_input()

    def write_input(self):
        os.makedirs(self.dir, exist_ok=True)
        with open(os.path.join(self.dir, "in.tab"), "w") as f:
            if self.rng.random() < 0.2:
                f.write("# generated by the C12 monitor\n")
            for xm, y, c in zip(self.xm, self.ys, self.fl):
                f.write("%s %.12g %s\n" % (dec(xm), y, c))
        self.intab = {"x": self.xs, "y": self.ys, "flags": "".join(self.fl)}

    def scales(self):
        Y = max(abs(v) for v in self.ys)
        h = self.hm * 1e-6
        Mx = max(abs(self.ys[i + 1] - self.ys[i]) for i in range(self.n - 1)) / h
        xa = max(abs(self.xs[0]), abs(self.xs[-1]))
        return Y, Mx, xa

    # -- scenario families --------------------------------------------------
    def run(self):
        try:
            fam = self.idx % 10
            if fam in (0, 1):
                self.sc_interp(periodic=False)
            elif fam == 2:
                self.sc_interp(periodic=True)
            elif fam in (3, 4):
                self.sc_fine()
            elif fam == 6:
                self.sc_fitcut(self.idx // 10)
            elif fam == 5 and (self.idx // 10) % 2 == 1:
                self.sc_fitcut(None)
            elif fam == 5:
                self.sc_fit()
            elif fam == 7:
                if self.idx % 40 == 7:
                    self.sc_left()
                else:
                    self.sc_outside()
            else:
                self.sc_outside_der(((self.idx // 10) * 2 + fam - 8)
                                    % len(OUTSIDE_COMBOS))
        finally:
            shutil.rmtree(self.dir, ignore_errors=True)
        return self.res

    def typ(self):
        return ["linear", "cubic", "akima"][(self.idx // 10 + self.idx) % 3]

    def check_ongrid(self, pref, xs_o, ys_o, fl_o, stride, first_in, what):
        """output point i*stride coincides with input point first_in+i.
        An output grid that starts left of the data is its own family for the
        flag of the first data point (separate key)."""
        Y, Mx, xa = self.scales()
        ncmp = 0
        for i in range(0, len(xs_o), stride):
            j = first_in + i // stride
            if j < 0 or j >= self.n:
                continue
            ncmp += 1
            tol = 6e-10 * abs(self.ys[j]) + 1e-11 * (Y + Mx * (xa + 1))
            if not abs(ys_o[i] - self.ys[j]) <= tol:
                self.viol(pref + "/on-grid-value", "value at an output point "
                          "that coincides with an input point differs from the "
                          "input (" + what + ")", index=i, x=xs_o[i],
                          got=ys_o[i], expected=self.ys[j])
                break
            if fl_o[i] != self.fl[j]:
                if j == 0 and first_in < 0 and fl_o[i] == "o":
                    self.viol("resample/grid-starts-left-of-data/first-point-flag",
                              "output grid starts left of the data: the output "
                              "point that coincides with the first input point "
                              "is treated as outside the data (flag 'o')",
                              index=i, x=xs_o[i], got=fl_o[i],
                              expected=self.fl[j], output_flags="".join(fl_o))
                    continue
                self.viol(pref + "/on-grid-flag", "flag at an output point that "
                          "coincides with an input point differs from the "
                          "input flag (" + what + ")", index=i, x=xs_o[i],
                          got=fl_o[i], expected=self.fl[j],
                          output_flags="".join(fl_o))
                break
        return ncmp

    def check_grid(self, pref, xs_o, gmin, gstep, gmax):
        nexp = int(math.floor((gmax - gmin) / gstep + 1.00000001))
        if len(xs_o) != nexp:
            self.viol(pref + "/output-grid", "number of output points differs "
                      "from (max-min)/step+1", got=len(xs_o), expected=nexp)
            return False
        for i, x in enumerate(xs_o):
            want = gmin + (gmax - gmin) * i / max(nexp - 1, 1)
            if not abs(x - want) <= 6e-10 * abs(want) + 1e-11:
                self.viol(pref + "/output-grid", "output abscissa is not "
                          "min+i*step", index=i, got=x, expected=want)
                return False
        return True

    def check_derivative(self, pref, xs_o, ys_o, ds_o, knots_idx_step, first):
        """5-point stencil (exact for cubics) where i-2..i+2 lie inside one
        knot interval; knots sit at output indices first + k*knots_idx_step"""
        m = knots_idx_step
        if m < 4:
            return 0
        s = (xs_o[-1] - xs_o[0]) / (len(xs_o) - 1)
        Y, Mx, xa = self.scales()
        # rounding noise of one spline evaluation (a*r+b cancellation etc.)
        noise = 1e-13 * (Y + Mx * (xa + 1))
        ncmp = 0
        for i in range(2, len(xs_o) - 2):
            lo = (i - 2 - first) // m
            if (i + 2 - first) > (lo + 1) * m or (i - 2 - first) < 0:
                continue
            fd = (-ys_o[i + 2] + 8 * ys_o[i + 1] - 8 * ys_o[i - 1] + ys_o[i - 2]) / (12 * s)
            ym = max(abs(ys_o[k]) for k in range(i - 2, i + 3))
            tol = 3 * (1.5 * (5e-10 * ym + noise) / s) + 2e-9 * abs(ds_o[i]) + 1e-300
            ncmp += 1
            if not abs(fd - ds_o[i]) <= tol:
                self.viol(pref + "/derivative", "--derivative output differs "
                          "from the finite-difference derivative of the value "
                          "output", index=i, x=xs_o[i], derivative=ds_o[i],
                          finite_difference=fd, tolerance=tol)
                break
        return ncmp

    def sc_interp(self, periodic):
        """output grid = input grid"""
        t = self.typ() if not periodic else self.rng.choice(["cubic", "akima"])
        self.gen_input(self.rng.randint(0, 3), periodic,
                       nmin={"linear": 2, "cubic": 3, "akima": 4}[t])
        bnd = "periodic" if periodic else self.rng.choice([None, "natural"])
        grid = "%s:%s:%s" % (dec(self.xm[0]), dec(self.hm), dec(self.xm[-1]))
        args = ["--in", "in.tab", "--out", "out.tab", "--grid", grid,
                "--type", t, "--derivative", "der.tab"]
        if bnd:
            args += ["--boundaries", bnd]
        self.desc = {"family": "on-input-grid", "args": args}
        pref = "resample/" + t + ("-periodic" if periodic else "")
        r = self.tool(args, pref)
        if r.rc != 0 or r.timed_out:
            return
        xo, yo, fo = read_table(os.path.join(self.dir, "out.tab"))
        xd, yd, fd = read_table(os.path.join(self.dir, "der.tab"))
        self.count(pref.replace("/", "_") + "_on_grid")
        if not self.check_grid(pref, xo, self.xs[0], self.hm * 1e-6, self.xs[-1]):
            return
        n = self.check_ongrid(pref, xo, yo, fo, 1, 0, "--grid = input grid")
        if n >= 3:
            self.res["nontrivial"] += 1
        if periodic and len(yd) == len(yo) and len(yd) >= 2:
            Y, Mx, xa = self.scales()
            if not abs(yd[0] - yd[-1]) <= 1e-6 * Mx:
                self.viol(pref + "/end-slope-differs", "periodic boundaries: "
                          "derivative output at the first and the last grid "
                          "point differ", first=yd[0], last=yd[-1],
                          slope_scale=Mx)
        if self.idx % 50 == 0:
            self.res["samples"].append({"args": args, "n_points": self.n,
                                        "out_first_rows": list(zip(xo, yo, fo))[:3]})

    def sc_fine(self):
        """finer grid with derivative; coarser / offset grid compared with it"""
        t = self.typ()
        self.gen_input(self.rng.randint(0, 3),
                       nmin={"linear": 2, "cubic": 3, "akima": 4}[t])
        m = self.rng.choice([2, 4, 5, 8, 10])
        sm = self.hm // m
        grid = "%s:%s:%s" % (dec(self.xm[0]), dec(sm), dec(self.xm[-1]))
        args = ["--in", "in.tab", "--out", "fine.tab", "--grid", grid,
                "--type", t, "--derivative", "fineder.tab"]
        self.desc = {"family": "finer-grid+derivative", "args": args}
        pref = "resample/" + t
        r = self.tool(args, pref)
        if r.rc != 0 or r.timed_out:
            return
        xo, yo, fo = read_table(os.path.join(self.dir, "fine.tab"))
        xd, yd, fd = read_table(os.path.join(self.dir, "fineder.tab"))
        self.count(pref.replace("/", "_") + "_finer")
        if not self.check_grid(pref, xo, self.xs[0], sm * 1e-6, self.xs[-1]):
            return
        n = self.check_ongrid(pref, xo, yo, fo, m, 0, "finer grid")
        if len(yd) != len(yo):
            self.viol(pref + "/derivative", "derivative table has a different "
                      "number of rows", got=len(yd), expected=len(yo))
            return
        nd = self.check_derivative(pref, xo, yo, yd, m, 0)
        self.count(pref.replace("/", "_") + "_derivative_points", nd)
        if n >= 3:
            self.res["nontrivial"] += 1
        # coarser and offset grid: a subset of the fine grid
        k = self.rng.choice([2, 3, 5, 7]) * (1 if self.rng.random() < 0.5 else m)
        a = self.rng.randint(0, min(k, len(xo) - 1))
        last = a + ((len(xo) - 1 - a) // k) * k
        if last <= a:
            return
        g2 = "%s:%s:%s" % (dec(self.xm[0] + a * sm), dec(k * sm),
                           dec(self.xm[0] + last * sm))
        args2 = ["--in", "in.tab", "--out", "coarse.tab", "--grid", g2,
                 "--type", t]
        self.desc = {"family": "coarser/offset grid vs finer grid",
                     "args_fine": args, "args": args2}
        r = self.tool(args2, pref)
        if r.rc != 0 or r.timed_out:
            return
        xc, yc, fc = read_table(os.path.join(self.dir, "coarse.tab"))
        self.count(pref.replace("/", "_") + "_coarser_offset")
        if not self.check_grid(pref, xc, (self.xm[0] + a * sm) * 1e-6,
                               k * sm * 1e-6, (self.xm[0] + last * sm) * 1e-6):
            return
        Y, Mx, xa = self.scales()
        for i in range(len(xc)):
            f = a + i * k
            tol = 1.2e-9 * max(abs(yc[i]), abs(yo[f])) + 1e-11 * (Y + Mx * (xa + 1))
            if not abs(yc[i] - yo[f]) <= tol:
                self.viol(pref + "/grids-disagree", "two output grids give "
                          "different values at a common point", x=xc[i],
                          coarse=yc[i], fine=yo[f])
                break
            if f % m == 0 and fc[i] != self.fl[f // m]:
                self.viol(pref + "/on-grid-flag", "flag at an output point "
                          "that coincides with an input point differs from the "
                          "input flag (coarser/offset grid)", x=xc[i],
                          got=fc[i], expected=self.fl[f // m],
                          output_flags="".join(fc))
                break

    def sc_outside(self):
        """output grid reaching beyond the data on both sides"""
        t = self.typ()
        self.gen_input(self.rng.randint(0, 3),
                       nmin={"linear": 2, "cubic": 3, "akima": 4}[t])
        ext_l, ext_r = self.rng.randint(0, 5), self.rng.randint(1, 5)
        gmin = self.xm[0] - ext_l * self.hm
        gmax = self.xm[-1] + ext_r * self.hm
        grid = "%s:%s:%s" % (dec(gmin), dec(self.hm), dec(gmax))
        args = ["--in", "in.tab", "--out", "out.tab", "--grid", grid,
                "--type", t, "--derivative", "der.tab"]
        self.desc = {"family": "grid-beyond-data", "args": args}
        pref = "resample/" + t
        r = self.tool(args, pref)
        if r.rc != 0 or r.timed_out:
            return
        xo, yo, fo = read_table(os.path.join(self.dir, "out.tab"))
        self.count(pref.replace("/", "_") + "_beyond_data")
        if not self.check_grid(pref, xo, gmin * 1e-6, self.hm * 1e-6, gmax * 1e-6):
            return
        n = self.check_ongrid(pref, xo, yo, fo, 1, -ext_l, "grid beyond the data")
        if n >= 3:
            self.res["nontrivial"] += 1

    def sc_outside_der(self, combo):
        """output grid (much) wider than the data / the fit grid on both sides,
        with --derivative: outside the data the derivative table must still be
        the finite-difference derivative of the value table (5-point stencil,
        exact for the extrapolated end polynomial)"""
        r = self.rng
        t, bnd, fit = OUTSIDE_COMBOS[combo]
        nmin = 40 if fit else {"linear": 2, "cubic": 3, "akima": 4}[t]
        self.gen_input(r.choice([0, 0, 3]), periodic=(bnd == "periodic"),
                       nmin=nmin)
        while self.n > 40:                       # keep the tables small
            self.n //= 2
            self.xm, self.xs = self.xm[:self.n], self.xs[:self.n]
            self.ys, self.fl = self.ys[:self.n], self.fl[:self.n]
            if bnd == "periodic":
                self.ys[-1] = self.ys[0]
            self.write_input()
        # fine output grid: 9-point stencils must fit between two knots of
        # whatever piecewise continuation the tool uses outside the data
        m = r.choice([c for c in (10, 16, 20, 25) if self.hm % c == 0])
        sm = self.hm // m
        j0, j1, k = 0, self.n - 1, 1
        args_fit = []
        if fit:
            k = r.choice([4, 5, 8, 10])
            ngf = r.randint(4, max(4, (self.n - 1) // k + 1))
            ngf = min(ngf, (self.n - 1) // k + 1)
            j0 = r.randint(0, self.n - 1 - (ngf - 1) * k)
            j1 = j0 + (ngf - 1) * k
            args_fit = ["--fitgrid", "%s:%s:%s" % (dec(self.xm[j0]),
                                                   dec(k * self.hm),
                                                   dec(self.xm[j1]))]
        span = (j1 - j0) * m                     # data range in output steps
        far = max(10, int(1.5 * span))
        el = r.choice([r.randint(10, 16), r.randint(10, max(10, far))])
        er = r.choice([r.randint(10, 16), r.randint(10, max(10, far))])
        gmin = self.xm[j0] - el * sm
        gmax = self.xm[j1] + er * sm
        args = ["--in", "in.tab", "--out", "out.tab", "--grid",
                "%s:%s:%s" % (dec(gmin), dec(sm), dec(gmax)), "--type", t,
                "--derivative", "der.tab"] + args_fit
        if bnd:
            args += ["--boundaries", bnd]
        self.desc = {"family": "grid-wider-than-data+derivative", "args": args}
        pref = ("resample/" + ("fit-" if fit else "") + t +
                ("-" + bnd if bnd in ("periodic", "derivativezero") else ""))
        rr = self.tool(args, pref)
        if rr.rc != 0 or rr.timed_out:
            return
        xo, yo, fo = read_table(os.path.join(self.dir, "out.tab"))
        xd, yd, fd = read_table(os.path.join(self.dir, "der.tab"))
        fam = pref.replace("/", "_") + "_wider_than_data"
        self.count(fam)
        if not self.check_grid(pref, xo, gmin * 1e-6, sm * 1e-6, gmax * 1e-6):
            return
        if len(yd) != len(yo):
            self.viol(pref + "/derivative-outside-data", "derivative table has "
                      "a different number of rows", got=len(yd),
                      expected=len(yo))
            return
        # magnitudes of the terms of the extrapolated end polynomial
        Y, Mx, xa = self.scales()
        h = self.hm * 1e-6
        K2 = max([abs(self.ys[i + 1] - 2 * self.ys[i] + self.ys[i - 1])
                  for i in range(1, self.n - 1)] + [0.0]) / (h * h)
        he = k * h
        s = sm * 1e-6
        i_first, i_last = el, el + span
        ncmp = 0
        for i in range(4, len(xo) - 4):
            if i + 4 <= i_first:
                d = (i_first - i + 4) * s + he
            elif i - 4 >= i_last:
                d = (i - i_last + 4) * s + he
            else:
                continue
            q = d / he
            terms = Y + Mx * d * (1 + q + q * q) + 3 * K2 * d * d * (1 + q)
            noise = 1e-13 * terms
            num = (-yo[i + 2] + 8 * yo[i + 1] - 8 * yo[i - 1] + yo[i - 2]) / (12 * s)
            ym = max(abs(yo[j]) for j in range(i - 2, i + 3))
            tol = 3 * (1.5 * (5e-10 * ym + noise) / s) + 2e-9 * abs(yd[i]) + 1e-300
            # the same formula with the double step and the two one-sided
            # 4-point formulas: all are exact for one cubic piece; where they
            # disagree the value output is not one smooth piece across the
            # stencil (kink or knot of whatever continuation the tool uses
            # outside the data) and a difference quotient says nothing
            num2 = (-yo[i + 4] + 8 * yo[i + 2] - 8 * yo[i - 2] + yo[i - 4]) / (24 * s)
            fwd = (-11 * yo[i] + 18 * yo[i + 1] - 9 * yo[i + 2] + 2 * yo[i + 3]) / (6 * s)
            bwd = (11 * yo[i] - 18 * yo[i - 1] + 9 * yo[i - 2] - 2 * yo[i - 3]) / (6 * s)
            ym2 = max(abs(yo[j]) for j in range(i - 4, i + 5))
            gate = tol + 7 * (5e-10 * ym2 + noise) / s
            if not (abs(num - num2) <= gate and abs(num - fwd) <= gate
                    and abs(num - bwd) <= gate):
                self.counter("outside_stencil_not_smooth_not_judged")
                continue
            ncmp += 1
            if not abs(num - yd[i]) <= tol:
                self.viol(pref + "/derivative-outside-data", "outside the data "
                          "the --derivative output differs from the "
                          "finite-difference derivative of the value output",
                          index=i, x=xo[i], data_first=self.xs[j0],
                          data_last=self.xs[j1], derivative=yd[i],
                          finite_difference=num, tolerance=tol)
                break
        self.count(fam + "_derivative_points", ncmp)
        if ncmp >= 3:
            self.res["nontrivial"] += 1

    def sc_fitcut(self, q):
        """fit mode with the fit-grid ends on / between / beyond the input
        abscissae, data beyond the fit range on either side (on or far off the
        in-range function), default cut and --nocut. Oracle: independent
        least-squares fit (cardinal natural-cubic / hat basis on the fit grid,
        Householder QR) of exactly the data the documented cut keeps
        (fitgrid_min <= x <= fitgrid_max; all points with --nocut)."""
        r = self.rng
        CL = ["b", "a_inner", "c", "a_edge"]
        if q is None:
            cmax, cmin = r.choice(CL), r.choice(CL)
            t = r.choice(["linear", "cubic"])
            off = r.random() < 0.6
            nocut = r.random() < 0.35
            noisy = r.random() < 0.4
        else:                                   # deterministic cycle
            cmax, cmin = CL[q % 4], CL[(q // 2 + 1) % 4]
            t = ["linear", "cubic"][(q // 4 + q) % 2]
            off = q % 3 != 2
            nocut = q % 5 == 3
            noisy = q % 7 == 3
        hm = r.choice([2000, 5000, 10000, 20000, 50000, 100000])
        u = hm // 20                            # position unit (micro)
        g = r.randint(1 if t == "linear" else 2, 6)   # fit intervals
        # positions in units of u relative to the first input abscissa
        j0 = r.randint(3, 8)
        pmin = {"a_inner": 20 * j0, "a_edge": 0,
                "b": 20 * j0 + r.randint(1, 19), "c": -r.randint(1, 20)}[cmin]
        for _ in range(400):
            Hu = r.randint(80, 200)
            pmax = pmin + g * Hu
            if (cmax in ("a_inner", "a_edge")) == (pmax % 20 == 0) or cmax == "c":
                break
            if _ % 20 == 19:                    # residue not reachable with this g
                g = r.randint(1 if t == "linear" else 2, 6)
        else:
            self.counter("fitcut_no_layout_skipped")
            return
        if cmax == "a_inner":
            nlast = pmax // 20 + r.randint(3, 8)
        elif cmax == "a_edge":
            nlast = pmax // 20
        elif cmax == "b":
            nlast = pmax // 20 + r.randint(1, 8)
        else:
            nlast = (pmax + 19) // 20 - 1
        n = nlast + 1
        k0 = r.choice([0, 0, r.randint(0, 40), r.randint(-40, 40)])
        self.hm, self.k0, self.n = hm, k0, n
        self.xm = [(k0 + j) * hm for j in range(n)]
        self.xs = [float(dec(v)) for v in self.xm]
        fmin_m, fmax_m = k0 * hm + pmin * u, k0 * hm + pmax * u
        xk = [float(dec(fmin_m + i * Hu * u)) for i in range(g + 1)]
        A = math.exp(r.uniform(math.log(1e-2), math.log(1e2)))
        fk = [A * r.gauss(0, 1) for _ in xk]
        ref = hat_spline(xk, fk) if t == "linear" else natural_cubic(xk, fk)
        sig = A * math.exp(r.uniform(math.log(1e-3), math.log(0.3)))
        self.ys, keep = [], []
        n_out_l = n_out_r = 0
        for j in range(n):
            pj = 20 * j
            inside = pmin <= pj <= pmax
            y = ref(self.xs[j])
            if inside and noisy:
                y += sig * r.gauss(0, 1)
            if not inside:
                n_out_l += pj < pmin
                n_out_r += pj > pmax
                if off:
                    y += A * r.uniform(5, 50) * r.choice([-1, 1])
            self.ys.append(float("%.12g" % y))
            keep.append(inside or nocut)
        self.fl = [r.choice("iou") for _ in range(n)]
        self.write_input()
        # output grid: the fit range (sometimes a little wider), step H/qq
        qq = r.choice([c for c in (2, 4, 5, 10) if (Hu * u) % c == 0] or [1])
        so = Hu * u // qq
        eo = r.choice([0, 0, 1, 2])
        gmin_m, gmax_m = fmin_m - eo * so, fmax_m + eo * so
        args = ["--in", "in.tab", "--out", "fit.tab", "--type", t,
                "--grid", "%s:%s:%s" % (dec(gmin_m), dec(so), dec(gmax_m)),
                "--fitgrid", "%s:%s:%s" % (dec(fmin_m), dec(Hu * u), dec(fmax_m))]
        if nocut:
            args.append("--nocut")
        if r.random() < 0.3:
            args += ["--boundaries", "natural"]
        ext = ("both" if n_out_l and n_out_r else "left" if n_out_l
               else "right" if n_out_r else "neither")
        self.desc = {"family": "fit with cut / nocut", "args": args,
                     "fit_knots": xk, "knot_values": fk,
                     "fitgrid_min_class": cmin, "fitgrid_max_class": cmax,
                     "table_extends_beyond_fit_range": ext,
                     "out_of_range_ordinates": "far off" if off else "on the function",
                     "noisy_in_range_data": noisy}
        mode = "nocut" if nocut else "cut"
        pref = "resample/fit/%s/%s" % ("lin" if t == "linear" else "cubic", mode)
        rr = self.tool(args, pref)
        if rr.rc != 0 or rr.timed_out:
            return
        xo, yo, fo = read_table(os.path.join(self.dir, "fit.tab"))
        self.count("resample_fit_%s_%s" % (t, mode))
        self.counter("fitcut/min:" + cmin)
        self.counter("fitcut/max:" + cmax)
        self.counter("fitcut/table_extends:" + ext)
        self.counter("fitcut/min:%s,max:%s,%s" % (cmin, cmax, mode))
        if ext != "neither":
            self.counter("fitcut/out_of_range_ordinates:" + ("far_off" if off else "on_function"))
        if not self.check_grid(pref, xo, gmin_m * 1e-6, so * 1e-6, gmax_m * 1e-6):
            return
        # independent least-squares optimum of the kept data
        kx = [self.xs[j] for j in range(n) if keep[j]]
        ky = [self.ys[j] for j in range(n) if keep[j]]
        cards = []
        for i in range(g + 1):
            e = [1.0 if k == i else 0.0 for k in range(g + 1)]
            cards.append(hat_spline(xk, e) if t == "linear" else natural_cubic(xk, e))
        Bm = [[cf(x) for cf in cards] for x in kx]
        coef, cond = lstsq(Bm, ky)
        if coef is None or not cond < 1e5 or len(kx) < g + 2:
            self.counter("fitcut_illconditioned_not_judged")
            return
        Ysc = max(abs(v) for v in ky) + max(abs(v) for v in fk)
        Hf = Hu * u * 1e-6
        worst = None
        in_space = not noisy and (not nocut or not off or ext == "neither")
        for i, x in enumerate(xo):
            d = max(xk[0] - x, x - xk[-1], 0.0) / Hf
            amp = (1 + d) ** 3
            want = sum(c * cf(x) for c, cf in zip(coef, cards))
            tol = 1e-8 * cond * Ysc * amp + 1e-9 * abs(want)
            if not abs(yo[i] - want) <= tol:
                dv = abs(yo[i] - want) / tol
                if worst is None or dv > worst[0]:
                    worst = (dv, x, yo[i], want)
            if in_space:
                f = ref(x)
                if not abs(yo[i] - f) <= 1e-8 * cond * Ysc * amp + 1e-9 * abs(f):
                    self.viol(pref + "/spline-space-not-reproduced",
                              "data sampled from a function of the spline "
                              "space (whatever lies outside the fit range) are "
                              "not reproduced by the fit", x=x, got=yo[i],
                              expected=f, kept_points=len(kx))
                    in_space = False
        if worst:
            self.viol(pref + "/not-least-squares", "csg_resample fit differs "
                      "from the independent least-squares spline fit of the "
                      "data the documented cut keeps (fitgrid_min <= x <= "
                      "fitgrid_max; all data with --nocut)", x=worst[1],
                      got=worst[2], expected=worst[3],
                      difference_over_tolerance=worst[0],
                      kept_points=len(kx), design_condition=cond)
        self.res["nontrivial"] += 1
        if self.idx % 30 == 6:
            self.res["samples"].append({"args": args, "classes": [cmin, cmax, ext],
                                        "kept_points": len(kx),
                                        "out_first_rows": list(zip(xo, yo))[:2],
                                        "oracle_first": sum(c * cf(xo[0]) for c, cf in zip(coef, cards))})

    def sc_left(self):
        """output grid entirely left of the data (pure extrapolation)"""
        t = self.typ()
        self.gen_input(self.rng.randint(0, 3),
                       nmin={"linear": 2, "cubic": 3, "akima": 4}[t])
        gmax = self.xm[0] - self.rng.randint(1, 3) * self.hm
        gmin = gmax - self.rng.randint(1, 6) * self.hm
        grid = "%s:%s:%s" % (dec(gmin), dec(self.hm), dec(gmax))
        args = ["--in", "in.tab", "--out", "out.tab", "--grid", grid, "--type", t]
        self.desc = {"family": "grid-left-of-data", "args": args}
        r = self.tool(args, "resample/grid-left-of-data")
        self.count("resample_grid_left_of_data")
        if r.rc == 0 and not r.timed_out:
            xo, yo, fo = read_table(os.path.join(self.dir, "out.tab"))
            self.check_grid("resample/grid-left-of-data", xo, gmin * 1e-6,
                            self.hm * 1e-6, gmax * 1e-6)

    def sc_fit(self):
        """--fitgrid: data taken from a member of the spline space"""
        r = self.rng
        t = r.choice(["linear", "cubic"])
        bnd = None
        if t == "cubic":
            bnd = r.choice([None, "natural", "natural", "periodic",
                            "derivativezero"])
        self.gen_input(1, nmin=40)
        k = r.choice([4, 5, 8, 10])
        maxk = (self.n - 1) // k
        ngf = r.randint(2 if t == "linear" else (4 if bnd == "derivativezero" else 3),
                        max(4, min(maxk, 12)) + 1)
        ngf = min(ngf, maxk + 1)
        if ngf < (2 if t == "linear" else 4):
            self.counter("fit_scenario_too_small_skipped")
            return
        ja = r.randint(0, self.n - 1 - (ngf - 1) * k)
        kn = [ja + i * k for i in range(ngf)]            # knot = input index
        xk = [self.xs[j] for j in kn]
        A = math.exp(r.uniform(math.log(1e-2), math.log(1e2)))
        fk = [A * r.gauss(0, 1) for _ in kn]
        bc = "natural"
        if bnd == "periodic":
            fk[-1] = fk[0]
            bc = "periodic"
        if bnd == "derivativezero":
            fk[0] = fk[-1] = 0.0
            bc = "clamped0"
        ref = hat_spline(xk, fk) if t == "linear" else natural_cubic(xk, fk, bc)
        for j in range(kn[0], kn[-1] + 1):
            self.ys[j] = float("%.12g" % ref(self.xs[j]))
        self.write_input()
        fitgrid = "%s:%s:%s" % (dec(self.xm[kn[0]]), dec(k * self.hm),
                                dec(self.xm[kn[-1]]))
        grid = "%s:%s:%s" % (dec(self.xm[kn[0]]), dec(self.hm),
                             dec(self.xm[kn[-1]]))
        args = ["--in", "in.tab", "--out", "fit.tab", "--grid", grid,
                "--fitgrid", fitgrid, "--type", t, "--derivative", "fitder.tab"]
        if bnd:
            args += ["--boundaries", bnd]
        self.desc = {"family": "fit of in-space data", "args": args,
                     "fit_knots": xk, "knot_values": fk}
        pref = "resample/fit-" + t + ("-" + bnd if bnd in ("periodic", "derivativezero") else "")
        rr = self.tool(args, pref)
        if rr.rc != 0 or rr.timed_out:
            return
        xo, yo, fo = read_table(os.path.join(self.dir, "fit.tab"))
        xd, yd, fd = read_table(os.path.join(self.dir, "fitder.tab"))
        self.count(pref.replace("/", "_"))
        if not self.check_grid(pref, xo, self.xs[kn[0]], self.hm * 1e-6,
                               self.xs[kn[-1]]):
            return
        Y = max(abs(v) for v in fk) + 1e-300
        for i in range(len(xo)):
            j = kn[0] + i
            # the input was rounded to 12 digits: the fit can only return it
            # to that accuracy times the conditioning of the problem
            if not abs(yo[i] - self.ys[j]) <= 1e-7 * Y:
                self.viol(pref + "/in-space-function-not-reproduced",
                          "fit of data from a function of the spline space "
                          "does not return the data on the input grid",
                          x=xo[i], got=yo[i], expected=self.ys[j])
                return
            if fo[i] != self.fl[j]:
                self.viol(pref + "/on-grid-flag", "flag at an output point that "
                          "coincides with an input point differs from the "
                          "input flag (fit)", x=xo[i], got=fo[i],
                          expected=self.fl[j], output_flags="".join(fo))
                return
        if len(yd) == len(yo):
            nd = self.check_derivative(pref, xo, yo, yd, k, 0)
            self.count(pref.replace("/", "_") + "_derivative_points", nd)
        self.res["nontrivial"] += 1


def run_resample(chk, nruns):
    exe = vf.exe("asan", "csg_resample")
    env = vf.lib_env("asan")
    root = os.path.join(vf.scratch_dir(chk.pid), "resample")
    os.makedirs(root)
    scs = [Scenario(i, chk.seed, exe, env, root) for i in range(nruns)]
    results = vf.run_parallel([s.run for s in scs])
    for res in results:
        for r, what, tag in res["procs"]:
            chk.count("resample_runs", 1)
            if tag == "resample/grid-left-of-data" and not r.timed_out and r.rc != 0:
                key = vf.sanitizer_key(r.err) or ("exit-code-%s" % r.rc)
                chk.violation("resample/grid-left-of-data/" + key,
                              {"what": what, "rc": r.rc,
                               "stderr_tail": r.err[-3000:]},
                              "csg_resample aborts when the output grid lies "
                              "entirely left of the data")
                continue
            if not chk.proc_result(r, what):
                chk.sanitizer["reports"] += 0 if r.timed_out else 1
        for key, what, w in res["viol"]:
            chk.violation(key, w, what)
        for f, n in res["fam"].items():
            chk.families[f] = chk.families.get(f, 0) + n
        for f, n in res["counters"].items():
            chk.counters[f] = chk.counters.get(f, 0) + n
        chk.distinct_nontrivial += res["nontrivial"]
        for s in res["samples"]:
            chk.sample(s)
    shutil.rmtree(os.path.dirname(root), ignore_errors=True)


def run(chk):
    # all builds first: nothing is relinked while monitors are running
    h = vf.build_harness("asan", "c12")
    vf.build_flavour("asan", ["csg_resample"])
    env = vf.lib_env("asan")
    chk.rule = RULE
    chk.assumptions = ASSUMPTIONS
    chk.sanitizer = {"flavour": "asan", "reports": 0}
    tmp = vf.scratch_dir(chk.pid + "lib")
    jobs, names = [], []
    for part, typ, shards, nq, nt in LIB_PLAN:
        n = vf.tier_n(chk.tier, nq, nt)
        for s in range(shards):
            d = os.path.join(tmp, "%s_%s_%d" % (part, typ, s))
            os.makedirs(d)
            jobs.append(lambda part=part, typ=typ, s=s, n=n, d=d: vf.run_proc(
                [h, "--part", part, "--type", typ, "--seed", str(chk.seed),
                 "--shard", str(s), "--n", str(n), "--tmp", d],
                env=env, timeout=3000, cwd=d))
            names.append("c12 %s %s shard %d" % (part, typ, s))
    # the library shards and the csg_resample scenarios share the machine
    from concurrent.futures import ThreadPoolExecutor
    with ThreadPoolExecutor(max_workers=1) as ex:
        fut = ex.submit(vf.run_parallel, jobs)
        run_resample(chk, vf.tier_n(chk.tier, 100, 1500))
        lib = fut.result()
    for name, res in zip(names, lib):
        if not chk.ingest(res, name):
            chk.sanitizer["reports"] += 0 if res.rc == 0 else 1
    shutil.rmtree(tmp, ignore_errors=True)


def replay(path):
    """re-run the check with the seed and tier recorded in the witness file and
    report whether the same violation key shows up again (exit 1) or not (0)"""
    import json
    d = json.load(open(path))
    chk = vf.Check(d["property"], d.get("tier", "quick"), int(d.get("seed", 1)))
    run(chk)
    hit = d["key"] in chk.violations or any(
        vf._key_match(k, d["key"]) for k in chk.known_hit)
    print("REPLAY property=%s key=%s seed=%s tier=%s: %s" % (
        d["property"], d["key"], d.get("seed"), d.get("tier"),
        "reproduced" if hit else "not reproduced"))
    print("witness:", json.dumps(d.get("witness"))[:2000])
    return 1 if hit else 0
