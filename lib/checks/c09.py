"""C09 Davidson eigensolver vs dense diagonalisation: library monitor on the
stand-alone xtp subset; sizes <= 200 under ASan/UBSan, sizes > 200 in the fast
flavour (as DESIGN.md §5 C09 says)."""
import os

import vfcore as vf

RULE = ("one matrix (one dense reference) serves 3-4 solves with different "
        "options; the 24 combinations {DPR,OLSEN}x{min,safe,max}x{loose,normal,"
        "strict,lapack} are cycled; neigen 1..size/4 (min), ..size/5 (safe), "
        "..size/6 (max) so that the basis stays within the dimension (the rest "
        "is the deterministic family davidson/search-space-exceeds-dimension); "
        "search-space limit default / tight (a restart almost every iteration) "
        "/ medium / maximal; iteration limit 50 (70%), 1..10 (20%), 200; dense "
        "matrix or MatrixFreeOperator (35%). Families: diagonally dominant "
        "(distinct diagonal, dense random or 1/(j-i)^2 coupling with row sums "
        "<= 0.24 x the diagonal gap: Gershgorin discs disjoint, success "
        "required), dense coupling with overlapping discs, prescribed spectra "
        "Q L Q^T (clustered, exactly degenerate, negative, 12 orders of "
        "magnitude) with Q a dense near-identity or fully random orthogonal "
        "matrix, BSE form [[A,B],[-B,-A]] with A+-B positive definite (HAM "
        "mode). Oracle: SelfAdjointEigenSolver / symmetric reduction "
        "sqrt(eig(L^T(A+B)L)), A-B=LL^T. On Success: ascending, |v|=1, "
        "|vi.vj|<=1e-8, |Av-lv|<=10 tol recomputed from the matrix, k-th value = "
        "k-th lowest dense eigenvalue within max(10 tol,1e-8) (x eigenvector "
        "condition number in HAM mode), all plus 64 eps |A| (iter+2) sqrt(n); "
        "otherwise the status must say so and every root that is kept must "
        "have a residual <= 10 tol. A solve is non-trivial when size >= 4 and "
        "the solver extended its space at least once; distinct = hash of "
        "(matrix seed, options). Adversarial instances (fixed set): lowest root "
        "in an exactly decoupled block; neigen = size/4 on upstream's own test "
        "matrix; guess indices not coupled among themselves. Family late_root "
        "(2400 / 24000 extra solves, 4 per matrix, asan): size 100..200, "
        "diagonal 1+g(i+0.4u) with g 0.3..1.5, dense random coupling of "
        "element size 1e-3..1e-1 x g, plus two EQUAL diagonal entries D "
        "(0.5..2 x the largest) at two positions in the lower half with a "
        "mutual element c such that D-|c| lies between the lowest 1..4 "
        "eigenvalues, i.e. one of the lowest roots is missing from the "
        "unit-vector guess and enters the Ritz window late; the pair is "
        "coupled to the rest with ABSOLUTE element size 1e-2..1e-1 (90% in "
        "1e-2..3e-2). Restriction found by the soak: with a pair coupling "
        "below ~2 x tol (<= 1.6e-3 at 'loose') the unchanged solver reports "
        "Success without that root (151 of 16000 solves; the known "
        "approximately-decoupled-block weakness), so the coupling is kept >= "
        "10 x the loosest tolerance. Options: neigen 4..8, DPR/OLSEN, "
        "min/safe/max, tolerance loose 80% / normal 12% / strict 4% / lapack "
        "4%, search-space limit tight (neigen..2 neigen+update+2) in 90% and "
        "default in 10%, iteration limit 50 (85%) or 200; same oracle. Family "
        "solver_reuse (320 / 6400 sequences, keys reuse/*): 2..4 solves on ONE "
        "DavidsonSolver object, all options re-set through the setters between "
        "the solves; steps: easy diagonally dominant matrix / densely coupled "
        "or clustered matrix with iteration limit 1..2 and strict|lapack "
        "tolerance (counted as forced non-convergence only if a fresh solver "
        "says so, too) / the same matrix with limit 200 / another size and "
        "neigen / BSE form in HAM mode; after every solve the full oracle "
        "(keys reuse/symm/..., reuse/ham/...) and the comparison with a fresh "
        "solver run with identical settings: status identical "
        "(reuse/status-not-updated), eigenvalues identical "
        "(reuse/result-of-previous-solve-returned), iteration count identical "
        "(reuse/options-or-state-carried-over). Family omp-env (18 / 72 cases "
        "per environment, identical cases in every environment, asan): "
        "matrix-free operators (MatrixFreeOperator subclass; symmetric "
        "diagonally dominant and clustered, BSE form in HAM mode), sizes "
        "40..160 (every 6th 200..300), neigen 1..12, DPR/OLSEN, min/safe/max, "
        "loose/normal/strict, default search space and iteration limit, "
        "solved with OMP_NUM_THREADS=4; the same with OMP_THREAD_LIMIT=2; with "
        "OMP_DYNAMIC=true; from inside '#pragma omp parallel num_threads(3)' "
        "(own matrix, operator, logger and solver per thread; nesting off), "
        "the same with two active levels; dense operators under the first and "
        "the fourth environment as control. Same oracle, keys "
        "omp-env/<env>/...; thread counts delivered by the run-time are "
        "recorded under omp_environments.")


# OpenMP environments of the omp-env family: (name, process environment,
# harness arguments). "--region" = solve() called from inside
# "#pragma omp parallel num_threads(3)", one independent problem per thread.
OMP_ENVS = [
    ("a-threads4", {"OMP_NUM_THREADS": "4"}, []),
    ("b-threads4-limit2", {"OMP_NUM_THREADS": "4", "OMP_THREAD_LIMIT": "2"},
     []),
    ("c-threads4-dynamic", {"OMP_NUM_THREADS": "4", "OMP_DYNAMIC": "true"},
     []),
    ("d-inside-parallel-region", {"OMP_NUM_THREADS": "4"}, ["--region", "1"]),
    ("e-inside-parallel-region-two-levels", {"OMP_NUM_THREADS": "4"},
     ["--region", "1", "--nested", "1"]),
    ("f-dense-threads4", {"OMP_NUM_THREADS": "4"}, ["--dense", "1"]),
    ("f-dense-inside-parallel-region", {"OMP_NUM_THREADS": "4"},
     ["--region", "1", "--dense", "1"]),
]


def _h(fl):
    return vf.build_harness(fl, "c09", xtp=True)


# development aid for mutation runs in a scratch worktree (AUTHORING rule 4,
# "build only the flavours you need"): C09_ONLY_SMALL=1 skips the sizes > 200
ONLY_SMALL = os.environ.get("C09_ONLY_SMALL") == "1"


def prebuild():
    _h("asan")
    if not ONLY_SMALL:
        _h("fast")


def run(chk):
    ha = _h("asan")
    hf = ha if ONLY_SMALL else _h("fast")
    shards = 16
    total = vf.tier_n(chk.tier, 300, 6000)
    nlarge = 0 if ONLY_SMALL else vf.tier_n(chk.tier, 48, 800)
    nsmall = total - nlarge
    nlate = vf.tier_n(chk.tier, 2400, 24000)
    chk.rule = RULE
    chk.sanitizer = {"flavour": "asan (sizes <= 200), fast (sizes > 200)",
                     "reports": 0}
    jobs, names = [], []
    for fl, h, sizes, n in (("asan", ha, "small", nsmall),
                            ("fast", hf, "large", nlarge),
                            ("asan", ha, "late", nlate)):
        env = vf.lib_env(fl, {"OMP_NUM_THREADS": "1"})
        per = (n + shards - 1) // shards
        if per == 0:
            chk.inconclusive.append("C09_ONLY_SMALL: sizes > 200 not run")
            continue
        for s in range(shards):
            jobs.append(lambda h=h, env=env, s=s, per=per, sizes=sizes:
                        vf.run_proc([h, "--mode", "random", "--sizes", sizes,
                                     "--seed", str(chk.seed), "--shard",
                                     str(s), "--n", str(per)], env=env,
                                    timeout=3000))
            names.append("c09 %s shard %d" % (sizes, s))
    enva = vf.lib_env("asan", {"OMP_NUM_THREADS": "1"})
    nreuse = vf.tier_n(chk.tier, 320, 6400)
    per = (nreuse + shards - 1) // shards
    for s in range(shards):
        jobs.append(lambda s=s, per=per: vf.run_proc(
            [ha, "--mode", "reuse", "--seed", str(chk.seed), "--shard", str(s),
             "--n", str(per)], env=enva, timeout=3000))
        names.append("c09 solver-reuse shard %d" % s)
    # OpenMP environments: the same matrix-free cases in one extra process per
    # environment (all other C09 processes run with OMP_NUM_THREADS=1)
    nomp = vf.tier_n(chk.tier, 18, 72)
    omp_first = len(jobs)
    for name, extra, args in OMP_ENVS:
        envo = vf.lib_env("asan", extra)
        for k in ("OMP_THREAD_LIMIT", "OMP_DYNAMIC", "OMP_NESTED",
                  "OMP_MAX_ACTIVE_LEVELS"):
            if k not in extra:
                envo.pop(k, None)
        jobs.append(lambda name=name, envo=envo, args=args: vf.run_proc(
            [ha, "--mode", "ompenv", "--env", name, "--seed", str(chk.seed),
             "--n", str(nomp)] + args, env=envo, timeout=3000))
        names.append("c09 omp-env " + name)
    jobs.append(lambda: vf.run_proc([ha, "--mode", "adversarial"], env=enva,
                                    timeout=1200))
    names.append("c09 adversarial set")
    results = vf.run_parallel(jobs)
    for name, res in zip(names, results):
        if not chk.ingest(res, name):
            chk.sanitizer["reports"] += 0 if res.rc == 0 else 1
    # which environments were run and what the OpenMP run-time delivered
    omp = {}
    for (name, extra, args), res in zip(
            OMP_ENVS, results[omp_first:omp_first + len(OMP_ENVS)]):
        d = {"process_environment": extra, "harness_arguments": args}
        for rec in res.records():
            if rec.get("t") == "summary":
                pre = "omp-env/%s/" % name
                for k, v in rec.get("counters", {}).items():
                    if k.startswith(pre):
                        d[k[len(pre):]] = v
        omp[name] = d
    chk.extra["omp_environments"] = omp
    combos = sorted(k[6:] for k, v in chk.counters.items()
                    if k.startswith("combo:") and v > 0)
    chk.extra["option_combinations"] = len(combos)
    chk.extra["restarts_observed"] = chk.counters.get("restarts_observed", 0)
    chk.assumptions = [
        "'diagonally dominant' for the must-succeed clause means disjoint "
        "Gershgorin discs (off-diagonal row sums <= 0.24 x the smallest "
        "diagonal gap), the default iteration limit (50) or more and a "
        "search-space limit that is not below the solver's default of 5 x "
        "neigen; with tighter user limits non-convergence is counted, not "
        "judged (correction of the oracle after the soak: one of 6000 solves "
        "stagnated at 1.1e-9 against tol 1e-9 with a limit below 2 x neigen)",
        "an exception from solve() counts as 'not reported as success'; it is "
        "a violation only for the must-succeed family",
        "HAM mode: only the values are judged (sorted), with the eigenvector "
        "condition number of the non-normal matrix in the tolerance; "
        "eigenvectors of a non-symmetric matrix are not orthogonal",
        "restarts are observed on the solver's own iteration log (search-space "
        "column); the count is a lower bound",
        "clustered spectra in the randomised part: the 'lowest' clause is "
        "judged up to the width of one cluster (which member of a cluster "
        "with spacing ~20 x tol is returned is judged on a fixed instance "
        "under davidson/cluster-neighbour-root-returned); admitted that way "
        "after the soak (1 of ~20000 solves returned the second member)",
        "randomised matrices are dense (no structural zeros) and the basis "
        "is kept within the dimension; the three situations excluded by that "
        "are judged on fixed deterministic instances under their own keys "
        "davidson/decoupled-block-lowest-root-missed, davidson/search-space-"
        "exceeds-dimension, davidson/olsen-ritz-value-equals-diagonal-element, "
        "davidson/gram-schmidt-loses-orthogonality (smooth 1/(j-i)^2 coupling)",
    ]


def replay(path):
    """re-run the solves of one witness: the matrix is a pure function of
    (seed, shard, matrix index), recorded in the witness' replay line"""
    import json
    import re
    w = json.load(open(path))
    line = w.get("witness", {}).get("replay", "")
    m = re.search(r"--mode random --sizes (\w+) --seed (\d+) --shard (\d+) "
                  r"--only (\d+)", line)
    if m:
        fl = "fast" if m.group(1) == "large" else "asan"
        cmd = [_h(fl), "--mode", "random", "--sizes", m.group(1), "--seed",
               m.group(2), "--shard", m.group(3), "--only", m.group(4),
               "--n", "1000000"]
    elif "--mode adversarial" in line:
        fl = "asan"
        cmd = [_h(fl), "--mode", "adversarial"]
    else:
        print("no replay line in", path)
        return 2
    res = vf.run_proc(cmd, env=vf.lib_env(fl, {"OMP_NUM_THREADS": "1"}),
                      timeout=1200)
    hit = [r for r in res.records() if r.get("t") == "violation"
           and r.get("key") == w.get("key")]
    for r in hit[:3]:
        print(json.dumps(r)[:2000])
    if res.rc != 0:
        print(res.err[-3000:])
        return 1
    return 1 if hit else 0
