"""C03 neighbour search: library monitor under ASan/UBSan (DESIGN.md §5 C03)."""
import vfcore as vf

RULE = ("configurations: orthorhombic / GROMACS-reduced triclinic boxes built "
        "from the cutoff so that every direction gets 1 (beyond the stated "
        "bound), 2, 3, 4..20 cells, incl. heights that are exact multiples of "
        "the cutoff; 0..300 beads (3-body 0..60) uniform, on faces and exactly "
        "on grid-cell boundaries, clustered around the cutoff, negative and up "
        "to 1e4 images outside the cell; one-/two-/three-list variants; "
        "exclusions from bonds/angles/dihedrals through the real "
        "RebuildExclusions (incl. interactions across molecules). Oracle: "
        "O(N^2)/O(N^3) brute force over a long-double 125-image search. A "
        "configuration is non-trivial when at least one reported pair/triple "
        "is found only through a periodic image or a neighbouring grid cell; "
        "distinct = hash of (box, cutoff, positions, types); one evaluation = "
        "one (configuration, search variant) judged. reuse families: one "
        "search object serves 3-6 Generate() calls (new positions / box incl. "
        "orthorhombic<->triclinic on the same Topology / cutoff / lists / "
        "exclusion switch, another Topology in between, exclusions rebuilt "
        "after adding an interaction, direct InsertExclusion with descending "
        "ids, one BeadList filled by two Generate calls); every call is one "
        "evaluation per object. many-cells family: thin elongated "
        "orthorhombic / reduced triclinic boxes whose heights give 30..600 "
        "grid cells in one direction (2..4 in the others) or up to ~150 x "
        "150 cells in two directions, cell counts around powers of two "
        "(31,32,33,...,511,512,513) and random ones; 20..200 beads (3-body "
        "20..60), 40-80 % of them within one cutoff of the periodic faces of "
        "the long direction(s) on both sides (given outside the cell or "
        "wrapped to the opposite end); same oracle and judgement as the "
        "base family.")


def prebuild():
    vf.build_harness("asan", "c03")


def run(chk):
    shards = 16
    n = vf.tier_n(chk.tier, 3000, 80000)      # pair configurations
    n3 = vf.tier_n(chk.tier, 800, 16000)      # 3-body configurations
    nr = vf.tier_n(chk.tier, 1600, 40000)     # reuse sequences, pair searches
    nr3 = vf.tier_n(chk.tier, 640, 16000)     # reuse sequences, NBList_3Body
    nr3g = vf.tier_n(chk.tier, 320, 8000)     # reuse sequences, NBListGrid_3Body
    nm = vf.tier_n(chk.tier, 640, 16000)      # many-cells configurations, pairs
    nm3 = vf.tier_n(chk.tier, 160, 3200)      # many-cells configurations, 3-body

    def per(x):
        return (x + shards - 1) // shards
    h = vf.build_harness("asan", "c03")
    env = vf.lib_env("asan")
    chk.rule = RULE
    chk.sanitizer = {"flavour": "asan", "reports": 0}
    jobs = [lambda s=s: vf.run_proc(
        [h, "--seed", str(chk.seed), "--shard", str(s), "--n", str(per(n)),
         "--n3", str(per(n3)), "--reuse", str(per(nr)), "--reuse3",
         str(per(nr3)), "--many", str(per(nm)), "--many3", str(per(nm3))],
        env=env, timeout=3600) for s in range(shards)]
    # reuse of one NBListGrid_3Body object: own processes, because a stale
    # grid can end in a sanitizer abort and must not take the other families
    # with it
    jobs += [lambda s=s: vf.run_proc(
        [h, "--seed", str(chk.seed), "--shard", str(s), "--n", "0", "--n3",
         "0", "--reuse3grid", str(per(nr3g))], env=env, timeout=3600)
        for s in range(shards)]
    results = vf.run_parallel(jobs)
    for s, res in enumerate(results[:shards]):
        if not chk.ingest(res, "c03 shard %d" % s):
            chk.sanitizer["reports"] += 0 if res.rc == 0 else 1
    for s, res in enumerate(results[shards:]):
        what = "c03 NBListGrid_3Body reuse shard %d" % s
        if res.timed_out or res.rc == 0:
            chk.ingest(res, what)
            continue
        # aborted: keep what was reported before, key the abort inside the
        # family (the rest of this shard's cases is lost, which is recorded)
        for rec in res.records():
            if rec.get("t") == "violation":
                chk.violation(rec["key"], rec.get("witness", rec),
                              rec.get("what", ""))
        chk.sanitizer["reports"] += 1
        key = vf.sanitizer_key(res.err) or "crash/rc%s" % res.rc
        case = [l for l in res.err.splitlines()
                if l.startswith("VFH-CURRENT-CASE")]
        chk.violation("reuse/grid3/" + key,
                      {"what": what, "rc": res.rc,
                       "replay": case[-1].split(": ", 1)[1] if case else "",
                       "stderr_tail": res.err[-4000:]},
                      "sanitizer/assertion report while one NBListGrid_3Body "
                      "object was used for a further Generate()")
        chk.counters["reuse_grid3_shards_lost_to_abort"] = \
            chk.counters.get("reuse_grid3_shards_lost_to_abort", 0) + 1
    # many-cells family: per-shard maxima (counters are summed on merge)
    mx = {"max_cells_per_direction": 0, "max_grid_cells": 0}
    for k in list(chk.counters):
        for name in mx:
            if k.startswith(name + "_shard_"):
                mx[name] = max(mx[name], chk.counters.pop(k))
    chk.counters.update(mx)
    chk.extra["many_cells"] = dict(mx, per_direction_histogram={
        k[len("many_cells_per_dir_"):]: v
        for k, v in sorted(chk.counters.items())
        if k.startswith("many_cells_per_dir_")})
    hist = {}
    for k, v in chk.counters.items():
        if k.startswith("cells_per_dir_"):
            hist[int(k[len("cells_per_dir_"):])] = v
    chk.extra["cells_per_direction_histogram"] = {
        str(k): hist[k] for k in sorted(hist)}
    chk.extra["callback_deliveries"] = {
        "pairs": chk.counters.get("callback_deliveries", 0),
        "triples_observed_only": chk.counters.get(
            "triple_callback_deliveries", 0)}
    chk.assumptions = [
        "pairs within 1e-9*cutoff + 1e3*eps*|coordinates| of the cutoff are "
        "don't-care",
        "1 cell in a direction means the cutoff exceeds half the box height "
        "(outside the statement's bound): orthorhombic boxes are then judged "
        "against the minimum-image pairs only; in triclinic boxes pairs "
        "whose minimum image is longer than hmin/2 are don't-care",
        "callback multiplicity is judged for pairs only; for triples the "
        "stored list is judged (exactly once), callback counts are recorded",
        "3-body variants are run without bonded interactions (the statement "
        "defines exclusions for pairs only)",
        "reuse: Generate() of the unchanged library never clears the stored "
        "list (pairs/triples of all calls accumulate, the first entry of a "
        "pair wins) - observation; the callback deliveries of each call are "
        "judged always (for triples: the set of delivered triples), the "
        "stored list only when the call started from an empty list (new "
        "object or explicit Cleanup())",
        "a BeadList filled by Generate(A) then Generate(B) is judged to be "
        "the A beads followed by the B beads (append semantics of the "
        "unchanged code); the same select twice lists every bead twice - "
        "observation, not fed into a search"]


def replay(path):
    """re-run the single configuration named in a witness file"""
    import json
    import shlex
    w = json.load(open(path))["witness"]
    args = shlex.split(w["replay"])[1:]
    h = vf.build_harness("asan", "c03")
    res = vf.run_proc([h] + args, env=vf.lib_env("asan"), timeout=600)
    bad = [r for r in res.records() if r.get("t") == "violation"]
    for r in bad:
        print("VIOLATION property=C03 replay=%s key=%s %s" %
              (path, r["key"], r.get("what", "")))
    if res.rc != 0:
        print(res.err[-3000:])
        print("VIOLATION property=C03 replay=%s key=%s" %
              (path, vf.sanitizer_key(res.err) or "crash/rc%s" % res.rc))
    print("replayed: %d violation record(s), rc=%d" % (len(bad), res.rc))
    return 1 if bad or res.rc != 0 else 0
