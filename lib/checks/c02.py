"""C02 minimum-image convention: library monitor under ASan/UBSan."""
import vfcore as vf

RULE = ("boxes: open / orthorhombic / GROMACS-reduced triclinic (incl. boundary "
        "tilts, aspect 1:20), auto and explicit type; point pairs inside the "
        "cell, on faces, up to 1e4 images away. Oracle: long-double 5x5x5 "
        "brute-force image search. A pair is non-trivial when its plain "
        "difference is not already the minimum image; distinct = hash of "
        "(box, r_i, r_j); shards use disjoint seeds.")


def prebuild():
    vf.build_harness("asan", "c02")


def run(chk):
    shards = 16
    boxes = vf.tier_n(chk.tier, 150, 1500)
    pairs = vf.tier_n(chk.tier, 400, 800)
    h = vf.build_harness("asan", "c02")
    env = vf.lib_env("asan")
    chk.rule = RULE
    chk.sanitizer = {"flavour": "asan", "reports": 0}
    jobs = [lambda s=s: vf.run_proc(
        [h, "--seed", str(chk.seed), "--shard", str(s), "--boxes", str(boxes),
         "--pairs", str(pairs)], env=env, timeout=1800) for s in range(shards)]
    for s, res in enumerate(vf.run_parallel(jobs)):
        if not chk.ingest(res, "c02 shard %d" % s):
            chk.sanitizer["reports"] += 0 if res.rc == 0 else 1
    chk.assumptions = ["brute-force oracle searches 125 images after an "
                       "independent fractional reduction (sufficient for "
                       "reduced boxes with aspect <= 20)",
                       "triclinic results are judged 'shortest' only below "
                       "half the shortest box height, as the statement says"]
