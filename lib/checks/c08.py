"""C08 file round trips (DESIGN.md §5 C08): library monitor (harness/c08.cc,
ASan/UBSan) over gro / xyz / pdb / lammps dump / DL_POLY / xml topology /
Table / imcio, plus executable chains `csg_map --no-map a -> b -> a`.

Every format x aspect has its own structural violation key, e.g.
gro/box-offdiagonal, xyz/positions-units, pdb/reread-rejected,
dump/atomcount-no-error, dump/triclinic-tilt, dlpoly/box-transposed,
imc/matrix-transposed, table/error-column, chain/gro-dump/positions.
"""
import json
import math
import os
import random
import shutil

import vfcore as vf

RULE = ("trajectory cases: 1..200 beads, 1..6 frames, coordinates of both "
        "signs up to the format's field width (incl. values exactly on and "
        "half-way between printed digits), open/orthorhombic/GROMACS-reduced "
        "triclinic boxes (each of the tilts b_x, c_x, c_y zero with "
        "probability 1/2, the 7 non-empty patterns x {positive, negative, "
        "boundary +-edge/2, weak 1e-6..1e-2 of the edge} enumerated at the "
        "start of every shard), +/- velocities/forces; written through "
        "TrjWriterFactory, read back through TrjReaderFactory (driven like "
        "CsgApplication) and TopReaderFactory; DL_POLY: one fresh process "
        "per case; atom-count-mismatch frames each read in a fresh process; "
        "xml topologies, tables (flags, error column, comments), IMC "
        "matrices (non-square, non-symmetric, index lists), index ranges; "
        "csg_map --no-map chains a->b->a on generated xml+gro/dump inputs; "
        "reader variants on harness-written files in the official layouts: "
        "LAMMPS dump with x|xu|xs coordinate columns (fractions slightly "
        "outside [0,1), unwrapped images), +/- v and f columns, canonical "
        "and permuted column order (id not first, unknown extra columns, "
        "shuffled atom order), box bounds with xlo=0 (judged) and xlo!=0 "
        "(x/xu judged, xs observed only); gro +/- velocity columns and "
        "3/9-number box lines; free-format xyz with element names; 80-column "
        "pdb with ATOM/HETATM/CRYST1/MODEL; objects used more than once "
        "(family reuse: one writer object for three files incl. the first "
        "frames again, byte-identical; append mode; one reader object for "
        "three files, NextFrame after the end, atom-count change, FirstFrame "
        "twice; one Table loaded twice / resized / saved after modification; "
        "table text variants; imcio readers called repeatedly; frames whose "
        "box type (gro) and velocity/force presence (gro, dump) change inside "
        "one file; csg_map chains with --first-frame/--nframes on both legs "
        "for every format pair); DL_POLY CONFIG/HISTORY with "
        "levcfg 0/1/2 and imcon 1/2/3 (expected values are computed from the "
        "printed tokens, comparison to 64 ulp). "
        "Oracle: the original in-memory data within half a unit of the "
        "format's last printed digit in VOTCA units (+16 ulp). Every "
        "generated case is non-trivial (random digits beyond the printed "
        "precision); matrices count only if non-symmetric or non-square, "
        "tables only with >= 2 rows; distinct = hash of the canonical input; "
        "the first cases of shard 0 are 1-2 bead / 2x2 minimal cases so that "
        "the stored witnesses are small.")

FORMATS = ("gro", "xyz", "pdb", "dump")
# keys of the reader-variant families: dump-reader/{rejected,positions,
# unwrapped-positions,scaled-positions,column-order,flavour-consistency-
# unwrapped,flavour-consistency-scaled,velocities,forces,box,step,frame-count,
# spurious-velocities,topology}; {gro,xyz,pdb,dlpoly}-reader/{rejected,
# positions,velocities,forces,box,step,frame-count,spurious-velocities,
# topology}


def prebuild():
    vf.build_harness("asan", "c08")
    vf.build_flavour("asan", ["csg_map"])


# ---------------------------------------------------------------------------
# executable chains  csg_map --no-map  a -> b -> a
# ---------------------------------------------------------------------------
# half a unit of the last printed digit, VOTCA units (nm, nm/ps, kJ/mol/nm)
HALF = {"gro": {"pos": 0.5e-3, "vel": 0.5e-4, "box": 0.5e-5},
        "dump": {"pos": 0.5e-7, "vel": 0.5e-7, "box": 0.5e-7,
                 "frc": 0.5e-6 * 41.868},
        "xyz": {"pos": 0.5e-6}, "pdb": {"pos": 0.5e-4},
        "dlph": {"pos": 1e-9, "vel": 1e-9, "frc": 1e-7, "box": 1e-9}}
STORES_VEL = ("gro", "dump", "dlph")
STORES_FRC = ("dump", "dlph")


def _gen_chain(rng, a, b, tric=None, wide=True, window=False, pattern=None):
    nmol, nb = rng.randint(1, 4), rng.randint(1, 5)
    n = nmol * nb
    case = {"a": a, "b": b, "nmol": nmol, "nb": nb, "n": n,
            "vel": rng.random() < 0.6,
            "frc": a == "dump" and rng.random() < 0.6,
            "tric": a == "gro" and (rng.random() < 0.4 if tric is None
                                    else tric), "frames": [],
            # xyz: %10.5f fields run together for x <= -10 nm / >= 100 nm;
            # 'narrow' cases stay inside, 'wide' ones are a separate key
            "wide": wide}
    span = 3.0 if wide else 0.4
    nfr = rng.randint(4, 6) if window else rng.randint(1, 3)
    if window:
        # leg 1: --first-frame F1 --nframes N1 ; leg 2: --first-frame F2 --nframes N2
        f1 = rng.randint(1, 3)
        n1 = rng.randint(2, nfr - f1 + 1)
        f2 = rng.randint(1, 2)
        n2 = rng.randint(1, max(1, n1 - f2 + 1))
        case["window"] = [f1, n1, f2, n2]
    for f in range(nfr):
        L = [round(rng.uniform(1.0, 20.0), 3) for _ in range(3)]
        box = [[L[0], 0, 0], [0, L[1], 0], [0, 0, L[2]]]
        if case["tric"]:
            # sparse tilt patterns: bit 0 b_x, bit 1 c_x, bit 2 c_y
            pat = pattern if pattern else rng.randint(1, 7)
            case["tilt_pattern"] = "b_x%s c_x%s c_y%s" % tuple(
                "!=0" if pat & (1 << k) else "=0" for k in range(3))

            def tilt(lim):
                c = rng.randint(0, 5)
                v = (0.5 * lim if c == 0 else -0.5 * lim if c == 1 else
                     rng.choice((-1, 1)) * 10 ** rng.uniform(-4, -2) * lim
                     if c == 2 else rng.uniform(-0.5, 0.5) * lim)
                v = round(v, 3)
                return v if v != 0 else 0.001
            if pat & 1:
                box[0][1] = tilt(L[0])
            if pat & 2:
                box[0][2] = tilt(L[0])
            if pat & 4:
                box[1][2] = tilt(L[1])
        # values lie on the grid of format a (in a's file units) so that the
        # generated file *is* the data
        if a == "gro":
            pos = [[round(rng.uniform(-span * L[k], span * L[k]), 3) for k in range(3)]
                   for _ in range(n)]
            vel = [[round(rng.gauss(0, 1.5), 4) for _ in range(3)]
                   for _ in range(n)]
            frc = None
        else:   # dump: Angstrom, Angstrom/ps, kcal/mol/Angstrom, 6 decimals
            pos = [[round(rng.uniform(-10 * span * L[k], 10 * span * L[k]), 6)
                    for k in range(3)] for _ in range(n)]
            vel = [[round(rng.gauss(0, 15), 6) for _ in range(3)]
                   for _ in range(n)]
            frc = [[round(rng.gauss(0, 50), 6) for _ in range(3)]
                   for _ in range(n)]
        case["frames"].append({"step": 100 * (f + 1), "box": box, "pos": pos,
                               "vel": vel, "frc": frc})
    return case


def _write_xml(path, c):
    s = ['<topology>', ' <molecules>',
         '  <molecule name="MOL" nmols="%d" nbeads="%d">' % (c["nmol"], c["nb"])]
    for i in range(c["nb"]):
        s.append('   <bead name="B%d" type="T%d" mass="%g" q="0"/>'
                 % (i + 1, i % 2 + 1, 12.0 + i))
    s += ['  </molecule>', ' </molecules>', '</topology>']
    open(path, "w").write("\n".join(s) + "\n")


def _write_gro(path, c):
    out = []
    for fr in c["frames"]:
        out.append("generated by vf C08")
        out.append("%5d" % c["n"])
        for i in range(c["n"]):
            ln = "%5d%-5s%5s%5d%8.3f%8.3f%8.3f" % (
                i // c["nb"] + 1, "MOL", "B%d" % (i % c["nb"] + 1), i + 1,
                fr["pos"][i][0], fr["pos"][i][1], fr["pos"][i][2])
            if c["vel"]:
                ln += "%8.4f%8.4f%8.4f" % tuple(fr["vel"][i])
            out.append(ln)
        b = fr["box"]
        if c["tric"]:
            out.append("%10.5f" * 9 % (b[0][0], b[1][1], b[2][2], b[1][0],
                                       b[2][0], b[0][1], b[2][1], b[0][2],
                                       b[1][2]))
        else:
            out.append("%10.5f%10.5f%10.5f" % (b[0][0], b[1][1], b[2][2]))
    open(path, "w").write("\n".join(out) + "\n")


def _write_dump(path, c):
    out = []
    for fr in c["frames"]:
        b = fr["box"]
        out += ["ITEM: TIMESTEP", str(fr["step"]), "ITEM: NUMBER OF ATOMS",
                str(c["n"]), "ITEM: BOX BOUNDS pp pp pp"]
        out += ["0 %.6f" % (b[k][k] * 10) for k in range(3)]
        out.append("ITEM: ATOMS id type x y z" +
                   (" vx vy vz" if c["vel"] else "") +
                   (" fx fy fz" if c["frc"] else ""))
        for i in range(c["n"]):
            v = list(fr["pos"][i])
            if c["vel"]:
                v += fr["vel"][i]
            if c["frc"]:
                v += fr["frc"][i]
            out.append("%d %d " % (i + 1, i % 2 + 1) +
                       " ".join("%.6f" % x for x in v))
    open(path, "w").write("\n".join(out) + "\n")


def _parse_gro(path):
    L = open(path).read().split("\n")
    frames, i = [], 0
    while i + 1 < len(L) and L[i + 1].strip():
        n = int(L[i + 1])
        fr = {"pos": [], "vel": []}
        for ln in L[i + 2:i + 2 + n]:
            fr["pos"].append([float(ln[20:28]), float(ln[28:36]),
                              float(ln[36:44])])
            if len(ln) >= 68:
                fr["vel"].append([float(ln[44:52]), float(ln[52:60]),
                                  float(ln[60:68])])
        t = [float(x) for x in L[i + 2 + n].split()]
        box = [[0.0] * 3 for _ in range(3)]
        box[0][0], box[1][1], box[2][2] = t[0:3]
        if len(t) == 9:
            (box[1][0], box[2][0], box[0][1], box[2][1], box[0][2],
             box[1][2]) = t[3:9]
        fr["box"] = box
        frames.append(fr)
        i += 3 + n
    return frames


def _parse_dump(path):
    L = open(path).read().split("\n")
    frames, i = [], 0
    fr = None
    while i < len(L):
        ln = L[i].strip()
        if ln.startswith("ITEM: TIMESTEP"):
            fr = {"step": int(L[i + 1]), "pos": [], "vel": [], "frc": []}
            frames.append(fr)
            i += 2
        elif ln.startswith("ITEM: NUMBER OF ATOMS"):
            fr["n"] = int(L[i + 1])
            i += 2
        elif ln.startswith("ITEM: BOX BOUNDS"):
            box = [[0.0] * 3 for _ in range(3)]
            for k in range(3):
                t = [float(x) for x in L[i + 1 + k].split()]
                box[k][k] = t[1] - t[0]
            fr["box"] = box
            i += 4
        elif ln.startswith("ITEM: ATOMS"):
            cols = ln.split()[2:]
            rows = {}
            for ln2 in L[i + 1:i + 1 + fr["n"]]:
                t = ln2.split()
                rows[int(t[cols.index("id")])] = t
            for k in sorted(rows):
                t = rows[k]
                g = lambda nm: float(t[cols.index(nm)])
                fr["pos"].append([g("x"), g("y"), g("z")])
                if "vx" in cols:
                    fr["vel"].append([g("vx"), g("vy"), g("vz")])
                if "fx" in cols:
                    fr["frc"].append([g("fx"), g("fy"), g("fz")])
            i += 1 + fr["n"]
        else:
            i += 1
    return frames


def _run_chain(c, wdir, env):
    """returns (list of (key, what, witness), judged aspects, proc results)"""
    os.makedirs(wdir)
    a, b = c["a"], c["b"]
    _write_xml(os.path.join(wdir, "topol.xml"), c)
    (_write_gro if a == "gro" else _write_dump)(os.path.join(wdir, "a0." + a), c)
    mapexe = vf.exe("asan", "csg_map")
    viol, judged, procs = [], [], []
    win = c.get("window")
    pre = "chain/%s-%s/" % (a, b) + ("window/" if win else "")
    keep_vel = c["vel"] and b in STORES_VEL
    keep_frc = c["frc"] and b in STORES_FRC and (b != "dlph" or c["vel"])

    def leg(src, dst, vel, frc, name):
        cmd = [mapexe, "--top", "topol.xml", "--trj", src, "--out", dst,
               "--no-map"] + (["--vel"] if vel else []) + \
            (["--force"] if frc else [])
        if win:
            k = 0 if name == "leg1" else 2
            cmd += ["--first-frame", str(win[k]), "--nframes", str(win[k + 1])]
        res = vf.run_proc(cmd, env=env, timeout=300, cwd=wdir)
        procs.append((res, "csg_map %s %s->%s" % (name, src, dst),
                      {"cmd": " ".join(cmd[1:])}))
        return res

    def witness(extra):
        w = dict(c)
        w["input_file"] = open(os.path.join(wdir, "a0." + a)).read()[:6000]
        w["topol_xml"] = open(os.path.join(wdir, "topol.xml")).read()
        w["cmd1"] = "csg_map --top topol.xml --trj a0.%s --out b1.%s --no-map%s%s" % (
            a, b, " --vel" if c["vel"] else "", " --force" if c["frc"] else "")
        w["cmd2"] = "csg_map --top topol.xml --trj b1.%s --out a2.%s --no-map%s%s" % (
            b, a, " --vel" if keep_vel else "", " --force" if keep_frc else "")
        if win:
            w["cmd1"] += " --first-frame %d --nframes %d" % (win[0], win[1])
            w["cmd2"] += " --first-frame %d --nframes %d" % (win[2], win[3])
        w.update(extra)
        return w

    r1 = leg("a0." + a, "b1." + b, c["vel"], c["frc"], "leg1")
    if r1.timed_out:
        return viol, judged, procs
    msg = (r1.out + r1.err)
    if r1.rc != 0:
        if "an error occurred" in msg:
            judged.append((pre + "leg1", False))
            viol.append((pre + "leg1-rejected", "csg_map a->b failed with an "
                         "error on a valid input", witness(
                             {"output_tail": msg[-1500:]})))
            procs.pop()
        return viol, judged, procs
    judged.append((pre + "leg1", True))
    r2 = leg("b1." + b, "a2." + a, keep_vel, keep_frc, "leg2")
    if r2.timed_out:
        return viol, judged, procs
    msg = (r2.out + r2.err)
    if r2.rc != 0:
        # (an exception in a later frame is thrown in a worker thread and ends
        # csg_map through std::terminate)
        if "an error occurred" in msg or "terminate called after throwing" in msg:
            judged.append((pre + "reread", False))
            runtogether = b == "xyz" and any(
                ln.strip() and len(ln.split()) not in (1, 4) and
                not ln.startswith("frame") for ln in open(
                    os.path.join(wdir, "b1.xyz")).read().split("\n"))
            viol.append((pre + "reread-rejected" + (
                "-wide-coordinates" if runtogether else ""),
                "csg_map cannot read back "
                         "the file csg_map wrote (b->a leg fails)", witness(
                             {"output_tail": msg[-1500:], "b_file_head": open(
                                 os.path.join(wdir, "b1." + b)).read()[:1500]})))
            procs.pop()
        return viol, judged, procs
    judged.append((pre + "reread", True))
    try:
        got = (_parse_gro if a == "gro" else _parse_dump)(
            os.path.join(wdir, "a2." + a))
    except Exception as e:  # noqa: BLE001 - unparsable output is a finding
        viol.append((pre + "output-unparsable", "final file cannot be parsed "
                     "by an independent parser of format a", witness(
                         {"error": repr(e), "a2_head": open(os.path.join(
                             wdir, "a2." + a)).read()[:1500]})))
        return viol, judged, procs
    # tolerances in the file units of format a
    ua = 1.0 if a == "gro" else 10.0            # nm -> file length unit
    fa = 1.0 if a == "gro" else 1.0 / 41.84     # kJ/mol/nm -> file force unit
    hb = HALF[b]
    tol = {"pos": (HALF[a]["pos"] + hb["pos"]) * ua * 1.001,
           "vel": (HALF[a]["vel"] + hb.get("vel", 0)) * ua * 1.001,
           "box": (HALF[a]["box"] + hb.get("box", 0)) * ua * 1.001,
           "frc": (HALF["dump"]["frc"] + hb.get("frc", 0)) * fa * 1.01}
    expframes = c["frames"]
    if win:
        # frames (1-based) F1 .. F1+N1-1 survive leg 1, of those F2 .. F2+N2-1
        s1 = expframes[win[0] - 1:win[0] - 1 + win[1]]
        expframes = s1[win[2] - 1:win[2] - 1 + win[3]]
    ok = len(got) == len(expframes)
    judged.append((pre + "frame-count", ok))
    if not ok:
        viol.append((pre + "frame-count", "number of frames differs after "
                     "a->b->a" + (" with --first-frame/--nframes windows "
                                  "%s" % win if win else ""),
                     witness({"frames_out": len(got),
                              "frames_expected": len(expframes)})))
    for fi, (E, G) in enumerate(zip(expframes, got)):
        okn = len(G["pos"]) == c["n"]
        judged.append((pre + "bead-count", okn))
        if not okn:
            viol.append((pre + "bead-count", "bead count differs after "
                         "a->b->a", witness({"frame": fi,
                                             "got": len(G["pos"])})))
            continue

        def cmpv(name, ev, gv, t):
            worst, at = 0.0, None
            for i in range(c["n"]):
                for k in range(3):
                    d = abs(ev[i][k] - gv[i][k])
                    if d > worst:
                        worst, at = d, (i, k, gv[i][k], ev[i][k])
            good = worst <= t + 1e-12
            judged.append((pre + name, good))
            if not good:
                viol.append((pre + name, "%s differ after a->b->a by more "
                             "than half a unit of both formats' last digit"
                             % name, witness({"frame": fi, "bead": at[0],
                                              "component": at[1], "got": at[2],
                                              "expected": at[3],
                                              "tolerance": t})))
        cmpv("positions", E["pos"], G["pos"], tol["pos"])
        if keep_vel:
            if len(G["vel"]) != c["n"]:
                judged.append((pre + "velocities", False))
                viol.append((pre + "velocities-missing", "velocities lost in "
                             "a->b->a although both formats store them",
                             witness({"frame": fi})))
            else:
                cmpv("velocities", E["vel"], G["vel"], tol["vel"])
        if keep_frc:
            if len(G.get("frc", [])) != c["n"]:
                judged.append((pre + "forces", False))
                viol.append((pre + "forces-missing", "forces lost in a->b->a "
                             "although both formats store them",
                             witness({"frame": fi})))
            else:
                cmpv("forces", E["frc"], G["frc"], tol["frc"])
        if b not in ("xyz", "pdb"):
            eb = [[E["box"][i][j] * ua for j in range(3)] for i in range(3)]
            dd = max(abs(eb[k][k] - G["box"][k][k]) for k in range(3))
            judged.append((pre + "box-diagonal", dd <= tol["box"]))
            if dd > tol["box"]:
                viol.append((pre + "box-diagonal", "box diagonal differs after"
                             " a->b->a", witness({"frame": fi,
                                                  "got": G["box"]})))
            if c["tric"]:
                do = max(abs(eb[i][j] - G["box"][i][j]) for i in range(3)
                         for j in range(3) if i != j)
                judged.append((pre + "box-offdiagonal", do <= tol["box"]))
                if do > tol["box"]:
                    viol.append((pre + "box-offdiagonal", "off-diagonal box "
                                 "elements differ after a->b->a",
                                 witness({"frame": fi, "got": G["box"]})))
    return viol, judged, procs


# ---------------------------------------------------------------------------

def run(chk):
    h = vf.build_harness("asan", "c08")
    vf.build_flavour("asan", ["csg_map"])
    env = vf.lib_env("asan")
    work = vf.scratch_dir("C08")
    t = chk.tier
    chk.rule = RULE
    chk.sanitizer = {"flavour": "asan", "reports": 0}
    seed = chk.seed
    # family -> (shards, cases per shard)
    plan = {"gro": vf.tier_n(t, (4, 150), (16, 900)),
            "dump": vf.tier_n(t, (4, 120), (16, 700)),
            "xyz": vf.tier_n(t, (2, 150), (8, 900)),
            "pdb": vf.tier_n(t, (2, 150), (8, 900)),
            "xml": vf.tier_n(t, (1, 200), (4, 1500)),
            "table": vf.tier_n(t, (2, 200), (8, 1500)),
            "imc": vf.tier_n(t, (1, 400), (4, 3000)),
            "atomcount": vf.tier_n(t, (2, 32), (8, 120)),
            # reader variants on harness-written files in the official
            # layouts (what VOTCA's own writers never produce)
            "dumpread": vf.tier_n(t, (2, 150), (8, 1200)),
            # objects used more than once: one writer for several files,
            # append mode, one reader for several files, NextFrame after the
            # end, FirstFrame twice
            "reuse": vf.tier_n(t, (3, 150), (12, 900)),
            "readers": vf.tier_n(t, (1, 240), (4, 2000))}
    n_dlpoly = vf.tier_n(t, 160, 2400)
    n_chain = vf.tier_n(t, 30, 400)
    n_window = vf.tier_n(t, 20, 300)   # chains with frame windows
    jobs, labels = [], []
    for fam, (shards, n) in plan.items():
        for s in range(shards):
            d = os.path.join(work, "%s_%d" % (fam, s))
            jobs.append(lambda fam=fam, s=s, n=n, d=d: ("h", vf.run_proc(
                [h, "--family", fam, "--seed", str(seed), "--shard", str(s),
                 "--n", str(n), "--dir", d], env=env, timeout=3000)))
            labels.append("c08 %s shard %d" % (fam, s))

    # DL_POLY: ONE case per process (writer/reader keep static state)
    def dl_batch(k0, k1):
        out = []
        for k in range(k0, k1):
            d = os.path.join(work, "dlpoly_%d" % k)
            out.append(vf.run_proc([h, "--family", "dlpoly", "--seed",
                                    str(seed), "--case", str(k), "--dir", d],
                                   env=env, timeout=300))
            shutil.rmtree(d, ignore_errors=True)
        return ("d", out)
    B = 8
    for k0 in range(0, n_dlpoly, B):
        jobs.append(lambda k0=k0: dl_batch(k0, min(n_dlpoly, k0 + B)))
        labels.append("c08 dlpoly cases %d.." % k0)

    # executable chains
    rng = random.Random(seed * 7919 + 17)
    pairs = [(a, b) for a in ("gro", "dump")
             for b in ("gro", "dump", "dlph", "xyz", "pdb")]
    chains = []
    for i in range(n_chain):
        a, b = pairs[i % len(pairs)]
        # a=gro: alternate orthorhombic / triclinic boxes
        chains.append(_gen_chain(rng, a, b, (i // len(pairs)) % 2 == 0,
                                 wide=(b != "xyz" or (i // len(pairs)) % 3 == 2),
                                 # c_y-only and b_x-only first, for gro->gro
                                 pattern=(4, 1, 2, 3, 5, 6, 7)[
                                     (i // (2 * len(pairs)) + i % len(pairs)) % 7]))
    for i in range(n_window):
        a, b = pairs[i % len(pairs)]
        # rectangular boxes, narrow coordinates: nothing but the frame
        # selection differs from the plain chains
        chains.append(_gen_chain(rng, a, b, False, wide=(b != "xyz"),
                                 window=True))
    for i, c in enumerate(chains):
        jobs.append(lambda i=i, c=c: ("c", c, _run_chain(
            c, os.path.join(work, "chain_%d" % i), env)))
        labels.append("chain %d" % i)

    results = vf.run_parallel(jobs)
    nd = 0
    for lab, r in zip(labels, results):
        if r[0] == "h":
            if not chk.ingest(r[1], lab) and r[1].rc != 0:
                chk.sanitizer["reports"] += 1
        elif r[0] == "d":
            for res in r[1]:
                if not chk.ingest(res, "c08 dlpoly case %d" % nd) and res.rc != 0:
                    chk.sanitizer["reports"] += 1
                nd += 1
        else:
            c, (viol, judged, procs) = r[1], r[2]
            ok = True
            for res, what, w in procs:
                if not chk.proc_result(res, what, dict(c, **w)):
                    ok = False
                    if not res.timed_out:
                        chk.sanitizer["reports"] += 1
            fam = "chain/%s-%s" % (c["a"], c["b"]) + (
                "/window" if c.get("window") else "")
            chk.count(fam, 1, nontrivial=1)
            for cn, good in judged:
                chk.counters["J:" + cn] = chk.counters.get("J:" + cn, 0) + 1
                if not good:
                    chk.counters["V:" + cn] = chk.counters.get("V:" + cn, 0) + 1
            for key, what, w in viol:
                chk.violation(key, w, what)
            if ok and not viol and len(c["frames"]) == 1 and c["n"] <= 2:
                chk.sample({"chain": fam, "case": c, "result": "round trip "
                            "within tolerance"})
    # ---- format matrix from the J:/V: counters -------------------------
    matrix = {}
    for k in sorted(k for k in chk.counters if k.startswith("J:")):
        name = k[2:]
        fmt, aspect = name.rsplit("/", 1)
        j, v = chk.counters[k], chk.counters.get("V:" + name, 0)
        matrix.setdefault(fmt, {})[aspect] = (
            "held (%d judged)" % j if v == 0 else
            "VIOLATED (%d of %d judged)" % (v, j))
    for k in [k for k in chk.counters if k[:2] in ("J:", "V:")]:
        del chk.counters[k]
    chk.extra["format_matrix"] = matrix
    chk.extra["not_stored_by_format"] = {
        "gro": "forces, types, step/time", "xyz": "velocities, forces, box, "
        "step (comment line is not parsed)", "pdb": "velocities, forces; "
        "Write(Topology*) emits no CRYST1", "dump": "names (numeric type id "
        "only), time", "dlpoly": "names in the trajectory reader; forces "
        "only together with velocities (keytrj)", "xml": "positions; box "
        "diagonal only"}
    chk.assumptions = [
        "tolerance = half a unit of the format's documented last printed "
        "digit (gro %8.3f/%8.4f/%10.5f, xyz %10.5f A, pdb %8.3f A, dump %f A, "
        "DL_POLY 12 significant digits, Table 10, imcio 8) + 16 ulp",
        "one DL_POLY writer per process (DESIGN.md): each DL_POLY case is a "
        "fresh process",
        "xyz/pdb: where the library reader rejects the library writer's file "
        "the positions/names are judged from the file with an independent "
        "parser (observed_via=file-parser); atom-count cases for these two "
        "formats use files written by the harness in the official layout",
        "xyz coordinates are generated so that a blank separates the "
        "%10.5f fields (the format is whitespace separated)",
        "time is not judged (not part of the statement); DL_POLY first frame "
        "with step 0 yields time=nan, counted only",
        "table flags are drawn from i/o/u; comments are not expected to be "
        "restored, only not to corrupt the data",
        "reader variants that no VOTCA writer produces and the statement "
        "(round trips) does not cover are observed and counted, not judged: "
        "LAMMPS bounds with xlo != 0 (the xs path yields x - xlo, the x path "
        "x), gro files with other than 3 decimals (the reader uses fixed "
        "8-character columns), tab separated xyz atom lines, DL_POLY imcon 0 "
        "files without cell lines are not generated",
        "object reuse: the DL_POLY writer is excluded (one writer per "
        "process, documented); reuse cases avoid the recorded format limits "
        "(dump/pdb: rectangular boxes, xyz: narrow coordinates) so that only "
        "state leaking between uses can fire; FirstFrame called twice is "
        "only required not to leave data that is no frame of the file "
        "(stream readers do not rewind; outcomes are counted); a gro frame "
        "without velocity columns following one with them keeps the stale "
        "bead velocities (counted, not judged)",
        "LAMMPS dump forces: either calorie (41.84 / 41.868 kJ/mol/nm per "
        "kcal/mol/A) is accepted here; the disagreement is C20's known "
        "finding"]
    shutil.rmtree(work, ignore_errors=True)


def replay(path):
    """re-run the check with the witness' seed/tier and tell whether the key
    fires again"""
    w = json.load(open(path))
    chk = vf.Check("C08", w.get("tier", "quick"), int(w.get("seed", 1)))
    chk.known = []
    run(chk)
    hit = w["key"] in chk.violations
    print("replay C08 key=%s seed=%s: %s" % (w["key"], w.get("seed"),
                                           "REPRODUCED" if hit else
                                           "not reproduced"))
    if hit:
        print("VIOLATION property=C08 replay=%s key=%s" % (path, w["key"]))
    return 1 if hit else 0
