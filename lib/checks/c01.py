"""C01 coarse-grained mapping (DESIGN.md §5 C01).

Two monitors, both on the `asan` flavour:
 * library level: harness/c01.cc (long-double oracle + metamorphic monitors);
 * executable level: the real csg_map on generated xml topology + .gro/.dump
   trajectories whose box changes per frame; the written file is compared with
   an independent Python recomputation from the parsed input files
   (lib/c01_oracle.py).
"""
import os
import random
import shutil

import c01_oracle as orc
import vfcore as vf

RULE = ("library: 1-3 molecule types of 1-12 atoms, 1-4 CG beads per molecule "
        "with overlapping parent sets in random order, weights all-one / mass "
        "/ random non-normalised / with zeros / mildly negative (condition "
        "<= 8), optional d, spherical and ellipsoidal beads, all 8 "
        "combinations of positions/velocities/forces; frames in open / "
        "orthorhombic / reduced triclinic boxes, molecules placed on faces, "
        "edges, corners, wrapped into the cell or with per-atom lattice "
        "shifts up to 1e4 images, plus oversize and just-below/just-above "
        "half-box probes. One evaluation = one CG bead (or one frame-level "
        "accept/reject decision, or one bead of a metamorphic re-run) judged. "
        "Non-trivial = at least one parent was actually unwrapped, or an "
        "oversize-rejection case; distinct = hash of the unwrapped parents "
        "and weights. executable: csg_map runs over gro->gro, gro->dump, "
        "dump->dump, dump->gro with 1-5 frames of per-frame varying boxes; "
        "one evaluation = one CG bead of one written frame compared. reuse "
        "families (library): one TopologyMap serves all frames of a case - "
        "frames with the same step/time as the previous one, increasing and "
        "repeating steps, box type changing between frames on the same "
        "Topology, positions/velocities/forces appearing and disappearing "
        "between frames, the same frame mapped twice (bit-identical), beads "
        "sharing one <map> with d, a second CG topology created by the same "
        "CGEngine (from the same or a twin atomistic topology) must map "
        "bit-identically; executable: half of the dump trajectories carry "
        "one TIMESTEP in every frame (gro frames always have step 0). "
        "per-frame presence (csg_map, dump in, dump/gro out): the 240 "
        "combinations of presence pattern over the frames (AP, PA, APA, PPP, "
        "AAA) x quantity carried by the present frames (vel, force, both) x "
        "--vel/--force given or not (4) x first frame processed or skipped "
        "(--first-frame 2) x output format are run once per 240 runs; a frame "
        "is judged for a quantity when its own parents carry it and the "
        "flag is given.")

PAIRS = [("gro", "gro"), ("gro", "dump"), ("dump", "dump"), ("dump", "gro")]


def prebuild():
    vf.build_harness("asan", "c01")
    vf.build_flavour("asan", ["csg_map"])


# ----------------------------------------------------------------------------
# generator for the executable-level monitor
# ----------------------------------------------------------------------------

def _num(x):
    return repr(float(x))


def gen_system(rng):
    types = []
    for t in range(rng.randint(1, 3)):
        na = rng.randint(1, 12)
        atoms = [{"name": "A%d" % (a + 1), "type": "T" + rng.choice("abc"),
                  "mass": rng.choice([1.008, 12.011, 15.9994,
                                      round(rng.uniform(0.5, 200), 4)]),
                  "q": round(rng.uniform(-1, 1), 3)} for a in range(na)]
        beads = []
        for b in range(rng.randint(1, 4)):
            np_ = na if rng.random() < 0.3 else rng.randint(1, na)
            parents = rng.sample(range(na), np_)
            if rng.random() < 0.4:
                parents.sort()
            while True:
                pat = rng.randint(0, 9)
                if pat <= 1:
                    w = [1.0] * np_
                elif pat <= 3:
                    w = [atoms[p]["mass"] for p in parents]
                elif pat <= 5:
                    w = [float("%.6g" % (10 ** rng.uniform(-3, 3)))
                         for _ in parents]
                elif pat == 6:
                    w = [float(rng.randint(0, 5)) for _ in parents]
                elif pat == 7:
                    w = [0.0 if rng.random() < 0.35 else
                         float("%.5g" % (10 ** rng.uniform(-2, 2)))
                         for _ in parents]
                elif pat == 8:
                    w = [round(rng.uniform(-1, 2), 4) for _ in parents]
                else:
                    w = [float(rng.randint(1, 16)) for _ in parents]
                sa = sum(abs(x) for x in w)
                if sa > 0 and abs(sum(w)) * 8 >= sa:
                    break
            d = None
            if rng.random() < 0.4:
                while True:
                    d = [0.0 if (w[i] == 0 or rng.random() < 0.15) else
                         float("%.5g" % (10 ** rng.uniform(-2, 2)))
                         for i in range(np_)]
                    if sum(d) > 0:
                        break
                    if all(x == 0 for x in w):
                        d = None
                        break
            ell = np_ >= 3 and sum(w) > 0 and any(x > 0 for x in w) and \
                rng.random() < 0.2
            beads.append({"name": "B%d" % (b + 1), "parents": parents, "w": w,
                          "d": d, "symmetry": 3 if ell else
                          (1 if rng.random() < 0.5 else None)})
        types.append({"name": "MOL" + "ABC"[t], "cg": "CG" + "ABC"[t],
                      "atoms": atoms, "beads": beads,
                      "nmols": rng.randint(1, 5),
                      "bonded": len(beads) >= 2 and rng.random() < 0.6})
    return types


def write_topology(path, types, rng):
    o = ["<topology>", "  <molecules>"]
    for t in types:
        o.append('    <molecule name="%s" nmols="%d" nbeads="%d">' %
                 (t["name"], t["nmols"], len(t["atoms"])))
        for a in t["atoms"]:
            o.append('      <bead name="%s" type="%s" mass="%s" q="%s"/>' %
                     (a["name"], a["type"], _num(a["mass"]), _num(a["q"])))
        o.append("    </molecule>")
    o.append("  </molecules>")
    if rng.random() < 0.4:
        # a box in the topology file that no frame uses: a stale box shows up
        o.append('  <box xx="%s" yy="%s" zz="%s"/>' % (
            _num(round(rng.uniform(0.3, 60), 3)),
            _num(round(rng.uniform(0.3, 60), 3)),
            _num(round(rng.uniform(0.3, 60), 3))))
    o.append("</topology>")
    open(path, "w").write("\n".join(o) + "\n")


def write_mapping(path, t):
    o = ["<cg_molecule>", "  <name>%s</name>" % t["cg"],
         "  <ident>%s</ident>" % t["name"], "  <topology>", "    <cg_beads>"]
    for b in t["beads"]:
        o += ["      <cg_bead>", "        <name>%s</name>" % b["name"],
              "        <type>C%s</type>" % b["name"]]
        if b["symmetry"]:
            o.append("        <symmetry>%d</symmetry>" % b["symmetry"])
        o += ["        <mapping>M%s</mapping>" % b["name"],
              "        <beads> %s </beads>" % " ".join(
                  "1:%s:%s" % (t["name"], t["atoms"][p]["name"])
                  for p in b["parents"]),
              "      </cg_bead>"]
    o.append("    </cg_beads>")
    if t["bonded"]:
        o.append("    <cg_bonded>")
        for k in range(len(t["beads"]) - 1):
            o += ["      <bond>", "        <name>bond%d</name>" % (k + 1),
                  "        <beads> %s %s </beads>" % (
                      t["beads"][k]["name"], t["beads"][k + 1]["name"]),
                  "      </bond>"]
        o.append("    </cg_bonded>")
    o += ["  </topology>", "  <maps>"]
    for b in t["beads"]:
        o += ["    <map>", "      <name>M%s</name>" % b["name"],
              "      <weights> %s </weights>" % " ".join(_num(x)
                                                       for x in b["w"])]
        if b["d"] is not None:
            o.append("      <d> %s </d>" % " ".join(_num(x) for x in b["d"]))
        o.append("    </map>")
    o += ["  </maps>", "</cg_molecule>"]
    open(path, "w").write("\n".join(o) + "\n")


def _unit(rng):
    while True:
        v = [rng.gauss(0, 1) for _ in range(3)]
        n = sum(x * x for x in v) ** 0.5
        if n > 1e-6:
            return [x / n for x in v]


def gen_box(rng, fmt):
    c = rng.random()
    if c < 0.06:
        return ([0.0, 0, 0], [0, 0.0, 0], [0, 0, 0.0])
    e = [round(10 ** rng.uniform(-0.3, 1.7), 3) for _ in range(3)]
    if rng.random() < 0.2:
        e = [e[0]] * 3
    a, b, cc = [e[0], 0, 0], [0, e[1], 0], [0, 0, e[2]]
    if fmt == "gro" and c > 0.55:
        def tilt(lim):
            k = rng.randint(0, 9)
            return round({0: 0.5, 1: -0.5, 2: 0.0}.get(
                k, rng.uniform(-0.5, 0.5)) * lim, 3)
        b[0], cc[0], cc[1] = tilt(e[0]), tilt(e[0]), tilt(e[1])
    return (a, b, cc)


def gen_frame(rng, types, fmt, oversize, prec, maximg):
    """positions (nm) before rounding to the file precision; the caller
    classifies the frame with the oracle after writing/parsing"""
    box = gen_box(rng, fmt)
    opn = orc.is_open(box)
    hm = 8.0 if opn else orc.hmin(box)
    bmx = max([abs(x) for v in box for x in v] + [1.0])
    margin = 6 * prec + 4e-9 * (maximg + 3) * 3 * bmx + 4e-9
    rho = max(0.25 * hm - margin, 0.0)
    pos = []
    mode = "open" if opn else rng.choice(
        ["whole", "wrapped", "wrapped", "shifted", "shifted", "shifted"])
    for t in types:
        for _ in range(t["nmols"]):
            if opn:
                ctr = [rng.uniform(-20, 20) for _ in range(3)]
            else:
                f = [rng.choice([0.0, 1.0, 0.5, rng.random(), rng.random(),
                                 rng.random()]) for _ in range(3)]
                ctr = [f[0] * box[0][k] + f[1] * box[1][k] + f[2] * box[2][k]
                       for k in range(3)]
            s = rho * rng.uniform(0.05, 1.0)
            mp = []
            for _a in t["atoms"]:
                u, r = _unit(rng), s * rng.random() ** (1 / 3)
                mp.append([ctr[k] + r * u[k] for k in range(3)])
            pos.append(mp)
    if oversize and not opn:
        cand = [(m, b) for m, mt in enumerate(
            [t for t in types for _ in range(t["nmols"])])
            for b in mt["beads"] if len(b["parents"]) >= 2]
        if cand:
            m, b = rng.choice(cand)
            p0 = pos[m][b["parents"][0]]
            p = rng.choice(b["parents"][1:])
            for _ in range(200):
                f = [rng.uniform(-0.5, 0.5) for _ in range(3)]
                d = [f[0] * box[0][k] + f[1] * box[1][k] + f[2] * box[2][k]
                     for k in range(3)]
                if orc.nearest_image(d, box)[1] > 0.5 * hm + margin:
                    pos[m][p] = [p0[k] + d[k] for k in range(3)]
                    break
    flat = [p for mp in pos for p in mp]
    if not opn and mode != "whole":
        a, b, c = box
        vol = orc._dot(a, orc._cross(b, c))
        rec = [orc._cross(b, c), orc._cross(c, a), orc._cross(a, b)]
        for p in flat:
            f = [orc._dot(p, rec[k]) / vol for k in range(3)]
            n = [-float(int(x // 1)) for x in f]
            if mode == "shifted" and rng.random() < 0.8:
                n = [n[k] + rng.randint(-maximg, maximg) for k in range(3)]
            for k in range(3):
                p[k] += n[0] * a[k] + n[1] * b[k] + n[2] * c[k]
    vel = [[rng.gauss(0, 1) * 2 for _ in range(3)] for _ in flat]
    frc = [[rng.gauss(0, 1) * 300 for _ in range(3)] for _ in flat]
    return {"box": box, "pos": flat, "vel": vel, "force": frc, "mode": mode}


def write_gro(path, frames, with_vel):
    o = []
    for fi, fr in enumerate(frames):
        o.append("generated frame %d" % fi)
        o.append("%5d" % len(fr["pos"]))
        for i, p in enumerate(fr["pos"]):
            ln = "%5d%-5s%5s%5d%8.3f%8.3f%8.3f" % (
                (i // 3 + 1) % 100000, "RES", "X%d" % (i % 1000),
                (i + 1) % 100000, p[0], p[1], p[2])
            if with_vel:
                ln += "%8.4f%8.4f%8.4f" % tuple(fr["vel"][i])
            o.append(ln)
        a, b, c = fr["box"]
        if any([a[1], a[2], b[0], b[2], c[0], c[1]]) or fr.get("nine"):
            o.append("%10.5f%10.5f%10.5f%10.5f%10.5f%10.5f%10.5f%10.5f%10.5f"
                     % (a[0], b[1], c[2], a[1], a[2], b[0], b[2], c[0], c[1]))
        else:
            o.append("%10.5f%10.5f%10.5f" % (a[0], b[1], c[2]))
    open(path, "w").write("\n".join(o) + "\n")


def write_dump(path, frames, with_vel, with_force, rng):
    o = []
    for fi, fr in enumerate(frames):
        n = len(fr["pos"])
        o += ["ITEM: TIMESTEP", str(fr.get("step", 1000 * fi + 7)),
              "ITEM: NUMBER OF ATOMS",
              str(n), "ITEM: BOX BOUNDS pp pp pp"]
        lo = fr.get("lo", [0.0, 0.0, 0.0])
        for k in range(3):
            o.append("%.6f %.6f" % (lo[k], lo[k] + fr["box"][k][k] * 10))
        sfx = fr.get("sfx", "")
        cols = ["id", "type"] + [c + sfx for c in "xyz"]
        # per-frame column lists are legal in LAMMPS dump files
        wv = fr.get("has_vel", with_vel)
        wf = fr.get("has_force", with_force)
        if wv:
            cols += ["vx", "vy", "vz"]
        if wf:
            cols += ["fx", "fy", "fz"]
        o.append("ITEM: ATOMS " + " ".join(cols))
        order = list(range(n))
        if fr.get("shuffle"):
            rng.shuffle(order)
        for i in order:
            p = fr["pos"][i]
            ln = "%d %d %.6f %.6f %.6f" % (i + 1, 1 + i % 3, p[0] * 10,
                                           p[1] * 10, p[2] * 10)
            if wv:
                ln += " %.6f %.6f %.6f" % tuple(10 * x for x in fr["vel"][i])
            if wf:
                ln += " %.6f %.6f %.6f" % tuple(fr["force"][i])
            o.append(ln)
    open(path, "w").write("\n".join(o) + "\n")


def make_case(rng, d, infmt, outfmt, reject, rng2=None):
    """writes all input files of one csg_map run into directory d"""
    os.makedirs(d)
    types = gen_system(rng)
    write_topology(os.path.join(d, "top.xml"), types, rng)
    cgs = []
    for k, t in enumerate(types):
        p = os.path.join(d, "map%d.xml" % k)
        write_mapping(p, t)
        cgs.append(p)
    nfr = rng.randint(1, 5)
    bad = rng.randrange(nfr) if reject else -1
    with_vel = rng.random() < 0.6
    with_force = infmt == "dump" and rng.random() < 0.6
    prec = 1e-3 if infmt == "gro" else 1e-7
    maximg = rng.choice([1, 1, 3]) if infmt == "gro" or outfmt == "gro" \
        else rng.choice([1, 3, 100, 10000])
    frames = []
    for fi in range(nfr):
        fr = gen_frame(rng, types, infmt, fi == bad, prec, maximg)
        if infmt == "dump":
            if rng.random() < 0.3:
                fr["lo"] = [round(rng.uniform(-30, 30), 3) for _ in range(3)]
            fr["sfx"] = "u" if rng.random() < 0.3 else ""
            fr["shuffle"] = rng.random() < 0.4
        else:
            fr["nine"] = rng.random() < 0.3
        frames.append(fr)
    if infmt == "dump" and rng2 is not None and rng2.random() < 0.5:
        # every frame carries the same TIMESTEP (as all .gro frames do: the
        # reader leaves step 0): a map that is skipped for a "known" step
        # would write stale beads
        st = rng2.choice([0, 7, 123456])
        for fr in frames:
            fr["step"] = st
    trj = os.path.join(d, "traj." + infmt)
    if infmt == "gro":
        write_gro(trj, frames, with_vel)
    else:
        write_dump(trj, frames, with_vel, with_force, rng)
    return {"dir": d, "top": os.path.join(d, "top.xml"), "cg": cgs,
            "trj": trj, "out": os.path.join(d, "out." + outfmt),
            "infmt": infmt, "outfmt": outfmt, "with_vel": with_vel,
            "with_force": with_force and outfmt == "dump",
            "intended_bad_frame": bad}


def run_case(case, exe, env):
    cmd = [exe, "--top", case["top"], "--trj", case["trj"], "--cg",
           ";".join(case["cg"]), "--out", case["out"]]
    if case["with_vel"]:
        cmd.append("--vel")
    if case["with_force"]:
        cmd.append("--force")
    case["cmd"] = cmd
    return vf.run_proc(cmd, env=env, timeout=600, cwd=case["dir"])


def judge_case(chk, case, res, keep_dir):
    """compare what csg_map wrote with the oracle; returns True when silent"""
    fam = "exe/%s->%s" % (case["infmt"], case["outfmt"])
    files = {os.path.basename(p): open(p).read()
             for p in [case["top"], case["trj"]] + case["cg"]}
    wit = {"cmd": case["cmd"], "files": files, "rc": res.rc,
           "stderr_tail": res.err[-1500:]}
    nviol = [0]

    def viol(key, detail, what):
        nviol[0] += 1
        w = dict(wit)
        w.update(detail)
        if os.path.exists(case["out"]):
            w["output_file"] = open(case["out"]).read()[:20000]
        chk.violation(fam + "/" + key, w, what)

    mols = orc.load_topology_xml(case["top"])
    maps = {}
    for p in case["cg"]:
        m = orc.load_mapping_xml(p)
        maps[m["ident"]] = m
    frames = orc.parse_gro(case["trj"]) if case["infmt"] == "gro" else \
        orc.parse_dump(case["trj"])
    exp = [orc.expected_frame(mols, maps, f) for f in frames]
    first_bad = None
    ambiguous = False
    for fi, ef in enumerate(exp):
        if any(e["inband"] for e in ef):
            ambiguous = True
            break
        if any(e["oversize"] for e in ef):
            first_bad = fi
            break
    if ambiguous:
        chk.counters["exe_dontcare_runs_within_band_of_half_box"] = \
            chk.counters.get("exe_dontcare_runs_within_band_of_half_box", 0) + 1
        return True
    if first_bad is None:
        if not res.timed_out and res.rc != 0 and \
                "bigger than half the box" in res.err:
            viol("valid-frame-rejected", {},
                 "csg_map refused a trajectory whose beads are all smaller "
                 "than half the shortest box height")
            return False
        if not chk.proc_result(res, "csg_map " + fam, wit):
            return False
    else:
        if res.timed_out:
            chk.inconclusive.append("watchdog: csg_map " + fam)
            return False
        if res.rc == 0:
            viol("oversize-frame-mapped", {"frame": first_bad},
                 "a frame with a parent farther than half the shortest box "
                 "height from the first parent was mapped, csg_map exit 0")
        elif "bigger than half the box" not in res.err:
            if not chk.proc_result(res, "csg_map " + fam, wit):
                return False
        else:
            k = "exe_reject_clean_error_exit" if res.rc > 0 else \
                "exe_reject_by_uncaught_exception_in_worker_thread"
            chk.counters[k] = chk.counters.get(k, 0) + 1
    got = []
    if os.path.exists(case["out"]):
        try:
            got = orc.parse_out_gro(case["out"]) if case["outfmt"] == "gro" \
                else orc.parse_out_dump(case["out"])
        except (ValueError, IndexError, KeyError) as e:
            # e.g. a value that does not fit its fixed-width field; every
            # expected value of the generated cases fits
            viol("output-unparsable", {"parse_error": repr(e)},
                 "the file written by csg_map cannot be parsed in its own "
                 "format (expected values all fit the format)")
            return False
        got = [g for g in got if not g.get("truncated")]
    nwant = len(frames) if first_bad is None else first_bad
    if first_bad is not None and len(got) > nwant:
        viol("oversize-frame-written", {"frame": first_bad,
                                        "frames_written": len(got)},
             "the output contains the frame that had to be rejected")
    if len(got) < nwant:
        viol("frames-missing", {"frames_written": len(got),
                                "frames_expected": nwant},
             "fewer frames written than valid frames read")
    nb = ntriv = 0
    for fi in range(min(nwant, len(got))):
        bad = orc.compare_frame(exp[fi], got[fi], case["outfmt"],
                                case["with_vel"], case["with_force"],
                                frames[fi]["box"])
        nb += len(exp[fi])
        ntriv += sum(1 for e in exp[fi] if e["unwrapped"])
        for key, detail in bad[:3]:
            detail = dict(detail)
            detail["frame"] = fi
            viol(key, detail, "csg_map output differs from the independent "
                 "recomputation from the input files")
    if first_bad is not None:
        chk.count(fam + "/reject", 1, nontrivial=1)
    chk.count(fam, nb, nontrivial=ntriv)
    if nb and len(chk.samples) < 6 and ntriv:
        e = exp[0][0]
        chk.sample({"family": fam, "cmd": " ".join(
            os.path.basename(x) if os.sep in x else x for x in case["cmd"]),
            "frames": len(frames), "cg_beads_per_frame": len(exp[0]),
            "first_bead_expected_nm": e["pos"],
            "first_bead_written": got[0]["pos"][0]})
    return nviol[0] == 0


# ----------------------------------------------------------------------------
# per-frame presence of velocities / forces (csg_map, LAMMPS dump in)
# ----------------------------------------------------------------------------
# LAMMPS dump files carry one column list per frame, so velocities and forces
# may be present in some frames only. Enumerated deterministically:
# presence pattern over the frames x which quantity the "present" frames carry
# x --vel/--force given or not x first frame skipped (--first-frame 2) or not x
# output format (dump: v and f, gro: v).  --begin cannot skip a frame here:
# neither reader sets a time.
PF_PATTERNS = [("AP", (0, 1)), ("PA", (1, 0)), ("APA", (0, 1, 0)),
               ("PPP", (1, 1, 1)), ("AAA", (0, 0, 0))]
PF_KINDS = ["vel", "force", "both"]
PF_FLAGS = [(), ("--vel",), ("--force",), ("--vel", "--force")]
PF_SKIP = [0, 2]
PF_OUT = ["dump", "gro"]
PF_COMBOS = [(p, k, f, sk, o) for p in PF_PATTERNS for k in PF_KINDS
             for f in PF_FLAGS for sk in PF_SKIP for o in PF_OUT]
PF_KEY = "csg_map/per-frame-presence/"


def make_pf_case(rng, d, combo):
    (pname, pat), kind, flags, skip, outfmt = combo
    os.makedirs(d)
    types = gen_system(rng)
    write_topology(os.path.join(d, "top.xml"), types, rng)
    cgs = []
    for k, t in enumerate(types):
        p = os.path.join(d, "map%d.xml" % k)
        write_mapping(p, t)
        cgs.append(p)
    maximg = rng.choice([1, 1, 3]) if outfmt == "gro" else \
        rng.choice([1, 3, 100])
    frames = []
    for fi, present in enumerate(pat):
        fr = gen_frame(rng, types, "dump", False, 1e-7, maximg)
        fr["has_vel"] = bool(present) and kind in ("vel", "both")
        fr["has_force"] = bool(present) and kind in ("force", "both")
        fr["shuffle"] = rng.random() < 0.3
        frames.append(fr)
    trj = os.path.join(d, "traj.dump")
    write_dump(trj, frames, False, False, rng)
    return {"dir": d, "top": os.path.join(d, "top.xml"), "cg": cgs,
            "trj": trj, "out": os.path.join(d, "out." + outfmt),
            "infmt": "dump", "outfmt": outfmt, "flags": list(flags),
            "skip": skip, "pattern": pname, "kind": kind,
            "label": "%s/%s/%s/first-frame=%d/%s" % (
                pname, kind, "+".join(f[2:] for f in flags) or "noflag",
                skip, outfmt)}


def run_pf_case(case, exe, env):
    cmd = [exe, "--top", case["top"], "--trj", case["trj"], "--cg",
           ";".join(case["cg"]), "--out", case["out"]] + case["flags"]
    if case["skip"]:
        cmd += ["--first-frame", str(case["skip"])]
    case["cmd"] = cmd
    return vf.run_proc(cmd, env=env, timeout=600, cwd=case["dir"])


def _bump(chk, k, n=1):
    chk.counters[k] = chk.counters.get(k, 0) + n


def judge_pf_case(chk, case, res):
    fam = "exe/per-frame-presence/dump->" + case["outfmt"]
    files = {os.path.basename(p): open(p).read()
             for p in [case["top"], case["trj"]] + case["cg"]}
    wit = {"cmd": case["cmd"], "case": case["label"], "files": files,
           "rc": res.rc, "stderr_tail": res.err[-1500:]}

    def viol(key, detail, what):
        w = dict(wit)
        w.update(detail)
        if os.path.exists(case["out"]):
            w["output_file"] = open(case["out"]).read()[:20000]
        chk.violation(PF_KEY + key, w, what)

    _bump(chk, "pf_cases_pattern_" + case["pattern"])
    _bump(chk, "pf_cases_kind_" + case["kind"])
    _bump(chk, "pf_cases_flags_" + ("+".join(f[2:] for f in case["flags"])
                                    or "none"))
    _bump(chk, "pf_cases_first_frame_%s" % ("skipped" if case["skip"]
                                            else "processed"))
    mols = orc.load_topology_xml(case["top"])
    maps = {}
    for p in case["cg"]:
        m = orc.load_mapping_xml(p)
        maps[m["ident"]] = m
    frames = orc.parse_dump(case["trj"])
    proc = frames[1:] if case["skip"] else frames
    exp = [orc.expected_frame(mols, maps, f) for f in proc]
    if any(e["inband"] or e["oversize"] for ef in exp for e in ef):
        _bump(chk, "exe_dontcare_runs_within_band_of_half_box")
        return
    if res.timed_out:
        chk.inconclusive.append("watchdog: csg_map " + fam)
        return
    aborted = False
    if res.rc != 0:
        aborted = True
        m = [q for q in ("velocity", "force")
             if "bead_%s_set_" % q in res.err]
        if m:
            viol("abort-on-frame-without-" + m[0], {},
                 "csg_map --vel/--force ends in an assertion (unset vector "
                 "read) while writing a frame whose CG beads never received "
                 "the quantity; frames that do carry it are never written")
        elif not chk.proc_result(res, "csg_map " + fam, wit):
            pass
    got = []
    if os.path.exists(case["out"]):
        try:
            got = orc.parse_out_gro(case["out"]) if case["outfmt"] == "gro" \
                else orc.parse_out_dump(case["out"])
        except (ValueError, IndexError, KeyError) as e:
            viol("output-unparsable", {"parse_error": repr(e)},
                 "the file written by csg_map cannot be parsed")
            return
        got = [g for g in got if not g.get("truncated")]
    if not aborted and len(got) != len(proc):
        viol("frame-count", {"frames_written": len(got),
                             "frames_expected": len(proc)},
             "number of written frames differs from the processed frames")
    nb = ntriv = 0
    has_v = [f["vel"] is not None for f in proc]
    has_f = [f["force"] is not None for f in proc]
    mixed = len(set(has_v)) > 1 or len(set(has_f)) > 1
    for fi in range(min(len(got), len(proc))):
        want_v = "--vel" in case["flags"] and has_v[fi]
        want_f = "--force" in case["flags"] and has_f[fi] and \
            case["outfmt"] == "dump"
        bad = orc.compare_frame(exp[fi], got[fi], case["outfmt"], want_v,
                                want_f, proc[fi]["box"])
        nb += len(exp[fi])
        ntriv += sum(1 for e in exp[fi] if e["unwrapped"])
        if want_v:
            _bump(chk, "pf_frames_velocity_judged")
        if want_f:
            _bump(chk, "pf_frames_force_judged")
        for key, detail in bad[:3]:
            detail = dict(detail)
            detail["frame_of_processed"] = fi
            q = key.split("/")[-1]
            if q == "velocity-missing":
                viol("velocity-missing-in-frame", detail,
                     "--vel given and the parents of this frame carry "
                     "velocities, but the written frame has none")
            elif q == "force-missing":
                viol("force-missing-in-frame", detail,
                     "--force given and the parents of this frame carry "
                     "forces, but the written frame has none")
            else:
                detail["quantity"] = key
                viol("value-mismatch", detail,
                     "written frame differs from the weighted sums of the "
                     "parents of this frame")
        # frames whose parents lack a requested quantity: no value is
        # defined; what is written is recorded only
        for flag, have, col in (("--vel", has_v[fi], "vel"),
                                ("--force", has_f[fi], "force")):
            if flag in case["flags"] and not have and not (
                    col == "force" and case["outfmt"] == "gro"):
                w = got[fi].get(col)
                what = "column_absent" if w is None else (
                    "zeros" if all(x == 0 for r in w for x in r)
                    else "values_of_an_earlier_frame_or_other")
                _bump(chk, "pf_observed_only_frame_without_parent_%s_written_"
                      "as_%s" % (col, what))
    chk.count(fam, nb, nontrivial=ntriv + (1 if mixed and nb else 0))
    if nb and mixed and len(chk.samples) < 6 and not aborted:
        chk.sample({"family": fam, "case": case["label"],
                    "frames_processed": len(proc),
                    "parents_have_velocity": has_v,
                    "parents_have_force": has_f,
                    "written_has_velocity": [g.get("vel") is not None
                                             for g in got],
                    "written_has_force": [g.get("force") is not None
                                          for g in got]})


def run(chk):
    shards = 16
    cases = vf.tier_n(chk.tier, 150, 4000)      # library cases per shard
    nexe = vf.tier_n(chk.tier, 96, 1600)        # csg_map runs
    npf = vf.tier_n(chk.tier, 240, 1920)        # per-frame presence runs
    h = vf.build_harness("asan", "c01")
    vf.build_flavour("asan", ["csg_map"])
    exe = vf.exe("asan", "csg_map")
    env = vf.lib_env("asan")
    chk.rule = RULE
    chk.sanitizer = {"flavour": "asan", "reports": 0}
    work = vf.scratch_dir("C01")
    try:
        libdir = os.path.join(work, "lib")
        os.makedirs(libdir)
        jobs = [lambda s=s: vf.run_proc(
            [h, "--dir", libdir, "--seed", str(chk.seed), "--shard", str(s),
             "--n", str(cases)], env=env, timeout=3600)
            for s in range(shards)]
        ecases = []
        for k in range(nexe):
            rng = random.Random(chk.seed * 1000003 + k)
            infmt, outfmt = PAIRS[k % 4]
            reject = (k // 4) % 6 == 5
            rng2 = random.Random(chk.seed * 7919 + 31 * k + 5)
            ecases.append(make_case(rng, os.path.join(work, "exe%04d" % k),
                                    infmt, outfmt, reject, rng2))
        jobs += [lambda c=c: run_case(c, exe, env) for c in ecases]
        pcases = []
        for j in range(npf):
            rng = random.Random(chk.seed * 999983 + 17 * j + 3)
            # every combination once per 240 runs; the seed rotates the start
            combo = PF_COMBOS[(j + 37 * chk.seed) % len(PF_COMBOS)]
            pcases.append(make_pf_case(
                rng, os.path.join(work, "pf%04d" % j), combo))
        jobs += [lambda c=c: run_pf_case(c, exe, env) for c in pcases]
        results = vf.run_parallel(jobs)
        for s, res in enumerate(results[:shards]):
            if not chk.ingest(res, "c01 library shard %d" % s, prefix="lib/",
                              keyprefix="lib/"):
                chk.sanitizer["reports"] += 0 if res.rc == 0 else 1
        for c, res in zip(ecases, results[shards:shards + nexe]):
            judge_case(chk, c, res, work)
        for c, res in zip(pcases, results[shards + nexe:]):
            judge_pf_case(chk, c, res)
        chk.extra["per_frame_presence_cases"] = {
            k[len("pf_cases_"):]: v for k, v in sorted(chk.counters.items())
            if k.startswith("pf_cases_")}
    finally:
        shutil.rmtree(work, ignore_errors=True)
    chk.assumptions = [
        "force weight of a parent with w_i = d_i = 0 is 0; without d the "
        "force is the plain sum over the parents with non-zero weight "
        "(DESIGN.md interpretation)",
        "frames whose largest first-parent distance is within 1e-9*|input| "
        "of half the shortest box height are don't-care",
        "ellipsoidal beads: the orientation vectors are outside the design "
        "(position, velocity, force and mass are judged; mass under the key "
        "lib/ellipsoid/mass)",
        "executable level: tolerance = half a unit of the last printed digit "
        "+ propagated rounding; only the box diagonal is compared (tilt "
        "factors in written files belong to C08)",
        "when the parents carry no positions/velocities/forces in a frame "
        "the statement defines no value: that the CG bead keeps the value "
        "and the 'set' flag of an earlier frame is counted as an observation",
        "per-frame presence: a frame whose parents carry no velocities / "
        "forces has no defined mapped value - what csg_map writes there "
        "(column absent, zeros, values of an earlier frame) is counted, not "
        "judged; the run must still write every frame that does carry the "
        "quantity, so an abort while writing the undefined frame is a "
        "violation of its own key; --begin cannot be exercised (no reader "
        "used here sets a time)",
        "mapping files with d != 0 where w == 0 (refused by the library by "
        "design) and ellipsoidal beads with fewer than three parents are "
        "not generated"]


def replay(path):
    """re-run one witness: a library case (by its seed coordinates) or an
    executable case (input files are stored inside the witness)"""
    import json
    import shlex
    rec = json.load(open(path))
    w = rec["witness"]
    env = vf.lib_env("asan")
    work = vf.scratch_dir("C01replay")
    try:
        if "replay" in w:
            h = vf.build_harness("asan", "c01")
            args = shlex.split(w["replay"])[1:]
            res = vf.run_proc([h, "--dir", work] + args, env=env, timeout=600)
            bad = [r for r in res.records() if r.get("t") == "violation"]
            for r in bad:
                print("VIOLATION property=C01 replay=%s key=lib/%s %s" %
                      (path, r["key"], r.get("what", "")))
            if res.rc != 0:
                print(res.err[-3000:])
            print("replayed: %d violation record(s), rc=%d" %
                  (len(bad), res.rc))
            return 1 if bad or res.rc != 0 else 0
        vf.build_flavour("asan", ["csg_map"])
        for name, txt in w["files"].items():
            open(os.path.join(work, name), "w").write(txt)
        cmd = list(w["cmd"])
        infmt = [n for n in w["files"] if n.startswith("traj.")][0][5:]
        out = [cmd[i + 1] for i, a in enumerate(cmd) if a == "--out"][0]
        case = {"dir": work, "top": os.path.join(work, "top.xml"),
                "cg": [os.path.join(work, n) for n in sorted(w["files"])
                       if n.startswith("map")],
                "trj": os.path.join(work, "traj." + infmt),
                "out": os.path.join(work, os.path.basename(out)),
                "infmt": infmt, "outfmt": out.rsplit(".", 1)[1],
                "with_vel": "--vel" in cmd, "with_force": "--force" in cmd}
        chk = vf.Check("C01", "replay", rec.get("seed", 1))
        chk.replay_dir = os.path.join(work, "replay")
        if "case" in w:        # per-frame presence witness
            lab = w["case"].split("/")
            case.update(flags=[a for a in cmd if a in ("--vel", "--force")],
                        skip=2 if "--first-frame" in cmd else 0,
                        pattern=lab[0], kind=lab[1], label=w["case"])
            res = run_pf_case(case, vf.exe("asan", "csg_map"), env)
            judge_pf_case(chk, case, res)
            ok = not chk.violations
        else:
            res = run_case(case, vf.exe("asan", "csg_map"), env)
            ok = judge_case(chk, case, res, work)
        for k, v in sorted(chk.violations.items()):
            print("VIOLATION property=C01 replay=%s key=%s %s" %
                  (path, k, v["what"]))
        print("replayed: %s" % ("silent" if ok else "violation reproduced"))
        return 0 if ok else 1
    finally:
        shutil.rmtree(work, ignore_errors=True)
