"""C04 csg_stat distributions == independent recomputation (DESIGN.md §5 C04).

Executable-level monitor: generated topology / mapping / trajectory / options
files are fed to the real csg_stat (asan flavour); every output file is
recomputed by lib/c04_oracle.py (numpy, run with python3-vt) from the written
input texts and compared to printed precision.
"""
import json
import os
import shutil

import vfcore as vf

ORACLE = os.path.join(vf.VERIF, "lib", "c04_oracle.py")
PY = "python3-vt"

RULE = ("cases: XML topology (1..3 molecule types, 1..5 beads each, 2..120 "
        "beads, 1..3 bead types), optional mapping xml (1..3 atoms per CG bead, "
        "cg_bonded) or <bonded> in the topology, LAMMPS .dump / .gro "
        "trajectories of 1..12 frames with per-frame box edges, unwrapped "
        "molecules; options: 0..3 pair interactions (same/cross type, '*'), "
        "bond/angle/dihedral groups, angular three-body with the type patterns "
        "AAA / ABB / ABC / AAB / ABA of (centre, neighbour, neighbour) - every "
        "fourth case over all shards carries one, the patterns in turn, in "
        "systems with 2..3 bead types; expected = centre angles of exactly the "
        "triples (centre i of type1; j of type2, k of type3, i,j,k distinct, "
        "d_ij and d_ik below the cut-off, unordered {j,k} when type2 == type3, "
        "no pair of the triple excluded), keys threebody/<pattern>/..., bin ranges from 0 and "
        "above, steps 0.005..0.5, --include-intra (max_intra), --do-imc (1..2 "
        "groups), --block-length 1..4, --first-frame/--nframes, --nt 1..3. "
        "Every frame keeps all judged values >= 1e-6 away from a bin edge / "
        "3-body cutoff (offending molecules are re-drawn). One evaluation = "
        "one output file compared; a case is non-trivial when more than one "
        "frame is averaged and some interaction has >= 2 non-empty bins; "
        "distinct = sha1 of trajectory + options text.")


def prebuild():
    vf.build_flavour("asan")


def run(chk):
    vf.build_flavour("asan")
    shards = 16
    total = vf.tier_n(chk.tier, 128, 4000)
    per = (total + shards - 1) // shards
    exe = vf.exe("asan", "csg_stat")
    env = vf.lib_env("asan")
    env["PYTHONDONTWRITEBYTECODE"] = "1"
    env["OMP_NUM_THREADS"] = "1"
    scratch = vf.scratch_dir(chk.pid)
    chk.rule = RULE
    chk.sanitizer = {"flavour": "asan", "reports": 0}
    jobs = [lambda s=s: vf.run_proc(
        [PY, ORACLE, "worker", "--seed", str(chk.seed), "--shard", str(s),
         "--n", str(per), "--scratch", scratch, "--exe", exe, "--tier",
         chk.tier], env=env, timeout=3600) for s in range(shards)]
    try:
        for s, res in enumerate(vf.run_parallel(jobs)):
            for rec in res.records():
                if rec.get("t") == "abnormal":
                    pr = vf.ProcResult(rec["rc"], "", rec["err"],
                                       rec["timed_out"], 0)
                    if not chk.proc_result(pr, rec["what"], rec["witness"]):
                        chk.sanitizer["reports"] += 1
            if not chk.ingest(res, "c04 worker shard %d" % s):
                if res.rc != 0:
                    chk.inconclusive.append(
                        "oracle worker %d failed: %s" % (s, res.err[-800:]))
    finally:
        shutil.rmtree(scratch, ignore_errors=True)
    chk.extra["skipped_or_trivial"] = {
        k: v for k, v in chk.counters.items()
        if k.startswith("cases_trivial") or k.startswith("generator_")}
    chk.assumptions = [
        "max - min is a whole multiple of step (otherwise 'the bin' of the "
        "statement is not defined); max + step/2 <= half the smallest box edge "
        "of every frame",
        "non-excluded = the two beads do not share a bonded interaction "
        "(or --include-intra); V/N^2 normalisation, bins with a negative lower "
        "edge are 0 (reading recorded in DESIGN.md §5/§7)",
        "--first-frame k starts at the k-th frame counted from 1 (0 and 1 "
        "both mean the first); a trailing incomplete block is not written",
        "bonded interactions are not put into IMC groups (prepare_imc.sh: "
        "'IMC for bonded potentials is not implemented'); three-body angular "
        "distributions use group none",
        "the oracle uses the plain orthorhombic minimum image; triclinic "
        "boxes are not generated (xml/dump/gro readers used here are "
        "orthorhombic, C02/C08 cover the rest)"]


def replay(path):
    vf.build_flavour("asan")
    scratch = vf.scratch_dir("C04r")
    env = vf.lib_env("asan")
    res = vf.run_proc([PY, ORACLE, "replay", path, "--exe",
                       vf.exe("asan", "csg_stat"), "--scratch", scratch],
                      env=env, timeout=900)
    print(res.out + res.err[-2000:])
    shutil.rmtree(scratch, ignore_errors=True)
    return res.rc
