"""C18 wildcard patterns, range expressions, index lists, bead selection:
library monitor under ASan/UBSan. See DESIGN.md §5 C18."""
import shutil

import vfcore as vf

RULE = ("wildcmp: every (pattern, string) pair with patterns over {a,b,*,?} "
        "up to length 6 (quick) / 8 (thorough) and strings over {a,b} up to "
        "length 7 / 9, plus random longer pairs over a larger alphabet "
        "(strings derived from the pattern so that matches are frequent), "
        "judged by a dynamic-programming glob matcher. RangeParser: every "
        "begin:stride:end in [-6,6]^3, every a:b and a in the window, random "
        "1..3-block expressions (numbers up to 200, random blanks), Add() "
        "API; oracle = direct enumeration; iteration under a 1e6-step budget "
        "(exceeding it is the verdict 'does not terminate'); zero and "
        "negative strides run one case per forked child under an alarm; "
        "print->parse round trip; malformed inputs must be rejected; forms "
        "with an empty field/block (1::5, '1,,3', ...) are observation "
        "counters only. Adjacent-block family: 2..3 blocks with |stride| "
        "2..9 (both signs) whose written end is ON or OFF the stride lattice, "
        "each following block starting exactly one stride after the written "
        "end (enumerated for strides -5..6 and random), through Parse, "
        "through Add, Parse then Add, and print->Parse; must enumerate the "
        "concatenation. Reuse family: one RangeParser object iterated twice, "
        "parsed into twice (append or replace both accepted, counted), "
        "Add() after Parse, print->Parse of the result; one IndexParser "
        "object called repeatedly against fresh objects. "
        "IndexParser: vector->string->vector and "
        "string->vector against direct enumeration. BeadList::Generate: "
        "random topologies, type and name: patterns against the reference "
        "matcher; second bead family: type and bead names that contain "
        "'*' and '?' themselves (C5*, O5*, C?, A*B, ...), topologies with "
        "an empty type registry, with every type registered, and built by "
        "the real gro / pdb / xml topology readers from generated files; "
        "selections equal to a type of the topology (incl. wildcard "
        "types), prefixes, ordinary globs, by type and name:, for Generate "
        "and GenerateInSphericalSubvolume (open and orthorhombic box). "
        "Rename family: Topology::RenameMolecules(range, name) and the "
        "xml topology <rename range=..> (generated file, real reader) with "
        "1..3-block expressions over 1-based molecule ids, blanks before / "
        "after ':' and ',', leading / trailing blanks, negative strides; "
        "judged: set of renamed molecules = independent expansion, no "
        "rejection of what RangeParser accepts (ids beyond the molecule "
        "count must throw: counted). "
        "Non-trivial: pattern with a wildcard; accepted range "
        "expression; index set with >= 3 members; selection matching some "
        "but not all beads. distinct = hash of the input text.")


def prebuild():
    vf.build_harness("asan", "c18", xtp=True)


def run(chk):
    shards = 16
    h = vf.build_harness("asan", "c18", xtp=True)
    env = vf.lib_env("asan")
    chk.rule = RULE
    chk.sanitizer = {"flavour": "asan", "reports": 0}
    plen, slen = vf.tier_n(chk.tier, (6, 7), (8, 9))
    args = ["--plen", str(plen), "--slen", str(slen),
            "--wild-random", str(vf.tier_n(chk.tier, 30000, 200000)),
            "--range-multi", str(vf.tier_n(chk.tier, 1500, 6000)),
            "--index", str(vf.tier_n(chk.tier, 3000, 20000)),
            "--beadlist", str(vf.tier_n(chk.tier, 500, 3000))]
    wd = vf.scratch_dir("C18")   # generated .gro/.pdb/.xml topologies
    args += ["--tmpdir", wd]
    jobs = [lambda s=s: vf.run_proc(
        [h, "--seed", str(chk.seed), "--shard", str(s), "--shards",
         str(shards), "--skip-rename"] + args, env=env, timeout=3000)
        for s in range(shards)]
    what = ["c18 shard %d" % s for s in range(shards)]
    # the RenameMolecules family runs in processes of its own
    nren = vf.tier_n(chk.tier, 8000, 80000)
    jobs += [lambda s=s: vf.run_proc(
        [h, "--seed", str(chk.seed), "--shard", str(s), "--only-rename",
         "--rename", str(nren), "--tmpdir", wd], env=env, timeout=3000)
        for s in range(4)]
    what += ["c18 rename shard %d" % s for s in range(4)]
    try:
        for w, res in zip(what, vf.run_parallel(jobs)):
            if not chk.ingest(res, w):
                chk.sanitizer["reports"] += 0 if res.rc == 0 else 1
    finally:
        shutil.rmtree(wd, ignore_errors=True)
    chk.extra["exhaustive_subspaces"] = {
        "wildcmp_pattern_maxlen": plen, "wildcmp_string_maxlen": slen,
        "range_window": "[-6,6]^3"}
    chk.assumptions = [
        "a block whose direction contradicts its stride (5:1:2, 2:-1:5) may "
        "be rejected or denote the empty sequence",
        "zero stride must be rejected ('empty-step expressions are "
        "rejected')",
        "forms in which the tokenizer drops an empty field or block are not "
        "judged (DESIGN §7)",
        "numbers outside the int range are observation counters only",
        "a second Parse on the same RangeParser may append (what the code "
        "does) or replace; what a Parse that throws leaves behind is an "
        "observation counter",
        "index lists: non-negative and negative integers, reversed range "
        "tokens (5:3) are observation counters only"]


def replay(path):
    """re-run one witness: a range expression (observed behaviour is
    printed) or a (pattern, string) pair"""
    import json
    w = json.load(open(path))
    wit = w.get("witness", {})
    print(json.dumps(w, indent=1)[:4000])
    h = vf.build_harness("asan", "c18", xtp=True)
    if "expression" in wit:
        cmd = [h, "--expr", wit["expression"]]
    elif "pattern" in wit:
        cmd = [h, "--pattern", wit["pattern"], "--string",
               wit.get("string", "")]
    else:
        return 0
    res = vf.run_proc(cmd, env=vf.lib_env("asan"), timeout=300)
    print(res.out)
    if "expression" in wit:
        exp = wit.get("expected_sequence")
        for rec in res.records():
            for smp in rec.get("samples", []):
                got = smp.get("sequence_first24")
                if smp.get("iteration_exceeded_1e6_steps") or (
                        exp is not None and not smp.get("rejected") and
                        got != exp[:24]):
                    print("VIOLATION property=C18 replay=%s" % path)
                    return 1
        return 0
    if '"t":"violation"' in res.out:
        print("VIOLATION property=C18 replay=%s" % path)
        return 1
    return 0
