"""C19 table post-processing scripts (DESIGN.md §5 C19).

The real scripts under <repo>/csg/share/scripts/inverse are run with
`perl -w` (PERL5LIB = that directory; Perl warnings are captured as
observations), a share of the cases through the real `csg_call` dispatcher
(csg_table key lookup) with a stub `csg_property` on PATH, on generated table
files; outputs are parsed and compared with the closed forms of
lib/c19_oracle.py. csg_resample (asan flavour) is the differentiation half of
the integrate/differentiate pair.
"""
import hashlib
import os
import random
import re
import shutil

import vfcore as vf
import c19_oracle as orc

SCRIPTS = os.path.join(vf.REPO, "csg", "share", "scripts", "inverse")
CSG_CALL = os.path.join(vf.REPO, "csg", "scripts", "csg_call")
CSG_DEFAULTS = os.path.join(vf.REPO, "csg", "share", "xml", "csg_defaults.xml.in")

RULE = ("uniform grids of 3..1000 points (steps 0.001..0.1), smooth / noisy / "
        "rdf-like data with zero and undefined regions, flag columns with u/o "
        "flanks and holes, kT 0.1..10, every option of each script; one case = "
        "one script run (two for the integrate/differentiate pairs). Families: "
        "ibi (update_ibi_pot.pl), boltzmann (dist_boltzmann_invert.pl), "
        "linearop, combine, scale, integrate (against the exact integral of the "
        "generating function within the trapezoid bound), pair (table_integrate"
        " <-> csg_resample --derivative), shift, smooth, extrapolate. A case is "
        "non-trivial when the operation changes the table in the judged way "
        "(e.g. ibi: at least one updated and one continued point; integrate: "
        "integral > 10x the bound); distinct = sha1 of the input files + "
        "arguments. Added: compare (table compare = --die --op = [--error]), "
        "combine_nan, pipeline_* (linearop->combine->scale, linearop twice, "
        "scale twice, extrapolate->shift, smooth n times, integrate->linearop "
        "-1; the closed forms are composed), flag columns mixing i/o/u in all "
        "rows incl. first/last, nan entries in o/u rows, tables without flag "
        "column (sloppy), very long tables (5000..20000 rows, 1.5 % of the "
        "eligible cases); half of all cases get another spelling of the same "
        "input (comment lines # and @, blank lines, tabs/leading/trailing "
        "blanks, scientific notation). Every 4th eligible case (pipelines: "
        "every stage) goes through csg_call; csg_call --show and --help are "
        "checked for each covered key pair.")

OPTIONS_NOT_EXERCISED = [
    "csg_call: --options FILE (needs a real csg_property), --log, --ia-type, "
    "--ia-name, --debug, --nocolor (only via CSGNOCOLOR), --cat, -l/--list",
    "table_combine.pl: --error together with ops other than '=' (it has no "
    "meaning there), --die together with ops other than '='",
    "table_extrapolate.pl: --avgpoints larger than the valid region (reads "
    "outside the table)",
    "dist_boltzmann_invert.pl: --type with an unsupported name (documented die)",
    "table_integrate.pl: --with-errors error-propagation formula (values only "
    "required to be non-negative numbers)",
    "bundled short options (-fo style pre-parser shared by the scripts): only "
    "-h exists as a short option",
    "readin_table_err/saveto_table_err only through table_linearop.pl and "
    "table_integrate.pl --with-errors; readin_data (CsgFunctions.pm) is not "
    "used by any covered script",
]

WARN_RE = re.compile(r" at (\S+) line \d+")


class Run:
    def __init__(self):
        self.rc, self.out, self.err = 0, "", ""
        self.rc2, self.err2 = 0, ""
        self.files = {}
        self.cmds = []


def prebuild():
    vf.build_flavour("asan", ["votca_tools", "votca_csg", "csg_resample"])


def make_env(work):
    bindir = os.path.join(work, "bin")
    os.makedirs(bindir, exist_ok=True)
    stub = os.path.join(bindir, "csg_property")
    with open(stub, "w") as f:
        # csg_call only needs `csg_property --help` to succeed; none of the
        # table scripts queries a property
        f.write("#!/bin/sh\nexit 0\n")
    os.chmod(stub, 0o755)
    env = vf.lib_env("asan")
    env["PERL5LIB"] = SCRIPTS
    env["PATH"] = bindir + ":" + env.get("PATH", "")
    env["VOTCASHARE"] = os.path.join(vf.REPO, "csg", "share")
    env["VOTCA_CSG_DEFAULTS"] = CSG_DEFAULTS
    env["CSGNOCOLOR"] = "yes"
    env.pop("VOTCA_TABLES_WITHOUT_FLAG", None)
    env.pop("CSGXMLFILE", None)
    return env


def run_retry(cmd, env, cwd, timeout=300):
    """run_proc, repeated while the dynamic loader reports that a shared library
    is just being re-linked by a concurrent build of another check"""
    import time
    for attempt in range(8):
        r = vf.run_proc(cmd, env=env, cwd=cwd, timeout=timeout)
        if r.rc == 127 and "error while loading shared libraries" in r.err:
            time.sleep(3 + 2 * attempt)
            continue
        break
    return r


def run_case(case, d, env, resample):
    os.makedirs(d, exist_ok=True)
    for name, text in case.inputs.items():
        with open(os.path.join(d, name), "w") as f:
            f.write(text)
    run = Run()
    run.proc = []
    if case.env:
        env = dict(env)
        env.update(case.env)

    def command(script, args, keys, via):
        if via and keys:
            return ["bash", CSG_CALL] + list(case.csg_call_opts) + list(keys) + args
        return ["perl", "-w", os.path.join(SCRIPTS, script)] + args
    perl = ["perl", "-w", os.path.join(SCRIPTS, case.script)]
    if case.family == "pair":
        pr = case.pair
        rs = [resample, "--grid", pr["grid"]]
        if pr["order"] == "integrate_then_derive":
            c1 = perl + case.args + ["in.tab", "pot.tab"]
            c2 = rs + ["--in", "pot.tab", "--out", "res.tab", "--derivative",
                       "final.tab"]
        else:
            c1 = rs + ["--in", "in.tab", "--out", "res.tab", "--derivative",
                       "der.tab"]
            c2 = perl + case.args + ["der.tab", "final.tab"]
        r1 = run_retry(c1, env, d)
        run.rc, run.out, run.err = r1.rc, r1.out, r1.err
        run.cmds = [c1, c2]
        run.proc = [(c1, r1)]
        if r1.rc == 0 and not r1.timed_out:
            r2 = run_retry(c2, env, d)
            run.rc2, run.err2 = r2.rc, r2.err
            run.proc.append((c2, r2))
        else:
            run.rc2 = -1
    elif case.stages:
        # a pipeline: every stage reads what the previous one wrote; each
        # stage goes through csg_call when the case does
        for script, args, keys in case.stages:
            cmd = command(script, args, keys, case.via_csg_call)
            r1 = run_retry(cmd, env, d)
            run.cmds.append(cmd)
            run.proc.append((cmd, r1))
            run.out += r1.out
            run.err += r1.err
            if r1.rc != 0 or r1.timed_out:
                run.rc = r1.rc if r1.rc != 0 else -9
                break
    else:
        if case.via_csg_call:
            args = getattr(case, "csg_call_args", None)
            cmd = ["bash", CSG_CALL] + list(case.csg_call_opts) + \
                list(case.csg_call_keys) + (args if args is not None else case.args)
        else:
            cmd = perl + case.args
        r1 = run_retry(cmd, env, d)
        run.rc, run.out, run.err = r1.rc, r1.out, r1.err
        run.cmds = [cmd]
        run.proc = [(cmd, r1)]
    for name in case.outputs:
        p = os.path.join(d, name)
        if os.path.exists(p):
            with open(p, errors="replace") as f:
                run.files[name] = f.read()
    return run


def dispatch_and_help(chk, env, work):
    """(b) every key pair the families use resolves, through the real csg_call
    and csg_table, to the script the manual names; (c) --help / -h of every
    script, directly and through csg_call, prints a usage text and exits 0"""
    jobs = []
    for keys, script in sorted(orc.DISPATCH.items()):
        jobs.append(("show", keys, script,
                     ["bash", CSG_CALL, "--show"] + list(keys)))
        jobs.append(("help_via_csg_call", keys, script,
                     ["bash", CSG_CALL] + list(keys) + ["--help"]))
    for sc in orc.HELP_SCRIPTS:
        for opt in ("--help",) + (("-h",) if sc not in (
                "update_ibi_pot.pl", "table_smooth.pl") else ()):
            jobs.append(("help", None, sc,
                         ["perl", "-w", os.path.join(SCRIPTS, sc), opt]))
    results = vf.run_parallel(
        [lambda c=j[3]: run_retry(c, env, work, 120) for j in jobs])
    for (kind, keys, script, cmd), r in zip(jobs, results):
        wit = {"command": " ".join(cmd), "rc": r.rc, "stdout": r.out[-600:],
               "stderr": r.err[-600:]}
        if r.timed_out:
            chk.inconclusive.append("watchdog: " + " ".join(cmd))
            continue
        if kind == "show":
            chk.count("dispatch_show", 1, nontrivial=1)
            got = r.out.strip().splitlines()[-1].strip() if r.out.strip() else ""
            exp = os.path.join(SCRIPTS, script.split()[0]) + script[len(script.split()[0]):]
            if r.rc != 0 or got != exp:
                wit["expected"] = exp
                wit["got"] = got
                chk.violation("dispatch/key-pair-resolves-to-other-script", wit,
                              "csg_call --show %s %s does not name the script "
                              "the manual gives for this key pair" % keys)
        else:
            chk.count("help_text", 1, nontrivial=1)
            text = r.out + r.err
            if r.rc != 0 or "Usage" not in text and "usage" not in text:
                chk.violation("help/no-usage-text", wit, "the script's help "
                              "option does not print a usage text with exit 0")
    chk.extra["dispatch_pairs_checked"] = [" ".join(k) for k in sorted(orc.DISPATCH)]


def run(chk):
    shards = 16
    ncases = vf.tier_n(chk.tier, 640, 16000)
    vf.build_flavour("asan", ["votca_tools", "votca_csg", "csg_resample"])
    resample = vf.exe("asan", "csg_resample")
    work = vf.scratch_dir("C19")
    env = make_env(work)
    chk.rule = RULE
    chk.sanitizer = {"flavour": "asan (csg_resample only)", "reports": 0}
    sched = orc.schedule()
    variant_counts = {}
    dispatch_and_help(chk, env, work)

    def shard(s):
        results = []
        for idx in range(s, ncases, shards):
            rng = random.Random("%d/%d" % (chk.seed, idx))
            name, gen = sched[idx % len(sched)]
            try:
                case = gen(rng)
                orc.vary_inputs(rng, case, variant_counts)
            except Exception:
                import traceback
                results.append((idx, None, None, None,
                                "generator error in %s #%d: %s" % (
                                    name, idx, traceback.format_exc()[-500:])))
                continue
            # a share of the eligible cases goes through the csg_call dispatcher
            # ('*' is glob-expanded by csg_call - its help offers 'x' for that;
            # a table compare that must die takes csg_call's die path: the
            # exit status is all that is judged there)
            stage_keys = [k for _, _, k in case.stages] if case.stages else []
            eligible = bool(case.csg_call_keys) or (stage_keys and all(stage_keys))
            case.via_csg_call = bool(eligible) and \
                (idx // len(sched)) % 4 == 3 and "*" not in case.args and \
                not any("*" in a for st in (case.stages or []) for a in st[1])
            d = os.path.join(work, "c%d" % idx)
            try:
                r = run_case(case, d, env, resample)
                v = case.judge(case, r)
            except Exception as e:      # oracle bug: never a verdict
                import traceback
                results.append((idx, case, None, None,
                                "oracle error in %s #%d: %s" % (
                                    name, idx, traceback.format_exc()[-600:])))
                continue
            results.append((idx, case, r, v, None))
            shutil.rmtree(d, ignore_errors=True)
        return results

    scripts = {}
    via = 0
    seen = set()
    warn_samples = []
    maxes = {}
    for res in vf.run_parallel([lambda s=s: shard(s) for s in range(shards)]):
        for idx, case, r, v, oops in res:
            if oops:
                chk.inconclusive.append(oops)
                continue
            witness = {"family": case.family, "case_index": idx,
                       "seed": chk.seed, "info": case.info,
                       "commands": [" ".join(c) for c in r.cmds],
                       "env": "PERL5LIB=%s" % SCRIPTS,
                       "inputs": {k: t if len(t) < 6000 else t[:6000] + "...(cut)"
                                  for k, t in case.inputs.items()}}
            crashed = False
            for pcmd, pr in r.proc:
                if pr.timed_out:
                    chk.inconclusive.append("watchdog: %s #%d" % (case.family, idx))
                    crashed = True
                elif pr.rc == 127 and "loading shared libraries" in pr.err:
                    chk.inconclusive.append("libraries were being rebuilt "
                                            "during %s #%d" % (case.family, idx))
                    crashed = True
                elif pcmd[0] == resample and pr.rc != 0 and \
                        vf.sanitizer_key(pr.err):
                    chk.proc_result(pr, "csg_resample (%s #%d)" % (case.family, idx),
                                    witness, expect_rc=())
                    chk.sanitizer["reports"] += 1
                    crashed = True
            if crashed:
                continue
            h = hashlib.sha1(repr((sorted(case.inputs.items()), case.args,
                                   case.script)).encode()).hexdigest()
            nt = 1 if (v.nontrivial and h not in seen) else 0
            seen.add(h)
            fam = case.family
            if fam == "pair":
                fam = "pair_" + case.pair["order"]
            if fam == "pipeline":
                fam = "pipeline_" + case.info["kind"]
            chk.count(fam, 1, nontrivial=nt)
            stage_list = case.stages or [(case.script, case.args,
                                          case.csg_call_keys)]
            for sc, _a, keys in stage_list:
                scripts[sc] = scripts.get(sc, 0) + 1
                if case.via_csg_call and keys:
                    k = "csg_call " + " ".join(keys)
                    scripts[k] = scripts.get(k, 0) + 1
            if fam.startswith("pair"):
                scripts["csg_resample --derivative"] = \
                    scripts.get("csg_resample --derivative", 0) + 1
            if case.via_csg_call:
                via += 1
            if case.env:
                chk.counters["sloppy_tables_without_flag_column"] = \
                    chk.counters.get("sloppy_tables_without_flag_column", 0) + 1
            if case.info.get("with_nan_entries") or case.info.get("nan_flanks"):
                chk.counters["cases_with_nan_entries"] = \
                    chk.counters.get("cases_with_nan_entries", 0) + 1
            if case.info.get("n", 0) >= 5000:
                chk.counters["very_long_tables"] = \
                    chk.counters.get("very_long_tables", 0) + 1
            for k, n in v.counters.items():
                chk.counters[k] = chk.counters.get(k, 0) + n
            for k, m in v.maxes.items():
                maxes[k] = max(maxes.get(k, 0), m)
            # Perl warnings are observations
            if r.rc == 0:
                for ln in (r.err + r.err2).splitlines():
                    m = WARN_RE.search(ln)
                    if m and ("Use of" in ln or "isn't numeric" in ln or
                              "uninitialized" in ln or "Illegal" in ln):
                        k = "perl_warnings/" + os.path.basename(case.script)
                        chk.counters[k] = chk.counters.get(k, 0) + 1
                        if len(warn_samples) < 5 and ln not in warn_samples:
                            warn_samples.append(ln.strip()[:200])
            for key, what, extra in v.violations:
                w = dict(witness)
                w.update(extra)
                w["stderr"] = (r.err + r.err2)[-800:]
                chk.violation(key, w, what)
            if v.sample and not v.violations and idx % 7 == 3:
                s = dict(v.sample)
                s["command"] = " ".join(r.cmds[0])
                chk.sample(s)
    chk.counters.update(maxes)
    chk.counters.update(variant_counts)
    chk.extra["options_not_exercised"] = OPTIONS_NOT_EXERCISED
    chk.extra["scripts_covered"] = scripts
    chk.extra["cases_through_csg_call"] = via
    chk.extra["perl_warning_samples"] = warn_samples
    chk.assumptions = [
        "no sanitizer applies to the Perl/bash interpreters: the monitor for "
        "the scripts is the reference model plus captured `perl -w` warnings; "
        "only csg_resample runs under ASan/UBSan",
        "csg_call is run from the source tree with VOTCASHARE=<repo>/csg/share, "
        "VOTCA_CSG_DEFAULTS=csg_defaults.xml.in and a stub csg_property on PATH "
        "(start_framework.sh insists on one; no table script queries a property)",
        "values within (0, 1e-10] (the scripts' positivity threshold), points "
        "whose potential flag is u, and the side from which an undefined point "
        "of update_ibi_pot.pl is continued are accepted either way",
        "dist_boltzmann_invert.pl refusing tables whose first valid run is "
        "shorter than 12 points is accepted (its own documented sanity check)",
        "error columns (--with-errors) are only required to be non-negative "
        "numbers (linearop: |a|*err)",
        "table_smooth.pl has no formula in its help text: judged are grid/flag "
        "preservation, every value within the range of its 3-point "
        "neighbourhood, non-increasing total variation for all-i tables",
        "pair bounds: |d/dr trapezoid(f) - f| <= %.1f h^2 max|f''|, "
        "|trapezoid(akima'(f)) - (f - f_zero)| <= %.1f L h^2 max|f'''| for "
        "grid-resolved generating functions (k*h <= 0.25)" % (
            orc.PAIR_C_INT_DER, orc.PAIR_C_DER_INT)]
    shutil.rmtree(work, ignore_errors=True)


def replay(path):
    """re-generate the case of a witness (seed + case index), run it again on
    the current tree and print the verdict"""
    import json
    w = json.load(open(path))
    wit = w["witness"]
    seed, idx = int(wit["seed"]), int(wit["case_index"])
    vf.build_flavour("asan", ["votca_tools", "votca_csg", "csg_resample"])
    work = vf.scratch_dir("C19replay")
    env = make_env(work)
    sched = orc.schedule()
    rng = random.Random("%d/%d" % (seed, idx))
    name, gen = sched[idx % len(sched)]
    case = gen(rng)
    orc.vary_inputs(rng, case, {})
    case.via_csg_call = any("csg_call" in c for c in wit.get("commands", []))
    r = run_case(case, os.path.join(work, "c"), env, vf.exe("asan", "csg_resample"))
    v = case.judge(case, r)
    print("case %s #%d seed %d: %s" % (name, idx, seed, case.info))
    for c in r.cmds:
        print("  ran: " + " ".join(c))
    print("  rc=%s stderr=%s" % (r.rc, (r.err + r.err2).strip()[-300:]))
    rc = 0
    for key, what, extra in v.violations:
        print("VIOLATION property=C19 replay=%s key=%s %s %s" % (
            path, key, what, json.dumps(extra, default=str)[:600]))
        rc = 1
    if rc == 0:
        print("C19 replay: no violation on the current tree")
    shutil.rmtree(work, ignore_errors=True)
    return rc
