"""C14 KMC event selection is rate-proportional; Marcus rates obey detailed
balance; waiting times are exponential. Library monitor on the stand-alone xtp
subset under ASan/UBSan."""
import vfcore as vf

RULE = ("trees: event lists of length 1..100 (odd and even, 10% of length 1..4, "
        "10% of 95..100; last event a decay event in 10%), rate families equal / "
        "12 orders of magnitude / two scales / ascending / geometric / one "
        "dominant / duplicates / powers of two / uniform, absolute scale "
        "1e-3..1e15; 3 of 4 trees through GNode::AddEvent/InitEscapeRate/"
        "MakeHuffTree/findHoppingDestination, 1 of 4 through huffmanTree<T> with "
        "an own event type. Oracle: exact measure - the node thresholds are read "
        "(private access in the harness TU), the lookup is evaluated at 0, 1, "
        "every threshold and its two neighbouring doubles and at every interval "
        "mid-point; per event the summed interval length must equal rate/sum "
        "(1e-12 relative + 2 ulp per threshold), every probe must return an "
        "event of this node, escape rate = sum. A tree is non-trivial with >= 3 "
        "events; distinct = hash of the rate list. Rebuilt trees (keys "
        "tree-rebuilt/*): histories on ONE GNode / huffmanTree object, build "
        "(1..60 events) -> probe -> 1..4 times {add events: one decay-like, one "
        "comparable, 2..6, one 1e3..1e9 x larger, one 1e-9..1e-3 x smaller, one "
        "equal to an existing one; InitEscapeRate; MakeHuffTree (direct: "
        "setEvents + makeTree)} -> probe again with the same exact-measure "
        "oracle over ALL current events, escape rate = sum of all current "
        "rates (the KMCLifetime path: LoadGraph, then a decay event per site "
        "and a rebuild). Marcus: T 10..2000 K, lambda "
        "0.005..2 eV split over the two segments (same type or balanced so that "
        "forward = backward), dE up to ~1 eV, fields 0 or 1e5..2e9 V/m in any "
        "direction (15% along the hop), |R| 0.2..3 nm, J 1e-7..0.1 eV, "
        "electron/hole/singlet/triplet. Oracle in long double: both rates "
        "positive, k(c*J2)/k(J2) = c, ln(k12/k21) = -(E2-E1-qF.R)/kT; cases whose "
        "Marcus exponent exceeds 600 (double underflow) are counted, not judged. "
        "Non-trivial: |qF.R| and |dE| > 1e-3 kT (or an exciton state). Waiting "
        "time: KMCCalculator::Promotetime through a derived class, mirrored "
        "tools::Random sequence (exact) and KS test on fixed seeds.")

KMC_SOURCES = ["kmccalculator", "topology", "qmnblist", "qmstate"]
_kmc = None


def _harness():
    """with kmccalculator.cc (+ the three xtp files it needs) when that links
    stand-alone, without the waiting-time part otherwise"""
    global _kmc
    src = [vf.VERIF + "/harness/c14.cc"]
    if _kmc is not False:
        try:
            h = vf.build_harness(
                "asan", "c14", sources=src + [
                    "%s/xtp/src/libxtp/%s.cc" % (vf.REPO, s)
                    for s in KMC_SOURCES], xtp=True, flags="-DC14_WITH_KMC")
            _kmc = True
            return h
        except vf.HarnessFailure as e:
            vf.log("c14: kmccalculator.cc does not link stand-alone, the "
                   "waiting-time clause will be reported as not observed: "
                   + str(e)[-400:])
            _kmc = False
    return vf.build_harness("asan", "c14nokmc", sources=src, xtp=True)


def prebuild():
    _harness()


def run(chk):
    h = _harness()
    env = vf.lib_env("asan")
    shards = 16
    ntree = vf.tier_n(chk.tier, 5000, 200000)
    nrate = vf.tier_n(chk.tier, 10000, 1000000)
    nreb = vf.tier_n(chk.tier, 2000, 60000)
    nouter = vf.tier_n(chk.tier, 300, 3000)
    nwait = vf.tier_n(chk.tier, 100, 2000)
    chk.rule = RULE
    chk.sanitizer = {"flavour": "asan", "reports": 0}

    def job(mode, s, n):
        return lambda: vf.run_proc(
            [h, "--mode", mode, "--seed", str(chk.seed), "--shard", str(s),
             "--n", str(n)], env=env, timeout=3000)
    jobs, names = [], []
    for s in range(shards):
        jobs.append(job("tree", s, (ntree + shards - 1) // shards))
        names.append("c14 tree shard %d" % s)
    for s in range(shards):
        jobs.append(job("marcus", s, (nrate + shards - 1) // shards))
        names.append("c14 marcus shard %d" % s)
    for s in range(shards):
        jobs.append(job("rebuilt", s, (nreb + shards - 1) // shards))
        names.append("c14 rebuilt-tree shard %d" % s)
    jobs.append(job("lambda_outer", 0, nouter))
    names.append("c14 marcus with outer-sphere lambda")
    jobs.append(job("waiting", 0, nwait))
    names.append("c14 waiting time")
    for name, res in zip(names, vf.run_parallel(jobs)):
        if not chk.ingest(res, name):
            chk.sanitizer["reports"] += 0 if res.rc == 0 else 1
    chk.extra["thresholds_probed"] = chk.counters.get("thresholds_probed", 0)
    chk.extra["waiting_time_clause"] = (
        "observed (kmccalculator.cc + %s compiled as extra harness sources; "
        "QMCalculator::EvaluateFrame/Initialize stubbed in the harness because "
        "qmcalculator.cc needs libint2)" % ", ".join(KMC_SOURCES[1:])
        if _kmc else "NOT OBSERVED: kmccalculator.cc does not link stand-alone")
    chk.assumptions = [
        "field-term sign convention of DESIGN.md §5 C14: the energy of a charge "
        "q in a uniform field is -qF.r, R = QMPair::R() points from site 1 to "
        "site 2, so the judged relation is k12/k21 = exp(-(E2-E1-qF.R)/kT)",
        "which side owns p exactly equal to a threshold is not judged (measure "
        "zero); it is counted",
        "'equal forward/backward reorganisation energy' is realised through the "
        "segment energies U_nX_nN/U_xN_xX; a non-zero outer-sphere lambda "
        "(QMPair::setLambdaO, direction independent) is a separate family "
        "with its own keys marcus-outer-sphere-lambda/*",
        "KS test uses fixed Random seeds (p > 1e-6), the mirror comparison uses "
        "VERIF_SEED-derived seeds and is exact",
    ]
