"""C13 histograms: shadow-histogram monitor for HistogramNew and the legacy
Histogram (library, asan flavour) + csg_density --axis x|y|z on unwrapped
coordinates (executable, asan flavour). See DESIGN.md §5 C13."""
import math
import os
import random
import shutil

import vfcore as vf

RULE = ("HistogramNew: random (min,max,nbins) incl. nbins=1, min<0, min>0, "
        "periodic and not; value mix: inside, on centres, on bin edges, just "
        "outside, up to 1e6 ranges away, images of inside values, exact "
        "multiples of the length; weights 1, positive, mixed sign, 12 orders "
        "of magnitude. Shadow histogram in long double; a value within "
        "1e-9+1e-12*|t| (t in bin units) of a bin edge is accepted in either "
        "neighbour. A histogram case is non-trivial when it contains values "
        "outside [min,max] and accepted values; distinct = hash(min,max,nbins,"
        "periodic,first values). Suspected-defect families (periodic value "
        "below the range whose bin is congruent 0; bin index beyond 64 bit; "
        "legacy extreme values) run one case per forked child. Legacy "
        "Histogram: automatic range on positive / mixed / all-negative data, "
        "explicit range (periodic and not), bond and angle scalings on "
        "physical data. csg_density: XML topology + .gro frames with "
        "unwrapped coordinates (up to +-150 box lengths), axis x|y|z, mass "
        "and number density, oracle recomputed from the printed digits; "
        "reuse family: ONE HistogramNew object driven through scripts of "
        "Initialize / fill / Normalize / Clear / re-Initialize (other range, "
        "bin count, periodic flag) steps (FN, FNCFN, FCFN, FIFN, FNN, FNFN, "
        "... and random scripts), shadow histogram compared after every "
        "step, non-trivial when a Clear or re-Initialize precedes a "
        "Normalize; legacy Histogram: second ProcessData on the same object "
        "against a fresh object. csg_boltzmann session family: the real "
        "executable (--no-map, xml topology with bond/angle/dihedral groups, "
        "generated .gro) is fed random command sequences: hist/tab set "
        "n|min|max|periodic|auto|extend|normalize|scale (30% redundant "
        "settings, auto 1->0->1 toggles, ranges cutting the data on one or "
        "both sides, a motif 'auto 1 ... min/max ... auto 0' with extend "
        "never touched), tab set T / smooth, each followed by both option "
        "listings, interleaved with hist/tab outputs; oracle = python model "
        "of the legacy Histogram for the options in force (range, half-step "
        "acceptance, extend, end-point merge in periodic mode, scaling, "
        "normalisation, Boltzmann inversion) on values the model computes "
        "from the printed trajectory digits (cross-checked against `vals`); "
        "an output is non-trivial when values are discarded or >= 3 options "
        "were set before. A csg_density "
        "run is non-trivial when at least one bead lies outside [0,L).")


def _sources():
    return [os.path.join(vf.VERIF, "harness", "c13.cc"),
            os.path.join(vf.REPO, "tools/src/libtools/histogramnew.cc"),
            os.path.join(vf.REPO, "tools/src/libtools/histogram.cc")]


def _build():
    # gcc folds (Index)floor(x) into lfloor at -O1 *before* the
    # float-cast-overflow instrumentation, so the flavour-wide flag does not
    # observe the histogram index casts. As DESIGN §2.1 foresees, the monitor
    # therefore links its own build of the two real translation units (same
    # sources from the repo, same flavour flags) with -fno-builtin-floor,
    # which keeps the cast visible to UBSan.
    return vf.build_harness("asan", "c13", sources=_sources(),
                            flags="-fno-builtin-floor")


def prebuild():
    _build()
    vf.build_flavour("asan", ["csg_density", "csg_boltzmann"])


# ---------------------------------------------------------------------------
# csg_density
# ---------------------------------------------------------------------------

def _gro_frame(names, coords, box, title="frame"):
    out = [title, "%5d" % len(coords)]
    for i, (nm, c) in enumerate(zip(names, coords)):
        out.append("%5d%-5s%5s%5d%8.3f%8.3f%8.3f%8.4f%8.4f%8.4f" %
                   (nm[0], "MOL", nm[1], (i + 1) % 100000, c[0], c[1], c[2],
                    0.0, 0.0, 0.0))
    out.append("%10.5f%10.5f%10.5f" % tuple(box))
    return "\n".join(out) + "\n"


def _density_case(rng, wrap_family):
    """generate one csg_density case (dict)"""
    nbeads_per_mol = rng.randint(1, 3)
    nmols = rng.randint(1, 25)
    masses = [round(rng.uniform(0.5, 40.0), 3) for _ in range(nbeads_per_mol)]
    box = [round(rng.uniform(1.0, 6.0), rng.choice([0, 1, 2, 3]))
           for _ in range(3)]
    axis = rng.choice("xyz")
    ai = "xyz".index(axis)
    L = box[ai]
    nb = rng.choice([1, 2, 3, 4, 5, 8, 10, 16, 20, 25, 40, 50])
    step = L / nb
    if rng.random() < 0.5:
        step = round(step * rng.uniform(1.0, 1.3), 4)
    nframes = rng.randint(1, 3)
    dtype = rng.choice(["mass", "number"])
    scale = rng.choice([1.0, 1.0, 0.5, 3.0])
    frames = []
    for _ in range(nframes):
        coords = []
        for _m in range(nmols * nbeads_per_mol):
            c = []
            for k in range(3):
                far = rng.random()
                if far < 0.5:
                    span = 3
                elif far < 0.9:
                    span = 20
                else:
                    span = min(150, int(900 / box[k]))
                v = rng.uniform(-span * box[k], (span + 1) * box[k])
                how = rng.random()
                if how < 0.1:   # exactly on a lattice image of a bin centre
                    v = rng.randint(-span * nb, span * nb) * box[k] / nb
                elif how < 0.2:  # on a bin edge
                    v = (rng.randint(-span * nb, span * nb) + 0.5) * box[k] / nb
                c.append(max(-999.0, min(9999.0, v)))
            coords.append(c)
        frames.append(coords)
    return dict(nbeads_per_mol=nbeads_per_mol, nmols=nmols, masses=masses,
                box=box, axis=axis, step=step, frames=frames, dtype=dtype,
                scale=scale, wrap_family=wrap_family)


def _cls(t):
    """admissible raw bin indices of a value at t bins from the origin"""
    k = math.floor(t + 0.5)
    f = t + 0.5 - k
    band = 1e-9 + 1e-12 * abs(t)
    c = [k]
    if f < band:
        c.append(k - 1)
    if f > 1 - band:
        c.append(k + 1)
    return c


def _run_density(chk, case, wd, idx, env, exe):
    """returns (ok_process, dict) - judged by _judge_density"""
    d = os.path.join(wd, "d%d" % idx)
    os.makedirs(d, exist_ok=True)
    nb = case["nbeads_per_mol"]
    top = ['<topology>', ' <molecules>',
           '  <molecule name="MOL" nmols="%d" nbeads="%d">' %
           (case["nmols"], nb)]
    for k in range(nb):
        top.append('   <bead name="B%d" type="T%d" mass="%r"/>' %
                   (k, k, case["masses"][k]))
    top += ['  </molecule>', ' </molecules>', '</topology>']
    open(os.path.join(d, "top.xml"), "w").write("\n".join(top) + "\n")
    names = [(m + 1, "B%d" % k) for m in range(case["nmols"])
             for k in range(nb)]
    gro = "".join(_gro_frame(names, fr, case["box"]) for fr in case["frames"])
    open(os.path.join(d, "traj.gro"), "w").write(gro)
    cmd = [exe, "--top", "top.xml", "--trj", "traj.gro", "--axis",
           case["axis"], "--step", repr(case["step"]), "--out", "dens.out",
           "--type", case["dtype"], "--scale", repr(case["scale"])]
    res = vf.run_proc(cmd, env=env, cwd=d, timeout=300)
    return res, d, gro


def _parse_gro_axis(gro, ai, natoms):
    """the printed digits, as the reader sees them"""
    vals = []
    lines = gro.splitlines()
    p = 0
    while p < len(lines):
        n = int(lines[p + 1])
        fr = []
        for ln in lines[p + 2:p + 2 + n]:
            fr.append(float(ln[20 + 8 * ai:28 + 8 * ai]))
        vals.append(fr)
        box = [float(x) for x in lines[p + 2 + n].split()]
        p += n + 3
    return vals, box


def _judge_density(chk, case, res, d, gro, idx):
    ai = "xyz".index(case["axis"])
    wit = {"case": {k: v for k, v in case.items() if k != "frames"},
           "top.xml": open(os.path.join(d, "top.xml")).read(),
           "traj.gro": gro,
           "cmd": "csg_density --top top.xml --trj traj.gro --axis %s --step "
                  "%r --out dens.out --type %s --scale %r" %
                  (case["axis"], case["step"], case["dtype"], case["scale"])}
    fam = "csg_density_wrap_congruent_zero" if case["wrap_family"] else \
        "csg_density_unwrapped"
    if case["wrap_family"]:
        if res.timed_out:
            chk.inconclusive.append("watchdog: csg_density wrap case")
            return
        if res.rc != 0:
            chk.count(fam, 1, nontrivial=1)
            chk.counters["csg_density_wrap_family_aborts"] = \
                chk.counters.get("csg_density_wrap_family_aborts", 0) + 1
            key = vf.sanitizer_key(res.err) or ""
            wit["stderr_tail"] = res.err[-3000:]
            wit["sanitizer_key"] = key
            chk.violation("csg_density/periodic-wrap-index", wit,
                          "csg_density --axis %s aborts on an unwrapped "
                          "coordinate whose bin is congruent 0 below the box "
                          "(rc %s)" % (case["axis"], res.rc))
            return
    elif not chk.proc_result(res, "csg_density case %d" % idx, wit):
        return
    vals, box = _parse_gro_axis(gro, ai, 0)
    L = box[ai]
    area = box[(ai + 1) % 3] * box[(ai + 2) % 3]
    rows = []
    for ln in open(os.path.join(d, "dens.out")):
        f = ln.split()
        if len(f) >= 2 and not ln.startswith("#"):
            rows.append((float(f[0]), float(f[1])))
    nbin = len(rows)
    if nbin == 0:
        chk.violation("csg_density/no-output", wit, "empty density table")
        return
    hstep = L / nbin
    nframes = len(vals)
    nb = case["nbeads_per_mol"]
    lo = [0.0] * nbin
    hi = [0.0] * nbin
    total = 0.0
    outside = 0
    for fr in vals:
        for i, x in enumerate(fr):
            w = case["masses"][i % nb] if case["dtype"] == "mass" else 1.0
            total += w
            t = x / hstep
            if x < 0 or x >= L:
                outside += 1
            outs = sorted(set(k % nbin for k in _cls(t)))
            if len(outs) == 1:
                lo[outs[0]] += w
                hi[outs[0]] += w
            else:
                for o in outs:
                    hi[o] += w
    fac = case["scale"] / (nframes * area * hstep)   # density per unit hist
    chk.count(fam, 1, nontrivial=1 if outside else 0)
    tol = 1e-5 * max(total * fac, 1e-30)   # printed digits of the table
    bad = None
    ssum = 0.0
    for k, (x, y) in enumerate(rows):
        ssum += y
        if abs(x - k * hstep) > 1e-5 * max(L, 1.0):
            bad = ("csg_density/bin-centres", "bin centre %d is %r, expected "
                   "%r" % (k, x, k * hstep))
            break
        if y < lo[k] * fac - tol or y > hi[k] * fac + tol:
            bad = ("csg_density/bin-content", "bin %d holds %r, shadow "
                   "histogram expects [%r, %r]" %
                   (k, y, lo[k] * fac, hi[k] * fac))
            break
    if not bad and abs(ssum - total * fac) > nbin * tol:
        bad = ("csg_density/conservation", "sum of the density table %r != "
               "total weight %r (all beads wrapped into the box)" %
               (ssum, total * fac))
    if bad:
        wit["dens.out"] = open(os.path.join(d, "dens.out")).read()
        chk.violation(bad[0], wit, bad[1])
    elif len(chk.samples) < 6 and idx % 7 == 0:
        chk.sample({"csg_density": wit["cmd"], "box": box, "nbin": nbin,
                    "beads_outside_box": outside,
                    "sum_table": ssum, "expected_sum": total * fac})


def _nbins(L, step):
    """bin counts the program may derive as floor(L/step)"""
    q = L / step
    c = {int(math.floor(q))}
    if abs(q - round(q)) < 1e-9 * max(1.0, abs(q)):
        c |= {int(round(q)), int(round(q)) - 1}
    return [n for n in c if n >= 1]


def _trig(x, L, step):
    """is x (within the band) in a bin below zero that is congruent 0?"""
    for nbin in _nbins(L, step):
        if nbin == 1 and x < 0:
            return True   # a single periodic bin has step 1 in the code
        for k in _cls(x / (L / nbin)):
            if k < 0 and k % nbin == 0:
                return True
    return False


def _axis_values(case):
    ai = "xyz".index(case["axis"])
    L = float("%10.5f" % case["box"][ai])
    return ai, L


def _has_trigger(case):
    ai, L = _axis_values(case)
    if not _nbins(L, case["step"]):
        return None
    return any(_trig(float("%8.3f" % p[ai]), L, case["step"])
               for fr in case["frames"] for p in fr)


def _density(chk, wd):
    rng = random.Random(1000003 * chk.seed + 17)
    n_general = vf.tier_n(chk.tier, 200, 1500)
    n_wrap = vf.tier_n(chk.tier, 24, 120)
    exe = vf.exe("asan", "csg_density")
    env = vf.lib_env("asan")
    cases = []
    moved = 0
    while len(cases) < n_general:
        c = _density_case(rng, False)
        ai, L = _axis_values(c)
        nbs = _nbins(L, c["step"])
        if not nbs:
            continue
        # coordinates of the suspected-defect family are moved by one bin
        # (they are exercised in the wrap family, one process per case)
        for fr in c["frames"]:
            for p in fr:
                tries = 0
                while _trig(float("%8.3f" % p[ai]), L, c["step"]):
                    moved += 1
                    tries += 1
                    p[ai] = abs(p[ai]) if (min(nbs) == 1 or tries > 5) \
                        else p[ai] + L / max(nbs)
        if _has_trigger(c):
            continue
        cases.append(c)
    chk.counters["csg_density_coordinates_moved_to_wrap_family"] = moved
    nw = 0
    while nw < n_wrap:
        c = _density_case(rng, True)
        ai, L = _axis_values(c)
        # one bead exactly m box lengths below the origin, everything else
        # inside the box
        for fr in c["frames"]:
            for p in fr:
                p[ai] = rng.uniform(0.02 * L, 0.98 * L)
        m = rng.randint(1, max(1, min(100, int(900 / L))))
        c["frames"][0][0][ai] = -m * L
        c["periods_below"] = m
        if _has_trigger(c) is not True:
            continue
        cases.append(c)
        nw += 1
    jobs = [lambda c=c, i=i: _run_density(chk, c, wd, i, env, exe)
            for i, c in enumerate(cases)]
    for i, (c, (res, d, gro)) in enumerate(zip(cases, vf.run_parallel(jobs))):
        _judge_density(chk, c, res, d, gro, i)



# ---------------------------------------------------------------------------
# csg_boltzmann sessions (legacy Histogram behind persistent `hist set` /
# `tab set` option sets)
# ---------------------------------------------------------------------------

_BS_DEFAULT = {"n": 101, "min": 0.0, "max": 1.0, "periodic": 0, "auto": 1,
               "extend": 0, "scale": "no", "normalize": 1}
_BS_ORDER = ["n", "min", "max", "periodic", "auto", "extend", "scale",
             "normalize"]
_BS_KB = 8.314462618e-3   # kJ/(mol K)
# periodic mode with a fixed range narrower than the data: the model wraps
# modulo the length of the range (n-1 bins, the two end bins are one point)
_BS_WRAPKEY = "boltzmann-session/periodic-wrap-outside-range"

_BS_TOP = """<topology>
 <molecules>
  <molecule name="TET" nmols="%d" nbeads="4">
   <bead name="A" type="A" mass="1" q="0" />
   <bead name="B" type="A" mass="1" q="0" />
   <bead name="C" type="A" mass="1" q="0" />
   <bead name="D" type="A" mass="1" q="0" />
  </molecule>
 </molecules>
 <bonded>
  <bond>
   <name>bond</name>
   <beads>
    TET:A TET:B
    TET:B TET:C
    TET:C TET:D
   </beads>
  </bond>
  <angle>
   <name>angle</name>
   <beads>
    TET:A TET:B TET:C
    TET:B TET:C TET:D
   </beads>
  </angle>
  <dihedral>
   <name>dih</name>
   <beads>
    TET:A TET:B TET:C TET:D
   </beads>
  </dihedral>
 </bonded>
</topology>
"""


def _v3(a, b, box):
    """minimum-image b - a (orthorhombic)"""
    d = [b[k] - a[k] for k in range(3)]
    return [d[k] - box[k] * round(d[k] / box[k]) for k in range(3)]


def _dot(a, b):
    return a[0] * b[0] + a[1] * b[1] + a[2] * b[2]


def _cross(a, b):
    return [a[1] * b[2] - a[2] * b[1], a[2] * b[0] - a[0] * b[2],
            a[0] * b[1] - a[1] * b[0]]


def _bs_values(frames, box):
    """bond lengths, angles and dihedrals of every TET molecule and frame,
    computed from the printed digits of the trajectory"""
    vals = {"bond": [], "angle": [], "dih": []}
    for fr in frames:
        for m in range(0, len(fr), 4):
            a, b, c, d = fr[m:m + 4]
            v1, v2, v3 = _v3(a, b, box), _v3(b, c, box), _v3(c, d, box)
            for v in (v1, v2, v3):
                vals["bond"].append(math.sqrt(_dot(v, v)))
            for p, q in ((v1, v2), (v2, v3)):
                # angle at the middle bead between the two bonds leaving it
                mp = [-x for x in p]
                cs = _dot(mp, q) / math.sqrt(_dot(p, p) * _dot(q, q))
                vals["angle"].append(math.acos(max(-1.0, min(1.0, cs))))
            n1, n2 = _cross(v1, v2), _cross(v2, v3)
            cs = _dot(n1, n2) / math.sqrt(_dot(n1, n1) * _dot(n2, n2))
            sg = -1.0 if _dot(v1, n2) < 0 else 1.0
            vals["dih"].append(sg * math.acos(max(-1.0, min(1.0, cs))))
    return vals


def _bs_model(values, o):
    """documented semantics of the legacy Histogram for option set o.
    Returns dict(lo, hi, interval, pdf | None, accepted_lo, accepted_hi,
    ambiguous, singular, wrapped_outside, empty)"""
    n = o["n"]
    dmin, dmax = min(values), max(values)
    if o["auto"]:
        lo, hi = dmin, dmax
    else:
        lo, hi = o["min"], o["max"]
        if o["extend"]:
            lo, hi = min(lo, dmin), max(hi, dmax)
    iv = (hi - lo) / (n - 1)
    r = {"lo": lo, "hi": hi, "interval": iv, "pdf": None, "ambiguous": 0,
         "singular": False, "wrapped_outside": 0, "discarded": 0}
    cnt = [0.0] * n
    acc_lo = acc_hi = 0
    for v in values:
        ks = _cls((v - lo) / iv)
        outs = set()
        for k in ks:
            if 0 <= k < n:
                outs.add(k)
            elif o["periodic"]:
                # the two end points are the same point: period = n-1 bins
                outs.add(k % (n - 1))
            else:
                outs.add(None)
        if any(not (0 <= k < n) for k in ks) and o["periodic"]:
            r["wrapped_outside"] += 1
        if len(outs) > 1:
            r["ambiguous"] += 1
            acc_hi += 1
            if None not in outs:
                acc_lo += 1
            continue
        k = outs.pop()
        if k is None:
            r["discarded"] += 1
            continue
        cnt[k] += 1
        acc_lo += 1
        acc_hi += 1
    r["accepted_lo"], r["accepted_hi"] = acc_lo, acc_hi
    pdf = cnt[:]
    sing = [False] * n
    if o["scale"] == "bond":
        for i in range(n):
            x = lo + iv * i
            if abs(x) < 1e-9:
                sing[i] = True
            else:
                pdf[i] /= x * x
    elif o["scale"] == "angle":
        for i in range(n):
            sa = math.sin(lo + iv * i)
            if abs(sa) < 2e-5:
                sing[i] = True
            else:
                pdf[i] /= sa
    if o["periodic"]:
        pdf[0] = pdf[0] + pdf[n - 1]
        pdf[n - 1] = pdf[0]
        sing[0] = sing[n - 1] = sing[0] or sing[n - 1]
    r["singular"] = any(sing)
    r["sing"] = sing
    r["counts"] = cnt
    tot = sum(pdf)
    r["empty"] = acc_hi == 0
    if o["normalize"]:
        if tot == 0 or r["singular"]:
            r["pdf"] = None if (tot == 0) else pdf   # norm unknown
            r["norm_unknown"] = True
        else:
            pdf = [x / (iv * tot) for x in pdf]
            r["pdf"] = pdf
    else:
        r["pdf"] = pdf
    return r


def _bs_fmt(x):
    return "%.4g" % x


def _bs_session(rng, sid):
    """generate one session: trajectory + command list with the model state
    (what the user set last) recorded at every command"""
    nmol, nfr = rng.randint(6, 14), rng.randint(2, 4)
    box = [10.0, 10.0, 10.0]
    frames = []
    lines = []
    for fr in range(nfr):
        pos = []
        lines.append("frame t= %d.0" % fr)
        lines.append("%5d" % (4 * nmol))
        k = 1
        for m in range(nmol):
            p = [rng.uniform(2, 8) for _ in range(3)]
            for nm in "ABCD":
                ln = "%5d%-5s%5s%5d%8.3f%8.3f%8.3f" % (m + 1, "TET", nm, k,
                                                      p[0], p[1], p[2])
                lines.append(ln)
                pos.append([float(ln[20:28]), float(ln[28:36]),
                            float(ln[36:44])])
                k += 1
                stepv = [rng.gauss(0, 0.13) for _ in range(3)]
                while math.sqrt(_dot(stepv, stepv)) < 0.06:
                    stepv = [rng.gauss(0, 0.13) for _ in range(3)]
                p = [p[i] + stepv[i] for i in range(3)]
        lines.append("%10.5f%10.5f%10.5f" % tuple(box))
        frames.append(pos)
    gro = "\n".join(lines) + "\n"
    try:
        vals = _bs_values(frames, box)
    except ZeroDivisionError:      # collinear beads after rounding: new case
        return _bs_session(rng, sid)
    st = {"hist": dict(_BS_DEFAULT), "tab": dict(_BS_DEFAULT)}
    extra = {"smooth_pdf": 0, "smooth_pot": 0, "T": 300.0}
    cmds = []     # (text, kind, info)
    nout = [0]
    toggles = {}

    def setopt(which, opt, val):
        cur = st[which][opt]
        red = (val == cur) if opt == "scale" else (float(val) == float(cur))
        txt = "%s set %s %s" % (which, opt, val)
        if opt == "scale":
            st[which][opt] = val
        elif opt in ("min", "max"):
            st[which][opt] = float(val)
        else:
            st[which][opt] = int(val)
        toggles["%s_%s" % (opt, "redundant" if red else "changed")] = \
            toggles.get("%s_%s" % (opt, "redundant" if red else "changed"),
                        0) + 1
        cmds.append((txt, "set", (which, opt)))
        for w in ("hist", "tab"):
            cmds.append(("%s set" % w, "list",
                         (w, dict(st[w]), dict(extra), (which, opt))))

    def rng_range(grp, mode):
        d = vals[grp]
        lo, hi = min(d), max(d)
        L = hi - lo
        if mode == 0:      # cut both sides
            a, b = lo + L * rng.uniform(0.1, 0.4), hi - L * rng.uniform(0.1, 0.4)
        elif mode == 1:    # cut below
            a, b = lo + L * rng.uniform(0.1, 0.5), hi + L * rng.uniform(0.0, 0.3)
        elif mode == 2:    # cut above
            a, b = lo - L * rng.uniform(0.0, 0.3), hi - L * rng.uniform(0.1, 0.5)
        else:              # wider than the data
            a, b = lo - L * rng.uniform(0.01, 0.3), hi + L * rng.uniform(0.01, 0.3)
        return _bs_fmt(a), _bs_fmt(b)

    def output(which, grp):
        o = dict(st[which])
        d = vals[grp]
        if o["n"] < 5:
            return False
        if not o["auto"]:
            lo, hi = o["min"], o["max"]
            if o["extend"]:
                lo, hi = min(lo, min(d)), max(hi, max(d))
            if not hi > lo + 1e-6:
                return False
        if which == "tab":
            # the inversion needs a non-negative distribution
            m = _bs_model(d, o)
            if o["scale"] == "angle" and not (m["lo"] > 1e-3 and
                                              m["hi"] < math.pi - 1e-3):
                return False
            if o["scale"] == "bond" and not m["lo"] > 1e-3:
                return False
        nout[0] += 1
        fn = "%s%d.dat" % ("h" if which == "hist" else "t", nout[0])
        cmds.append(("%s %s *:%s:*" % (which, fn, grp), "out",
                     (which, fn, grp, o, dict(extra))))
        return True

    grp0 = rng.choice(["bond", "bond", "angle", "dih"])
    # one `vals` per group: cross-check of the model's own geometry
    for g in ("bond", "angle", "dih"):
        cmds.append(("vals v_%s.dat *:%s:*" % (g, g), "vals", g))
    motif = rng.random()
    if motif < 0.45:
        # auto 1 (a no-op on a fresh session) ... later auto 0 with a range
        # that cuts the data; extend is never touched
        w = rng.choice(["hist", "tab"])
        setopt(w, "auto", "1")
        if rng.random() < 0.5:
            setopt(w, "n", str(rng.choice([11, 21, 30, 51])))
        if rng.random() < 0.5:
            output(w, grp0)
        a, b = rng_range(grp0, rng.choice([0, 0, 1, 2]))
        seq = [("min", a), ("max", b), ("auto", "0")]
        rng.shuffle(seq)
        for opt, v in seq:
            setopt(w, opt, v)
        if rng.random() < 0.5:
            setopt(w, "normalize", "0")
        output(w, grp0)
    nsteps = rng.randint(8, 30)
    for _ in range(nsteps):
        u = rng.random()
        w = rng.choice(["hist", "hist", "tab"])
        if u < 0.62:
            opt = rng.choice(["n", "min", "max", "min", "max", "periodic",
                              "auto", "auto", "extend", "extend",
                              "normalize", "scale"])
            cur = st[w][opt]
            if rng.random() < 0.3:       # redundant: the value it already has
                val = cur if opt == "scale" else (
                    _bs_fmt(cur) if opt in ("min", "max") else str(cur))
                if opt in ("min", "max") and float(val) != cur:
                    val = repr(cur)
            elif opt == "n":
                val = str(rng.choice([5, 8, 11, 21, 30, 51, 101]))
            elif opt in ("min", "max"):
                g = rng.choice([grp0, grp0, "bond", "angle", "dih"])
                a, b = rng_range(g, rng.randint(0, 3))
                val = a if opt == "min" else b
                if rng.random() < 0.5:   # set both ends consistently
                    setopt(w, "min" if opt == "max" else "max",
                           a if opt == "max" else b)
            elif opt == "scale":
                val = rng.choice(["no", "no", "bond", "angle"])
            elif opt == "periodic":
                val = str(rng.choice([0, 0, 1]))
            else:
                val = str(1 - cur) if rng.random() < 0.7 else str(cur)
            setopt(w, opt, val)
        elif u < 0.67:
            # commands that must not touch the histogram options
            which = rng.choice(["T", "smooth_pdf", "smooth_pot"])
            if which == "T":
                extra["T"] = float(rng.choice([300, 250, 400]))
                cmds.append(("tab set T %g" % extra["T"], "set", ("tab", "T")))
            else:
                cmds.append(("tab set %s 0" % which, "set", ("tab", which)))
            for w2 in ("hist", "tab"):
                cmds.append(("%s set" % w2, "list",
                             (w2, dict(st[w2]), dict(extra), ("tab", which))))
        else:
            g = rng.choice([grp0, grp0, "bond", "angle", "dih"])
            if st[w]["periodic"] and rng.random() < 0.6:
                g = "dih"
            if not output(w, g):
                toggles["output_skipped_invalid_state"] = toggles.get(
                    "output_skipped_invalid_state", 0) + 1
    for w in ("hist", "tab"):
        output(w, grp0)
    cmds.append(("q", "quit", None))
    return {"sid": sid, "nmol": nmol, "gro": gro, "vals": vals,
            "cmds": cmds, "toggles": toggles}


_BS_LIST_RE = None


def _bs_parse_listings(out):
    """option listings printed by `hist set` / `tab set` without arguments,
    in order of appearance"""
    lines = []
    for ln in out.splitlines():
        while ln.startswith("> "):
            ln = ln[2:]
        lines.append(ln.strip())
    res = []
    i = 0
    while i < len(lines):
        if lines[i].startswith("n: ") and i + 7 < len(lines) + 0 and all(
                lines[i + k].startswith(_BS_ORDER[k] + ": ")
                for k in range(8) if i + k < len(lines)) and i + 7 < len(lines):
            d = {}
            for k in range(8):
                d[_BS_ORDER[k]] = lines[i + k].split(": ", 1)[1]
            j = i + 8
            is_tab = j + 2 < len(lines) and lines[j].startswith("smooth_pdf: ")
            if is_tab:
                d["smooth_pdf"] = lines[j].split(": ", 1)[1]
                d["smooth_pot"] = lines[j + 1].split(": ", 1)[1]
                d["T"] = lines[j + 2].split(": ", 1)[1]
                j += 3
            res.append(("tab" if is_tab else "hist", d))
            i = j
        else:
            i += 1
    return res


def _bs_close(a, b, rel=2e-5, ab=1e-12):
    return abs(a - b) <= ab + rel * max(abs(a), abs(b))


def _bs_run(sess, wd, env, exe):
    d = os.path.join(wd, "bs%d" % sess["sid"])
    os.makedirs(d, exist_ok=True)
    open(os.path.join(d, "topol.xml"), "w").write(_BS_TOP % sess["nmol"])
    open(os.path.join(d, "traj.gro"), "w").write(sess["gro"])
    stdin = "\n".join(c[0] for c in sess["cmds"]) + "\n"
    res = vf.run_proc([exe, "--top", "topol.xml", "--trj", "traj.gro",
                       "--no-map"], env=env, cwd=d, timeout=600,
                      stdin=stdin.encode())
    return res, d


def _bs_read(path, ncol):
    rows = []
    for ln in open(path):
        f = ln.split()
        if len(f) >= ncol:
            rows.append([float(x) for x in f[:ncol]])
    return rows


def _bs_judge(chk, sess, res, d):
    cmdtxt = [c[0] for c in sess["cmds"]]
    base = {"commands": cmdtxt, "topol.xml": _BS_TOP % sess["nmol"],
            "traj.gro": sess["gro"],
            "run": "csg_boltzmann --top topol.xml --trj traj.gro --no-map "
                   "< commands"}
    if not chk.proc_result(res, "csg_boltzmann session %d" % sess["sid"],
                           base):
        return
    C = chk.counters

    def cnt(k, n=1):
        C[k] = C.get(k, 0) + n
    cnt("boltzmann_sessions")
    cnt("boltzmann_session_commands", len(cmdtxt))
    for k, v in sess["toggles"].items():
        cnt("boltzmann_session_option_" + k, v)
    # ---- the model's own geometry against the program's `vals` output
    for g in ("bond", "angle", "dih"):
        try:
            rows = [ln.split() for ln in open(os.path.join(d, "v_%s.dat" % g))]
        except OSError:
            chk.inconclusive.append("csg_boltzmann: vals file missing")
            return
        got = sorted(float(x) for r in rows for x in r[1:])
        mine = sorted(sess["vals"][g])
        if len(got) != len(mine) or any(abs(a - b) > 2e-6 * max(1, abs(a))
                                        for a, b in zip(got, mine)):
            chk.inconclusive.append(
                "csg_boltzmann session %d: the model's %s values differ from "
                "the program's vals output (oracle geometry problem)" %
                (sess["sid"], g))
            return
    # ---- option listings: every option is what the user set last
    listings = _bs_parse_listings(res.out)
    want = [c for c in sess["cmds"] if c[1] == "list"]
    if len(listings) != len(want):
        chk.inconclusive.append(
            "csg_boltzmann session %d: %d option listings found, %d expected"
            % (sess["sid"], len(listings), len(want)))
        return
    nl = 0
    for (kind, got), (txt, _, (w, o, extra, last)) in zip(listings, want):
        nl += 1
        if kind != w:
            chk.inconclusive.append("csg_boltzmann: listing kind mismatch")
            return
        for opt in _BS_ORDER:
            gv, ev = got[opt], o[opt]
            ok = (gv == ev) if opt == "scale" else _bs_close(float(gv),
                                                             float(ev))
            if ok:
                continue
            idx = sess["cmds"].index((txt, "list", (w, o, extra, last)))
            hist_cmds = cmdtxt[:idx + 1]
            named = (last == (w, opt))
            key = "boltzmann-session/option-not-set" if named else \
                "boltzmann-session/option-changed-by-other-command"
            wit = dict(base)
            wit.update({"commands_up_to_listing": hist_cmds, "listing": w,
                        "option": opt, "listed_value": gv,
                        "value_set_last_by_user": ev,
                        "last_set_command": "%s set %s" % last})
            chk.violation(key, wit,
                          "`%s set` lists %s=%s although the user's last "
                          "setting is %s (last command: %s set %s)" %
                          (w, opt, gv, ev, last[0], last[1]))
        if kind == "tab":
            if not _bs_close(float(got["T"]), extra["T"]) or \
                    int(got["smooth_pdf"]) != 0 or int(got["smooth_pot"]) != 0:
                chk.violation("boltzmann-session/option-changed-by-other-"
                              "command", dict(base, listed=got),
                              "tab set lists T/smooth values the user did "
                              "not set")
    chk.count("boltzmann_session_option_listing", nl, nontrivial=0)
    # ---- histogram / potential outputs
    nset = 0
    for c in sess["cmds"]:
        if c[1] == "set":
            nset += 1
        if c[1] != "out":
            continue
        which, fn, grp, o, extra = c[2]
        vals = sess["vals"][grp]
        m = _bs_model(vals, o)
        fam = "boltzmann_session_%s_output" % which
        idx = sess["cmds"].index(c)
        wit = dict(base)
        wit.update({"commands_up_to_output": cmdtxt[:idx + 1],
                    "options_in_force": o, "selection": "*:%s:*" % grp,
                    "data_min": min(vals), "data_max": max(vals),
                    "data_count": len(vals),
                    "expected_range": [m["lo"], m["hi"]],
                    "expected_accepted": [m["accepted_lo"], m["accepted_hi"]]})
        try:
            rows = _bs_read(os.path.join(d, fn), 2 if which == "hist" else 3)
            wit["output_file"] = open(os.path.join(d, fn)).read()[:6000]
        except (OSError, ValueError) as e:
            chk.violation("boltzmann-session/%s/no-output" % which, wit,
                          "output file unreadable: %s" % e)
            continue
        cuts = m["discarded"] > 0
        chk.count(fam, 1, nontrivial=1 if (cuts or nset >= 3) else 0)
        if cuts:
            cnt("boltzmann_session_outputs_with_discarded_values")
        if not o["auto"] and not o["extend"] and cuts:
            cnt("boltzmann_session_outputs_fixed_range_cutting_data")
        pfx = "boltzmann-session/%s/" % which
        n = o["n"]
        scale = max(abs(m["lo"]), abs(m["hi"]), m["interval"])
        tolx = 2e-5 * scale + 1e-12
        if len(rows) != n or abs(rows[0][0] - m["lo"]) > tolx or \
                abs(rows[-1][0] - m["hi"]) > tolx:
            wit["got_range"] = [rows[0][0], rows[-1][0]] if rows else None
            wit["got_rows"] = len(rows)
            chk.violation(pfx + "range", wit,
                          "range of the %s output is [%s, %s] with %d rows, "
                          "the options in force (auto=%d extend=%d min=%s "
                          "max=%s n=%d) denote [%.6g, %.6g]" %
                          (which, rows[0][0] if rows else None,
                           rows[-1][0] if rows else None, len(rows),
                           o["auto"], o["extend"], o["min"], o["max"], n,
                           m["lo"], m["hi"]))
            # the weight clause can still be judged
            if which == "hist" and not o["normalize"] and o["scale"] == "no" \
                    and len(rows) >= 2:
                ssum = sum(r[1] for r in rows) - (rows[0][1] if o["periodic"]
                                                  else 0.0)
                if not (m["accepted_lo"] - 1e-4 * len(vals) <= ssum <=
                        m["accepted_hi"] + 1e-4 * len(vals)):
                    wit["sum_of_bins"] = ssum
                    chk.violation(pfx + "weight-not-conserved", wit,
                                  "sum of bins %.6g, but %d..%d of the %d "
                                  "values lie within half a step of the "
                                  "range in force" %
                                  (ssum, m["accepted_lo"], m["accepted_hi"],
                                   len(vals)))
            continue
        for i, r in enumerate(rows):
            if abs(r[0] - (m["lo"] + i * m["interval"])) > tolx:
                chk.violation(pfx + "bin-centres", wit,
                              "bin centre %d is %r, expected %r" %
                              (i, r[0], m["lo"] + i * m["interval"]))
                break
        if o["periodic"] and m["wrapped_outside"]:
            sub = "periodic-wrap-outside-range/"
            cnt("boltzmann_session_outputs_periodic_with_values_outside")
        else:
            sub = ""
        y = [r[1] for r in rows]
        if any(math.isnan(v) or math.isinf(v) for v in y):
            if m["empty"] or m["singular"]:
                cnt("boltzmann_session_outputs_nan_on_empty_or_singular_"
                    "not_judged")
                continue
        if which == "hist":
            if not o["normalize"] and o["scale"] == "no":
                ssum = sum(y) - (y[0] if o["periodic"] else 0.0)
                tol = 1e-5 * len(vals) + 1e-9
                if not (m["accepted_lo"] - tol <= ssum <=
                        m["accepted_hi"] + tol):
                    wit["sum_of_bins"] = ssum
                    chk.violation(pfx + "weight-not-conserved", wit,
                                  "sum of bins %.6g, but %d..%d of the %d "
                                  "values are accepted by the range in force"
                                  % (ssum, m["accepted_lo"], m["accepted_hi"],
                                     len(vals)))
                    continue
            if o["normalize"] and not m["empty"]:
                integ = sum(y) * m["interval"]
                # printed digits: 6 significant per bin; with bins of both
                # signs (angle scaling of negative angles) the sum cancels
                tol_i = 1e-5 * sum(abs(v) for v in y) * m["interval"] + 3e-5
                if abs(integ - 1.0) > tol_i:
                    wit["integral"] = integ
                    chk.violation(pfx + "normalisation", wit,
                                  "normalised histogram integrates to %r" %
                                  integ)
                    continue
        if m["ambiguous"]:
            cnt("boltzmann_session_outputs_with_edge_band_values_not_judged_"
                "per_bin")
            continue
        if m["pdf"] is None or m["empty"]:
            cnt("boltzmann_session_outputs_empty_not_judged_per_bin")
            continue
        e = m["pdf"]
        sing = m["sing"]
        if m.get("norm_unknown"):
            # singular (don't-care) bins enter the norm: judge ratios only
            ref = max((i for i in range(n) if not sing[i]),
                      key=lambda i: abs(e[i]), default=None)
            if ref is None or e[ref] == 0 or y[ref] == 0:
                continue
            fac = y[ref] / e[ref]
            e = [v * fac for v in e]
        emax = max(abs(v) for i, v in enumerate(e) if not sing[i]) \
            if any(not s_ for s_ in sing) else 0.0
        if which == "hist":
            tol = 3e-5 * emax + 1e-12
            for i in range(n):
                if sing[i]:
                    continue
                if abs(y[i] - e[i]) > tol:
                    wit.update({"bin": i, "got": y[i], "expected": e[i]})
                    chk.violation(_BS_WRAPKEY if sub else pfx + "bin-content",
                                  wit,
                                  "bin %d holds %r, the model of the options "
                                  "in force expects %r" % (i, y[i], e[i]))
                    break
        else:
            if any(v < 0 for v in e) or m["singular"] or emax <= 0:
                cnt("boltzmann_session_tab_outputs_not_judged_per_bin")
                continue
            kT = _BS_KB * extra["T"]
            U = [(-kT * math.log(v / emax)) if v > 0 else None for v in e]
            umax = max(u for u in U if u is not None)
            U = [umax if u is None else u for u in U]
            tol = 3e-4 * max(1.0, umax) + 1e-9
            for i in range(n):
                if abs(y[i] - U[i]) > tol:
                    wit.update({"bin": i, "got": y[i], "expected": U[i]})
                    chk.violation(_BS_WRAPKEY if sub else pfx + "potential",
                                  wit,
                                  "potential in bin %d is %r, Boltzmann "
                                  "inversion of the model histogram gives %r"
                                  % (i, y[i], U[i]))
                    break
    if len(chk.samples) < 6 and sess["sid"] % 11 == 0:
        chk.sample({"csg_boltzmann_session": cmdtxt[:40],
                    "listings_compared": nl})


def _boltzmann_sessions(chk, wd):
    vf.build_flavour("asan", ["csg_boltzmann"])
    exe = os.path.join(vf.flavour_dir("asan"), "csg", "src", "csg_boltzmann",
                       "csg_boltzmann")
    env = vf.lib_env("asan")
    rng = random.Random(7000003 * chk.seed + 29)
    nsess = vf.tier_n(chk.tier, 64, 800)
    sessions = [_bs_session(rng, i) for i in range(nsess)]
    jobs = [lambda s=s: _bs_run(s, wd, env, exe) for s in sessions]
    for s, (res, d) in zip(sessions, vf.run_parallel(jobs)):
        _bs_judge(chk, s, res, d)


# ---------------------------------------------------------------------------

def run(chk):
    h = _build()
    vf.build_flavour("asan", ["csg_density"])
    env = vf.lib_env("asan")
    chk.rule = RULE
    chk.sanitizer = {"flavour": "asan", "reports": 0,
                     "note": "histogramnew.cc / histogram.cc are additionally "
                             "compiled into the monitor with "
                             "-fno-builtin-floor so that float-cast-overflow "
                             "sees the index casts"}
    shards = 16
    plan = [("main", vf.tier_n(chk.tier, 100000, 650000)),
            ("legacy", vf.tier_n(chk.tier, 3000, 20000)),
            ("wrap", vf.tier_n(chk.tier, 20, 100)),
            ("huge", vf.tier_n(chk.tier, 20, 100)),
            ("legacyx", vf.tier_n(chk.tier, 9, 60)),
            ("reuse", vf.tier_n(chk.tier, 1500, 40000))]
    jobs, what = [], []
    for mode, n in plan:
        for s in range(shards):
            jobs.append(lambda mode=mode, n=n, s=s: vf.run_proc(
                [h, "--mode", mode, "--seed", str(chk.seed), "--shard",
                 str(s), "--n", str(n)], env=env, timeout=3000))
            what.append("c13 %s shard %d" % (mode, s))
    wd = vf.scratch_dir("C13")
    try:
        results = vf.run_parallel(jobs)
        for w, res in zip(what, results):
            if not chk.ingest(res, w):
                chk.sanitizer["reports"] += 0 if res.rc == 0 else 1
        _density(chk, wd)
        _boltzmann_sessions(chk, wd)
    finally:
        shutil.rmtree(wd, ignore_errors=True)
    chk.assumptions = [
        "min < max and nbins >= 1 (a zero-length range is outside the "
        "statement; single-valued legacy data is an observation counter)",
        "nbins = 1: the statement leaves the step open, the code's own step "
        "(1) is used by the shadow histogram",
        "Normalize: 'integral one' is judged for non-negative bin contents; "
        "with negative contents only the ratios are judged (the code "
        "normalises the integral of |y|); an empty histogram is not judged",
        "legacy periodic mode, library harness: only conservation (sum "
        "minus the duplicated end bin) and memory safety are judged; the "
        "csg_boltzmann session family judges the position of wrapped values "
        "with a period of n-1 bins (the two end bins are one point) under "
        "its own key boltzmann-session/periodic-wrap-outside-range",
        "csg_boltzmann sessions: hist/tab outputs are only requested in "
        "states with a range of positive length and n >= 5; tab outputs "
        "only for non-negative distributions; smoothing stays 0; outputs "
        "with values in the edge band, empty or with singular scaled bins "
        "are judged for range/weight only",
        "bond/angle scalings: bins whose r or sin is within the code's "
        "singularity threshold are don't-care",
        "csg_density: orthorhombic boxes, coordinates with the 3 printed "
        "digits of the .gro file; tolerance 1e-5 relative to the table sum "
        "(printed precision)"]


def replay(path):
    """re-run a HistogramNew witness (min,max,nbins,periodic,v,w) in a forked
    probe; other witnesses (legacy data sets, csg_density inputs) are
    complete in the json file and are printed."""
    import json
    w = json.load(open(path))
    wit = w.get("witness", {})
    print(json.dumps(w, indent=1)[:4000])
    if not all(k in wit for k in ("min", "max", "nbins", "v")):
        return 0
    h = _build()
    res = vf.run_proc([h, "--mode", "probe", "--min", repr(wit["min"]),
                       "--max", repr(wit["max"]), "--nbins",
                       str(wit["nbins"]), "--periodic",
                       "1" if wit.get("periodic") else "0", "--v",
                       repr(wit["v"]), "--w", repr(wit.get("w", 1.0))],
                      env=vf.lib_env("asan"), timeout=300)
    print(res.out)
    if '"t":"violation"' in res.out:
        print("VIOLATION property=C13 replay=%s" % path)
        return 1
    return 0
