"""C13 histograms: shadow-histogram monitor for HistogramNew and the legacy
Histogram (library, asan flavour) + csg_density --axis x|y|z on unwrapped
coordinates (executable, asan flavour). See DESIGN.md §5 C13."""
import math
import os
import random
import shutil

import vfcore as vf

RULE = ("HistogramNew: random (min,max,nbins) incl. nbins=1, min<0, min>0, "
        "periodic and not; value mix: inside, on centres, on bin edges, just "
        "outside, up to 1e6 ranges away, images of inside values, exact "
        "multiples of the length; weights 1, positive, mixed sign, 12 orders "
        "of magnitude. Shadow histogram in long double; a value within "
        "1e-9+1e-12*|t| (t in bin units) of a bin edge is accepted in either "
        "neighbour. A histogram case is non-trivial when it contains values "
        "outside [min,max] and accepted values; distinct = hash(min,max,nbins,"
        "periodic,first values). Suspected-defect families (periodic value "
        "below the range whose bin is congruent 0; bin index beyond 64 bit; "
        "legacy extreme values) run one case per forked child. Legacy "
        "Histogram: automatic range on positive / mixed / all-negative data, "
        "explicit range (periodic and not), bond and angle scalings on "
        "physical data. csg_density: XML topology + .gro frames with "
        "unwrapped coordinates (up to +-150 box lengths), axis x|y|z, mass "
        "and number density, oracle recomputed from the printed digits; "
        "reuse family: ONE HistogramNew object driven through scripts of "
        "Initialize / fill / Normalize / Clear / re-Initialize (other range, "
        "bin count, periodic flag) steps (FN, FNCFN, FCFN, FIFN, FNN, FNFN, "
        "... and random scripts), shadow histogram compared after every "
        "step, non-trivial when a Clear or re-Initialize precedes a "
        "Normalize; legacy Histogram: second ProcessData on the same object "
        "against a fresh object. A csg_density "
        "run is non-trivial when at least one bead lies outside [0,L).")


def _sources():
    return [os.path.join(vf.VERIF, "harness", "c13.cc"),
            os.path.join(vf.REPO, "tools/src/libtools/histogramnew.cc"),
            os.path.join(vf.REPO, "tools/src/libtools/histogram.cc")]


def _build():
    # gcc folds (Index)floor(x) into lfloor at -O1 *before* the
    # float-cast-overflow instrumentation, so the flavour-wide flag does not
    # observe the histogram index casts. As DESIGN §2.1 foresees, the monitor
    # therefore links its own build of the two real translation units (same
    # sources from the repo, same flavour flags) with -fno-builtin-floor,
    # which keeps the cast visible to UBSan.
    return vf.build_harness("asan", "c13", sources=_sources(),
                            flags="-fno-builtin-floor")


def prebuild():
    _build()
    vf.build_flavour("asan", ["csg_density"])


# ---------------------------------------------------------------------------
# csg_density
# ---------------------------------------------------------------------------

def _gro_frame(names, coords, box, title="frame"):
    out = [title, "%5d" % len(coords)]
    for i, (nm, c) in enumerate(zip(names, coords)):
        out.append("%5d%-5s%5s%5d%8.3f%8.3f%8.3f%8.4f%8.4f%8.4f" %
                   (nm[0], "MOL", nm[1], (i + 1) % 100000, c[0], c[1], c[2],
                    0.0, 0.0, 0.0))
    out.append("%10.5f%10.5f%10.5f" % tuple(box))
    return "\n".join(out) + "\n"


def _density_case(rng, wrap_family):
    """generate one csg_density case (dict)"""
    nbeads_per_mol = rng.randint(1, 3)
    nmols = rng.randint(1, 25)
    masses = [round(rng.uniform(0.5, 40.0), 3) for _ in range(nbeads_per_mol)]
    box = [round(rng.uniform(1.0, 6.0), rng.choice([0, 1, 2, 3]))
           for _ in range(3)]
    axis = rng.choice("xyz")
    ai = "xyz".index(axis)
    L = box[ai]
    nb = rng.choice([1, 2, 3, 4, 5, 8, 10, 16, 20, 25, 40, 50])
    step = L / nb
    if rng.random() < 0.5:
        step = round(step * rng.uniform(1.0, 1.3), 4)
    nframes = rng.randint(1, 3)
    dtype = rng.choice(["mass", "number"])
    scale = rng.choice([1.0, 1.0, 0.5, 3.0])
    frames = []
    for _ in range(nframes):
        coords = []
        for _m in range(nmols * nbeads_per_mol):
            c = []
            for k in range(3):
                far = rng.random()
                if far < 0.5:
                    span = 3
                elif far < 0.9:
                    span = 20
                else:
                    span = min(150, int(900 / box[k]))
                v = rng.uniform(-span * box[k], (span + 1) * box[k])
                how = rng.random()
                if how < 0.1:   # exactly on a lattice image of a bin centre
                    v = rng.randint(-span * nb, span * nb) * box[k] / nb
                elif how < 0.2:  # on a bin edge
                    v = (rng.randint(-span * nb, span * nb) + 0.5) * box[k] / nb
                c.append(max(-999.0, min(9999.0, v)))
            coords.append(c)
        frames.append(coords)
    return dict(nbeads_per_mol=nbeads_per_mol, nmols=nmols, masses=masses,
                box=box, axis=axis, step=step, frames=frames, dtype=dtype,
                scale=scale, wrap_family=wrap_family)


def _cls(t):
    """admissible raw bin indices of a value at t bins from the origin"""
    k = math.floor(t + 0.5)
    f = t + 0.5 - k
    band = 1e-9 + 1e-12 * abs(t)
    c = [k]
    if f < band:
        c.append(k - 1)
    if f > 1 - band:
        c.append(k + 1)
    return c


def _run_density(chk, case, wd, idx, env, exe):
    """returns (ok_process, dict) - judged by _judge_density"""
    d = os.path.join(wd, "d%d" % idx)
    os.makedirs(d, exist_ok=True)
    nb = case["nbeads_per_mol"]
    top = ['<topology>', ' <molecules>',
           '  <molecule name="MOL" nmols="%d" nbeads="%d">' %
           (case["nmols"], nb)]
    for k in range(nb):
        top.append('   <bead name="B%d" type="T%d" mass="%r"/>' %
                   (k, k, case["masses"][k]))
    top += ['  </molecule>', ' </molecules>', '</topology>']
    open(os.path.join(d, "top.xml"), "w").write("\n".join(top) + "\n")
    names = [(m + 1, "B%d" % k) for m in range(case["nmols"])
             for k in range(nb)]
    gro = "".join(_gro_frame(names, fr, case["box"]) for fr in case["frames"])
    open(os.path.join(d, "traj.gro"), "w").write(gro)
    cmd = [exe, "--top", "top.xml", "--trj", "traj.gro", "--axis",
           case["axis"], "--step", repr(case["step"]), "--out", "dens.out",
           "--type", case["dtype"], "--scale", repr(case["scale"])]
    res = vf.run_proc(cmd, env=env, cwd=d, timeout=300)
    return res, d, gro


def _parse_gro_axis(gro, ai, natoms):
    """the printed digits, as the reader sees them"""
    vals = []
    lines = gro.splitlines()
    p = 0
    while p < len(lines):
        n = int(lines[p + 1])
        fr = []
        for ln in lines[p + 2:p + 2 + n]:
            fr.append(float(ln[20 + 8 * ai:28 + 8 * ai]))
        vals.append(fr)
        box = [float(x) for x in lines[p + 2 + n].split()]
        p += n + 3
    return vals, box


def _judge_density(chk, case, res, d, gro, idx):
    ai = "xyz".index(case["axis"])
    wit = {"case": {k: v for k, v in case.items() if k != "frames"},
           "top.xml": open(os.path.join(d, "top.xml")).read(),
           "traj.gro": gro,
           "cmd": "csg_density --top top.xml --trj traj.gro --axis %s --step "
                  "%r --out dens.out --type %s --scale %r" %
                  (case["axis"], case["step"], case["dtype"], case["scale"])}
    fam = "csg_density_wrap_congruent_zero" if case["wrap_family"] else \
        "csg_density_unwrapped"
    if case["wrap_family"]:
        if res.timed_out:
            chk.inconclusive.append("watchdog: csg_density wrap case")
            return
        if res.rc != 0:
            chk.count(fam, 1, nontrivial=1)
            chk.counters["csg_density_wrap_family_aborts"] = \
                chk.counters.get("csg_density_wrap_family_aborts", 0) + 1
            key = vf.sanitizer_key(res.err) or ""
            wit["stderr_tail"] = res.err[-3000:]
            wit["sanitizer_key"] = key
            chk.violation("csg_density/periodic-wrap-index", wit,
                          "csg_density --axis %s aborts on an unwrapped "
                          "coordinate whose bin is congruent 0 below the box "
                          "(rc %s)" % (case["axis"], res.rc))
            return
    elif not chk.proc_result(res, "csg_density case %d" % idx, wit):
        return
    vals, box = _parse_gro_axis(gro, ai, 0)
    L = box[ai]
    area = box[(ai + 1) % 3] * box[(ai + 2) % 3]
    rows = []
    for ln in open(os.path.join(d, "dens.out")):
        f = ln.split()
        if len(f) >= 2 and not ln.startswith("#"):
            rows.append((float(f[0]), float(f[1])))
    nbin = len(rows)
    if nbin == 0:
        chk.violation("csg_density/no-output", wit, "empty density table")
        return
    hstep = L / nbin
    nframes = len(vals)
    nb = case["nbeads_per_mol"]
    lo = [0.0] * nbin
    hi = [0.0] * nbin
    total = 0.0
    outside = 0
    for fr in vals:
        for i, x in enumerate(fr):
            w = case["masses"][i % nb] if case["dtype"] == "mass" else 1.0
            total += w
            t = x / hstep
            if x < 0 or x >= L:
                outside += 1
            outs = sorted(set(k % nbin for k in _cls(t)))
            if len(outs) == 1:
                lo[outs[0]] += w
                hi[outs[0]] += w
            else:
                for o in outs:
                    hi[o] += w
    fac = case["scale"] / (nframes * area * hstep)   # density per unit hist
    chk.count(fam, 1, nontrivial=1 if outside else 0)
    tol = 1e-5 * max(total * fac, 1e-30)   # printed digits of the table
    bad = None
    ssum = 0.0
    for k, (x, y) in enumerate(rows):
        ssum += y
        if abs(x - k * hstep) > 1e-5 * max(L, 1.0):
            bad = ("csg_density/bin-centres", "bin centre %d is %r, expected "
                   "%r" % (k, x, k * hstep))
            break
        if y < lo[k] * fac - tol or y > hi[k] * fac + tol:
            bad = ("csg_density/bin-content", "bin %d holds %r, shadow "
                   "histogram expects [%r, %r]" %
                   (k, y, lo[k] * fac, hi[k] * fac))
            break
    if not bad and abs(ssum - total * fac) > nbin * tol:
        bad = ("csg_density/conservation", "sum of the density table %r != "
               "total weight %r (all beads wrapped into the box)" %
               (ssum, total * fac))
    if bad:
        wit["dens.out"] = open(os.path.join(d, "dens.out")).read()
        chk.violation(bad[0], wit, bad[1])
    elif len(chk.samples) < 6 and idx % 7 == 0:
        chk.sample({"csg_density": wit["cmd"], "box": box, "nbin": nbin,
                    "beads_outside_box": outside,
                    "sum_table": ssum, "expected_sum": total * fac})


def _nbins(L, step):
    """bin counts the program may derive as floor(L/step)"""
    q = L / step
    c = {int(math.floor(q))}
    if abs(q - round(q)) < 1e-9 * max(1.0, abs(q)):
        c |= {int(round(q)), int(round(q)) - 1}
    return [n for n in c if n >= 1]


def _trig(x, L, step):
    """is x (within the band) in a bin below zero that is congruent 0?"""
    for nbin in _nbins(L, step):
        if nbin == 1 and x < 0:
            return True   # a single periodic bin has step 1 in the code
        for k in _cls(x / (L / nbin)):
            if k < 0 and k % nbin == 0:
                return True
    return False


def _axis_values(case):
    ai = "xyz".index(case["axis"])
    L = float("%10.5f" % case["box"][ai])
    return ai, L


def _has_trigger(case):
    ai, L = _axis_values(case)
    if not _nbins(L, case["step"]):
        return None
    return any(_trig(float("%8.3f" % p[ai]), L, case["step"])
               for fr in case["frames"] for p in fr)


def _density(chk, wd):
    rng = random.Random(1000003 * chk.seed + 17)
    n_general = vf.tier_n(chk.tier, 200, 1500)
    n_wrap = vf.tier_n(chk.tier, 24, 120)
    exe = vf.exe("asan", "csg_density")
    env = vf.lib_env("asan")
    cases = []
    moved = 0
    while len(cases) < n_general:
        c = _density_case(rng, False)
        ai, L = _axis_values(c)
        nbs = _nbins(L, c["step"])
        if not nbs:
            continue
        # coordinates of the suspected-defect family are moved by one bin
        # (they are exercised in the wrap family, one process per case)
        for fr in c["frames"]:
            for p in fr:
                tries = 0
                while _trig(float("%8.3f" % p[ai]), L, c["step"]):
                    moved += 1
                    tries += 1
                    p[ai] = abs(p[ai]) if (min(nbs) == 1 or tries > 5) \
                        else p[ai] + L / max(nbs)
        if _has_trigger(c):
            continue
        cases.append(c)
    chk.counters["csg_density_coordinates_moved_to_wrap_family"] = moved
    nw = 0
    while nw < n_wrap:
        c = _density_case(rng, True)
        ai, L = _axis_values(c)
        # one bead exactly m box lengths below the origin, everything else
        # inside the box
        for fr in c["frames"]:
            for p in fr:
                p[ai] = rng.uniform(0.02 * L, 0.98 * L)
        m = rng.randint(1, max(1, min(100, int(900 / L))))
        c["frames"][0][0][ai] = -m * L
        c["periods_below"] = m
        if _has_trigger(c) is not True:
            continue
        cases.append(c)
        nw += 1
    jobs = [lambda c=c, i=i: _run_density(chk, c, wd, i, env, exe)
            for i, c in enumerate(cases)]
    for i, (c, (res, d, gro)) in enumerate(zip(cases, vf.run_parallel(jobs))):
        _judge_density(chk, c, res, d, gro, i)


# ---------------------------------------------------------------------------

def run(chk):
    h = _build()
    vf.build_flavour("asan", ["csg_density"])
    env = vf.lib_env("asan")
    chk.rule = RULE
    chk.sanitizer = {"flavour": "asan", "reports": 0,
                     "note": "histogramnew.cc / histogram.cc are additionally "
                             "compiled into the monitor with "
                             "-fno-builtin-floor so that float-cast-overflow "
                             "sees the index casts"}
    shards = 16
    plan = [("main", vf.tier_n(chk.tier, 100000, 650000)),
            ("legacy", vf.tier_n(chk.tier, 3000, 20000)),
            ("wrap", vf.tier_n(chk.tier, 20, 100)),
            ("huge", vf.tier_n(chk.tier, 20, 100)),
            ("legacyx", vf.tier_n(chk.tier, 9, 60)),
            ("reuse", vf.tier_n(chk.tier, 1500, 40000))]
    jobs, what = [], []
    for mode, n in plan:
        for s in range(shards):
            jobs.append(lambda mode=mode, n=n, s=s: vf.run_proc(
                [h, "--mode", mode, "--seed", str(chk.seed), "--shard",
                 str(s), "--n", str(n)], env=env, timeout=3000))
            what.append("c13 %s shard %d" % (mode, s))
    wd = vf.scratch_dir("C13")
    try:
        results = vf.run_parallel(jobs)
        for w, res in zip(what, results):
            if not chk.ingest(res, w):
                chk.sanitizer["reports"] += 0 if res.rc == 0 else 1
        _density(chk, wd)
    finally:
        shutil.rmtree(wd, ignore_errors=True)
    chk.assumptions = [
        "min < max and nbins >= 1 (a zero-length range is outside the "
        "statement; single-valued legacy data is an observation counter)",
        "nbins = 1: the statement leaves the step open, the code's own step "
        "(1) is used by the shadow histogram",
        "Normalize: 'integral one' is judged for non-negative bin contents; "
        "with negative contents only the ratios are judged (the code "
        "normalises the integral of |y|); an empty histogram is not judged",
        "legacy periodic mode: only conservation (sum minus the duplicated "
        "end bin) and memory safety are judged, the statement says nothing "
        "about where wrapped values go",
        "bond/angle scalings: bins whose r or sin is within the code's "
        "singularity threshold are don't-care",
        "csg_density: orthorhombic boxes, coordinates with the 3 printed "
        "digits of the .gro file; tolerance 1e-5 relative to the table sum "
        "(printed precision)"]


def replay(path):
    """re-run a HistogramNew witness (min,max,nbins,periodic,v,w) in a forked
    probe; other witnesses (legacy data sets, csg_density inputs) are
    complete in the json file and are printed."""
    import json
    w = json.load(open(path))
    wit = w.get("witness", {})
    print(json.dumps(w, indent=1)[:4000])
    if not all(k in wit for k in ("min", "max", "nbins", "v")):
        return 0
    h = _build()
    res = vf.run_proc([h, "--mode", "probe", "--min", repr(wit["min"]),
                       "--max", repr(wit["max"]), "--nbins",
                       str(wit["nbins"]), "--periodic",
                       "1" if wit.get("periodic") else "0", "--v",
                       repr(wit["v"]), "--w", repr(wit.get("w", 1.0))],
                      env=vf.lib_env("asan"), timeout=300)
    print(res.out)
    if '"t":"violation"' in res.out:
        print("VIOLATION property=C13 replay=%s" % path)
        return 1
    return 0
