"""C10 shared job file: exactly-once / no-loss ledger checker over multi-process,
multi-thread runs of the real ProgObserver, pause points inside the critical
section, crash-at-byte-N enumeration, restart patterns, TSan thread-only runs.
"""
import os
import random
import shutil
import socket
import subprocess
import time
import xml.etree.ElementTree as ET
import vfcore as vf

LEVEL = "fault_enumeration"
HOST = socket.gethostname()
KIND = {"SYNC_LOCKED": 18, "SYNC_LOADED": 19, "SYNC_BEFORE_WRITE": 20,
        "SYNC_RELEASED": 21, "SYNC_BACKUP_WRITTEN": 23}


def _harness(fl):
    # parallelxjobcalc.cc is compiled unchanged; <libint2/initialize.h> comes from harness/stubs
    return vf.build_harness(fl, "c10", xtp=True,
                            sources=[os.path.join(vf.VERIF, "harness", "c10.cc"),
                                     os.path.join(vf.REPO, "xtp/src/libxtp/parallelxjobcalc.cc")],
                            flags="-I" + os.path.join(vf.VERIF, "harness", "stubs"))


def prebuild():
    _harness("asan")
    _harness("tsan")


# ----------------------------------------------------------------------------
def write_jobs(path, jobs):
    """jobs: list of dict(id, status, host?, output?, error?)"""
    with open(path, "w") as f:
        f.write("<jobs>\n")
        for j in jobs:
            f.write("\t<job>\n\t\t<id>%d</id>\n\t\t<tag>tag%d</tag>\n"
                    "\t\t<input>seg%d</input>\n\t\t<status>%s</status>\n" %
                    (j["id"], j["id"], j["id"], j["status"]))
            if j.get("host"):
                f.write("\t\t<host>%s</host>\n\t\t<time>00:00:00</time>\n" % j["host"])
            if j.get("output"):
                f.write("\t\t<output>%s</output>\n" % j["output"])
            if j.get("error"):
                f.write("\t\t<error>%s</error>\n" % j["error"])
            f.write("\t</job>\n")
        f.write("</jobs>\n")
    open(path + ".lock", "w").close()


def parse_jobs(path):
    """returns list of dicts or None when the file is not a complete,
    parseable job list"""
    try:
        root = ET.parse(path).getroot()
    except (ET.ParseError, OSError):
        return None
    if root.tag != "jobs":
        return None
    out = []
    for j in root.findall("job"):
        try:
            d = {"id": int(j.findtext("id")), "status": j.findtext("status"),
                 "host": j.findtext("host"), "output": j.findtext("output"),
                 "error": j.findtext("error")}
        except (TypeError, ValueError):
            return None
        if d["status"] not in ("AVAILABLE", "ASSIGNED", "FAILED", "COMPLETE"):
            return None
        out.append(d)
    return out


def read_ledger(path):
    ev = []
    if os.path.exists(path):
        for ln in open(path):
            p = ln.split()
            if len(p) >= 5:
                ev.append({"t": p[0], "pid": int(p[1]), "tid": int(p[2]),
                           "id": int(p[3]), "nonce": int(p[4]),
                           "status": p[5] if len(p) > 5 else None})
    return ev


def worker_cmd(h, jobfile, ledger, threads=1, cache=4, maxjobs=-1, restart="",
               seed=1, failprob=0.0, delay=0.0, extra=()):
    # as in xtp the lock file (option --file, there the state file) is not the
    # job file: fcntl locks would be dropped by any close() of the same file
    cmd = [h, "worker", "--jobs", jobfile, "--file", jobfile + ".lock",
           "--threads", str(threads),
           "--cache", str(cache), "--maxjobs", str(maxjobs), "--restart",
           restart, "--ledger", ledger, "--seed", str(seed), "--failprob",
           str(failprob), "--delay-prob", str(delay), "--delay-maxus", "400",
           "--evalus", "300", "--report"]
    return cmd + list(extra)


def nonce_of(output):
    if output and output.startswith("nonce="):
        try:
            return int(output.split(";")[0][6:])
        except ValueError:
            return None
    return None


def judge_history(chk, fam, initial, final, ledger, wit, expected_exec=None,
                  allow_dup=(), require_all=True, maxjobs=None):
    """offline checker over one history. initial/final: job lists; ledger:
    events; expected_exec: set of ids that must be executed exactly once (default:
    the initially AVAILABLE ones); allow_dup: ids that may legitimately have been
    executed twice (in flight at a crash)."""
    starts = {}
    for e in ledger:
        if e["t"] == "S":
            starts.setdefault(e["id"], []).append(e)
    dones = {}
    for e in ledger:
        if e["t"] == "D":
            dones.setdefault(e["id"], []).append(e)
    ids0 = [j["id"] for j in initial]
    if expected_exec is None:
        expected_exec = set(j["id"] for j in initial if j["status"] == "AVAILABLE")
    ok = True

    def v(key, what, **kw):
        nonlocal ok
        ok = False
        w = dict(wit)
        w.update(kw)
        w["ledger_tail"] = ["%(t)s %(pid)d %(tid)d %(id)d %(nonce)d" % e for e in ledger[-40:]]
        chk.violation(fam + "/" + key, w, what)

    if final is None:
        v("final-file-unparseable", "final job file is not a complete parseable job list")
        return False
    idsf = [j["id"] for j in final]
    if idsf != ids0:
        v("final-file-id-list", "final job file does not list every job exactly once in order",
          ids_final=idsf[:50], ids_initial=ids0[:50])
        return False
    fin = {j["id"]: j for j in final}
    for i in ids0:
        n = len(starts.get(i, []))
        if i in expected_exec:
            if n == 0 and require_all:
                v("job-lost", "an AVAILABLE job was never executed", job=i, final=fin[i])
                break
            if n > 1 and i not in allow_dup:
                v("job-executed-twice", "a job was assigned/executed more than once",
                  job=i, executions=["%d:%d" % (e["pid"], e["nonce"]) for e in starts[i]])
                break
        elif n > 0:
            v("unexpected-execution", "a job that was neither AVAILABLE nor named by the restart pattern was executed",
              job=i, initial=[j for j in initial if j["id"] == i][0])
            break
        if n >= 1:
            last = dones.get(i, [])
            if not last:
                continue  # in flight at a crash
            # final state must be the result of one of its executions, and of
            # the last one that was reported
            d = last[-1]
            f = fin[i]
            if f["status"] != d["status"] or nonce_of(f["output"]) != d["nonce"] \
                    or f["host"] != "%s:%d" % (HOST, d["pid"]):
                # tolerate: final shows another *reported* execution only if dup allowed
                others = [x for x in last if nonce_of(f["output"]) == x["nonce"]]
                if not (i in allow_dup and others):
                    v("result-lost-or-overwritten", "final entry is not the reported result of the job's execution",
                      job=i, final=f, reported="%s nonce=%d pid=%d" % (d["status"], d["nonce"], d["pid"]))
                    break
        elif require_all is False and fin[i]["status"] not in ("AVAILABLE",) and i in expected_exec:
            pass
    if maxjobs is not None and maxjobs >= 0:
        per = {}
        for e in ledger:
            if e["t"] == "S":
                per[e["pid"]] = per.get(e["pid"], 0) + 1
        for pid, n in per.items():
            if n > maxjobs:
                v("maxjobs-exceeded", "a process executed more jobs than --maxjobs", pid=pid, executed=n, maxjobs=maxjobs)
    return ok


# ----------------------------------------------------------------------------
def scenario_stress(chk, h, fl, d, rng, fam):
    os.makedirs(d)
    n = rng.choice([1, 2, 3, 5, 8, 13, 30, 60, 120, 200])
    P = rng.randint(1, 6) if fl == "asan" else 1
    T = rng.randint(1, 4) if fl == "asan" else rng.randint(2, 8)
    cache = rng.randint(1, 8)
    many = fl == "asan" and rng.random() < 0.2
    if many:  # more worker threads than any fixed-width bookkeeping (32/64 bits) in one process
        P, T, n = 1, rng.choice([33, 40, 48, 65]), rng.choice([120, 200])
    maxjobs = -1 if many else rng.choice([-1, -1, -1, 1, 3, n])
    failprob = rng.choice([0, 0, 0.2])
    initial = []
    for i in range(1, n + 1):
        r = rng.random()
        if r < 0.85:
            initial.append({"id": i, "status": "AVAILABLE"})
        elif r < 0.93:
            initial.append({"id": i, "status": "COMPLETE", "host": "other:1", "output": "nonce=1;id=%d" % i})
        else:
            initial.append({"id": i, "status": "FAILED", "host": "other:2", "error": "old"})
    jf = os.path.join(d, "jobs.xml")
    write_jobs(jf, initial)
    env = vf.lib_env(fl)
    procs = []
    for p in range(P):
        cmd = worker_cmd(h, jf, os.path.join(d, "ledger"), T, cache, maxjobs, "",
                         rng.randint(1, 10**6), failprob, rng.choice([0, 0.3, 0.8]))
        procs.append(subprocess.Popen(cmd, env=env, stdout=subprocess.PIPE,
                                      stderr=subprocess.PIPE, cwd=d))
    wit = {"scenario": "stress", "flavour": fl, "jobs": n, "processes": P, "threads": T,
           "cache": cache, "maxjobs": maxjobs, "failprob": failprob,
           "initial_status": "".join(j["status"][0] for j in initial)}
    return finish_procs(chk, fam, procs, d, initial, wit, maxjobs=maxjobs,
                        require_all=(maxjobs < 0 or maxjobs * P >= n))


def finish_procs(chk, fam, procs, d, initial, wit, **kw):
    bad = False
    deadline = time.time() + 120
    for p in procs:
        try:
            out, err = p.communicate(timeout=max(1, deadline - time.time()))
        except subprocess.TimeoutExpired:
            for q in procs:
                q.kill()
            chk.inconclusive.append("watchdog: c10 %s" % wit["scenario"])
            return None
        err = err.decode("utf-8", "replace")
        if p.returncode != 0:
            bad = True
            key = vf.sanitizer_key(err)
            w = dict(wit)
            w["stderr_tail"] = err[-3000:]
            w["rc"] = p.returncode
            if key:
                chk.violation(fam + "/" + key, w, "sanitizer report in a worker process")
            else:
                chk.violation(fam + "/worker-failed", w, "a worker process failed (exception or crash): " + err.strip()[-200:])
    if bad:
        return False
    ledger = read_ledger(os.path.join(d, "ledger"))
    final = parse_jobs(os.path.join(d, "jobs.xml"))
    ok = judge_history(chk, fam, initial, final, ledger, wit, **kw)
    wit["ledger_events"] = len(ledger)
    return ok


def scenario_pause(chk, h, d, rng, fam):
    """hold process A inside the critical section while process B runs a full
    synchronisation (the lost-update window)"""
    os.makedirs(d)
    n = rng.choice([2, 4, 8, 16])
    cache = rng.randint(1, 4)
    initial = [{"id": i, "status": "AVAILABLE"} for i in range(1, n + 1)]
    jf = os.path.join(d, "jobs.xml")
    write_jobs(jf, initial)
    env = vf.lib_env("asan")
    pk = rng.choice(["SYNC_LOCKED", "SYNC_LOADED", "SYNC_BACKUP_WRITTEN", "SYNC_BEFORE_WRITE"])
    occ = rng.randint(1, 2)
    pd = os.path.join(d, "pause")
    os.makedirs(pd)
    a = subprocess.Popen(worker_cmd(h, jf, os.path.join(d, "ledger"), 1, cache, -1, "", rng.randint(1, 10**6),
                                    extra=["--pause-kind", str(KIND[pk]), "--pause-occ", str(occ), "--pause-dir", pd]),
                         env=env, stdout=subprocess.PIPE, stderr=subprocess.PIPE, cwd=d)
    t0 = time.time()
    reached = False
    while time.time() - t0 < 10 and a.poll() is None:
        if os.path.exists(os.path.join(pd, "paused")):
            reached = True
            break
        time.sleep(0.005)
    b = subprocess.Popen(worker_cmd(h, jf, os.path.join(d, "ledger"), rng.randint(1, 2), rng.randint(1, 4), -1, "",
                                    rng.randint(1, 10**6)),
                         env=env, stdout=subprocess.PIPE, stderr=subprocess.PIPE, cwd=d)
    # give B the chance to run through the window (it blocks on the file lock
    # when the lock excludes; that is fine - the verdict comes from the ledger)
    t1 = time.time()
    while time.time() - t1 < 0.6 and b.poll() is None:
        time.sleep(0.01)
    b_passed = b.poll() is not None
    open(os.path.join(pd, "go"), "w").close()
    wit = {"scenario": "pause", "jobs": n, "cache": cache, "pause_at": pk, "occurrence": occ,
           "pause_reached": reached, "b_finished_while_a_paused": b_passed}
    ok = finish_procs(chk, fam, [a, b], d, initial, wit)
    return ok, reached, b_passed


def scenario_restart(chk, h, d, rng, fam):
    os.makedirs(d)
    n = rng.choice([4, 9, 20])
    initial = [{"id": i, "status": "AVAILABLE"} for i in range(1, n + 1)]
    jf = os.path.join(d, "jobs.xml")
    write_jobs(jf, initial)
    env = vf.lib_env("asan")
    # wave 1: two processes in sequence, some failures, a job limit so that some stay available
    led1 = os.path.join(d, "ledger1")
    pids = []
    for k in range(2):
        p = subprocess.Popen(worker_cmd(h, jf, led1, rng.randint(1, 2), rng.randint(1, 3), rng.choice([2, 3, n // 2]), "",
                                        rng.randint(1, 10**6), 0.4), env=env, stdout=subprocess.PIPE, stderr=subprocess.PIPE, cwd=d)
        p.communicate(timeout=120)
        pids.append(p.pid)
        if p.returncode != 0:
            chk.violation(fam + "/worker-failed", {"scenario": "restart wave1"}, "worker failed in restart scenario wave 1")
            return False
    mid = parse_jobs(jf)
    if mid is None:
        chk.violation(fam + "/final-file-unparseable", {"scenario": "restart wave1"}, "job file unparseable after wave 1")
        return False
    mode = rng.choice(["stat", "host", "both", "stat2"])
    host_a = "%s:%d" % (HOST, pids[0])
    if mode == "stat":
        pat = "stat(FAILED)"
        reopen = set(j["id"] for j in mid if j["status"] == "FAILED")
    elif mode == "stat2":
        pat = "stat(FAILED,COMPLETE)"
        reopen = set(j["id"] for j in mid if j["status"] in ("FAILED", "COMPLETE"))
    elif mode == "host":
        pat = "host(%s)" % host_a
        reopen = set(j["id"] for j in mid if j["host"] == host_a)
    else:
        pat = "host(%s) stat(FAILED)" % host_a
        reopen = set(j["id"] for j in mid if j["host"] == host_a or j["status"] == "FAILED")
    expected = reopen | set(j["id"] for j in mid if j["status"] == "AVAILABLE")
    led2 = os.path.join(d, "ledger2")
    p = subprocess.Popen(worker_cmd(h, jf, led2, rng.randint(1, 3), rng.randint(1, 4), -1, pat, rng.randint(1, 10**6), 0.0),
                         env=env, stdout=subprocess.PIPE, stderr=subprocess.PIPE, cwd=d)
    wit = {"scenario": "restart", "jobs": n, "pattern": pat,
           "state_before": ["%d:%s:%s" % (j["id"], j["status"], j["host"]) for j in mid]}
    return finish_procs(chk, fam, [p], d, mid, wit, expected_exec=expected) \
        if _swap_ledger(d, led2) else False


def scenario_restart_concurrent(chk, h, d, rng, fam):
    """a normal worker P and a restart worker R (pattern host(<dead host>))
    run at the same time on a job file in which some jobs are still ASSIGNED to
    a host that died; R re-opens exactly those, P takes the available ones;
    nobody's reported result may be replaced by a stale entry of the other."""
    os.makedirs(d)
    n = rng.choice([4, 6, 10, 16])
    dead = "deadnode:4242"
    initial = []
    for i in range(1, n + 1):
        r = rng.random()
        if r < 0.4:
            initial.append({"id": i, "status": "ASSIGNED", "host": dead})
        elif r < 0.5:
            initial.append({"id": i, "status": "COMPLETE", "host": "other:1", "output": "nonce=1;id=%d" % i})
        else:
            initial.append({"id": i, "status": "AVAILABLE"})
    if not any(j["status"] == "ASSIGNED" for j in initial):
        initial[0] = {"id": 1, "status": "ASSIGNED", "host": dead}
    jf = os.path.join(d, "jobs.xml")
    write_jobs(jf, initial)
    env = vf.lib_env("asan")
    led = os.path.join(d, "ledger")
    procs = []
    order = ["P", "R"] if rng.random() < 0.5 else ["R", "P"]
    for who in order:
        pat = "host(%s)" % dead if who == "R" else ""
        procs.append(subprocess.Popen(
            worker_cmd(h, jf, led, rng.randint(1, 2), rng.randint(1, 2), -1, pat,
                       rng.randint(1, 10**6), 0.0, rng.choice([0.3, 0.8])),
            env=env, stdout=subprocess.PIPE, stderr=subprocess.PIPE, cwd=d))
        if rng.random() < 0.5:
            time.sleep(rng.uniform(0, 0.05))
    expected = set(j["id"] for j in initial if j["status"] == "AVAILABLE" or j.get("host") == dead)
    wit = {"scenario": "restart-concurrent", "jobs": n, "order": order,
           "initial": ["%d:%s:%s" % (j["id"], j["status"], j.get("host")) for j in initial]}
    return finish_procs(chk, fam, procs, d, initial, wit, expected_exec=expected)


def _swap_ledger(d, led):
    # finish_procs reads d/ledger
    dst = os.path.join(d, "ledger")
    if os.path.exists(dst):
        os.remove(dst)
    os.symlink(led, dst)
    return True


def crash_case(h, d, n, cache, pre_complete, target, offset, seed):
    """one crash point: run A (killed after `offset` bytes written to target),
    judge job-file-or-backup, recover, run B with restart host(A); returns
    (verdict dict)"""
    os.makedirs(d)
    initial = []
    for i in range(1, n + 1):
        if i <= pre_complete:
            initial.append({"id": i, "status": "COMPLETE", "host": "other:1", "output": "nonce=1;id=%d" % i})
        else:
            initial.append({"id": i, "status": "AVAILABLE"})
    jf = os.path.join(d, "jobs.xml")
    write_jobs(jf, initial)
    env = vf.lib_env("asan")
    led = os.path.join(d, "ledger")
    extra = ["--crash-target", target, "--crash-at", str(offset)] if offset >= 0 else ["--count-target", target]
    a = subprocess.run(worker_cmd(h, jf, led, 1, cache, -1, "", seed, extra=extra),
                       env=env, capture_output=True, cwd=d, timeout=120)
    res = {"rc_a": a.returncode, "initial": initial, "out": a.stdout.decode(), "pid_a": None}
    if offset < 0:
        return res
    crashed = a.returncode in (-9, 137)
    res["crashed"] = crashed
    if not crashed and a.returncode != 0:
        res["error"] = a.stderr.decode("utf-8", "replace")[-2000:]
        return res
    led_a = read_ledger(led)
    jobf = parse_jobs(jf)
    back = parse_jobs(jf + "~")
    ids0 = [j["id"] for j in initial]
    good_job = jobf is not None and [j["id"] for j in jobf] == ids0
    good_back = back is not None and [j["id"] for j in back] == ids0
    res.update({"job_file_ok": good_job, "backup_ok": good_back})
    if not crashed:
        res["final"] = jobf
        res["ledger"] = led_a
        return res
    if not (good_job or good_back):
        return res
    # recovery as documented: take the backup when the job file is damaged
    if not good_job:
        shutil.copy(jf + "~", jf)
    rec = parse_jobs(jf)
    res["recovered_from"] = "job" if good_job else "backup"
    hosts_a = set(j["host"] for j in rec if j["host"] and j["host"].startswith(HOST + ":") and j["status"] == "ASSIGNED")
    inflight = set(j["id"] for j in rec if j["status"] == "ASSIGNED")
    pat = "stat(ASSIGNED)" if inflight else ""
    b = subprocess.run(worker_cmd(h, jf, led, 1, cache, -1, pat, seed + 1),
                       env=env, capture_output=True, cwd=d, timeout=120)
    res["rc_b"] = b.returncode
    if b.returncode != 0:
        res["error"] = b.stderr.decode("utf-8", "replace")[-2000:]
    res["final"] = parse_jobs(jf)
    res["ledger"] = read_ledger(led)
    res["ledger_a"] = led_a
    res["recovered"] = rec
    res["inflight"] = sorted(inflight)
    return res


def scenario_crashes(chk, h, work, rng, fam, budget):
    """crash-point enumeration for a few small configurations"""
    tried = 0
    offsets_seen = 0
    configs = [(3, 1, 0), (4, 2, 1), (5, 3, 2)] if chk.tier == "quick" else \
        [(2, 1, 0), (3, 1, 0), (4, 2, 1), (5, 3, 2), (6, 2, 3), (8, 4, 0)]
    jobs, meta = [], []
    for ci, (n, cache, pre) in enumerate(configs):
        for target in ("job", "backup"):
            d0 = os.path.join(work, "crash_%d_%s_count" % (ci, target))
            r0 = crash_case(h, d0, n, cache, pre, target, -1, 1)
            try:
                import json
                W = [json.loads(l) for l in r0["out"].splitlines() if l.startswith("{")][0]["bytes_to_target"]
            except Exception:
                chk.inconclusive.append("crash counting run failed")
                continue
            offs = list(range(1, W + 1))
            per = max(1, budget // (2 * len(configs)))
            exhaustive = len(offs) <= per
            if not exhaustive:
                offs = sorted(rng.sample(offs, per))
            for o in offs:
                d = os.path.join(work, "crash_%d_%s_%d" % (ci, target, o))
                jobs.append(lambda d=d, n=n, cache=cache, pre=pre, target=target, o=o:
                            crash_case(h, d, n, cache, pre, target, o, 1))
                meta.append((n, cache, pre, target, o, W, exhaustive))
    results = vf.run_parallel(jobs)
    exhaustive_all = all(m[6] for m in meta) if meta else False
    for (n, cache, pre, target, o, W, _ex), r in zip(meta, results):
        wit = {"scenario": "crash", "jobs": n, "cache": cache, "pre_complete": pre,
               "crash_target": target, "crash_after_bytes": o, "bytes_total": W}
        tried += 1
        if "error" in r:
            wit["stderr_tail"] = r["error"]
            key = vf.sanitizer_key(r["error"])
            chk.violation(fam + "/" + (key or "worker-failed-after-recovery"), wit,
                          "worker failed in crash scenario: " + r["error"].strip()[-200:])
            continue
        if not r.get("crashed"):
            # offset beyond what this run wrote: a normal run, judge it as such
            judge_history(chk, fam, r["initial"], r.get("final"), r.get("ledger", []), wit)
            chk.count("crash_offset_not_reached", 1, 0)
            continue
        offsets_seen += 1
        if not (r["job_file_ok"] or r["backup_ok"]):
            chk.violation(fam + "/neither-jobfile-nor-backup-complete", wit,
                          "after a crash neither the job file nor its backup is a complete parseable job list")
            continue
        wit["recovered_from"] = r["recovered_from"]
        wit["inflight"] = r["inflight"]
        # jobs that A finished executing but whose result was lost with the crash may run again
        judge_history(chk, fam, r["initial"], r["final"], r["ledger"], wit,
                      allow_dup=set(e["id"] for e in r["ledger_a"] if e["t"] == "S"))
        # at most the in-flight jobs are re-executed
        started_a = set(e["id"] for e in r["ledger_a"] if e["t"] == "S")
        rerun = set(e["id"] for e in r["ledger"][len(r["ledger_a"]):] if e["t"] == "S") & started_a
        if not rerun <= set(r["inflight"]):
            wit["rerun"] = sorted(rerun)
            chk.violation(fam + "/crash-lost-more-than-inflight", wit,
                          "after recovery jobs other than the in-flight ones were executed again")
        chk.count("crash_point_%s" % target, 1, 1)
        if len(chk.samples) < 6 and o % 97 == 5:
            chk.sample(wit)
    return tried, offsets_seen, exhaustive_all


def crash_peer_case(h, d, n, cache, target, offset, seed):
    """A synchronises once and is held (outside the critical section, at
    SYNC_RELEASED); B runs to completion and reports results; then A continues
    and is killed after `offset` bytes of the job file (or backup) write of its
    SECOND synchronisation. After the crash at most A's in-flight jobs may be
    lost: B's reported results must survive in the job file or the backup."""
    os.makedirs(d)
    initial = [{"id": i, "status": "AVAILABLE"} for i in range(1, n + 1)]
    jf = os.path.join(d, "jobs.xml")
    write_jobs(jf, initial)
    env = vf.lib_env("asan")
    led = os.path.join(d, "ledger")
    pd = os.path.join(d, "pause")
    os.makedirs(pd)
    a = subprocess.Popen(worker_cmd(h, jf, led, 1, cache, -1, "", seed, extra=[
        "--pause-kind", str(KIND["SYNC_RELEASED"]), "--pause-occ", "1", "--pause-dir", pd,
        "--crash-target", target, "--crash-sync", "2", "--crash-at", str(offset)]),
        env=env, stdout=subprocess.PIPE, stderr=subprocess.PIPE, cwd=d)
    t0 = time.time()
    while time.time() - t0 < 20 and a.poll() is None and not os.path.exists(os.path.join(pd, "paused")):
        time.sleep(0.005)
    res = {"initial": initial, "paused": os.path.exists(os.path.join(pd, "paused"))}
    b = subprocess.run(worker_cmd(h, jf, led, 1, 2, max(1, n // 2), "", seed + 7), env=env, capture_output=True, cwd=d, timeout=120)
    res["rc_b"] = b.returncode
    led_before = read_ledger(led)
    open(os.path.join(pd, "go"), "w").close()
    try:
        a.communicate(timeout=120)
    except subprocess.TimeoutExpired:
        a.kill()
        res["timeout"] = True
        return res
    res["rc_a"] = a.returncode
    res["crashed"] = a.returncode in (-9, 137)
    led_all = read_ledger(led)
    pid_a = a.pid
    res["ledger_a"] = [e for e in led_all if e["pid"] == pid_a]
    res["ledger_b"] = [e for e in led_all if e["pid"] != pid_a]
    jobf = parse_jobs(jf)
    back = parse_jobs(jf + "~")
    ids0 = [j["id"] for j in initial]
    good_job = jobf is not None and [j["id"] for j in jobf] == ids0
    good_back = back is not None and [j["id"] for j in back] == ids0
    res.update({"job_file_ok": good_job, "backup_ok": good_back})
    if not res["crashed"]:
        res["final"] = jobf
        res["ledger"] = led_all
        return res
    if not (good_job or good_back):
        return res
    if not good_job:
        shutil.copy(jf + "~", jf)
    rec = parse_jobs(jf)
    res["recovered_from"] = "job" if good_job else "backup"
    res["recovered"] = rec
    # B's reported results must have survived the crash of A
    lost = []
    recd = {j["id"]: j for j in rec}
    for e in res["ledger_b"]:
        if e["t"] == "D":
            j = recd[e["id"]]
            if j["status"] != e["status"] or nonce_of(j["output"]) != e["nonce"]:
                lost.append(e["id"])
    res["peer_results_lost"] = lost
    inflight = set(j["id"] for j in rec if j["status"] == "ASSIGNED")
    res["inflight"] = sorted(inflight)
    c = subprocess.run(worker_cmd(h, jf, led, 1, cache, -1, "stat(ASSIGNED)" if inflight else "", seed + 1),
                       env=env, capture_output=True, cwd=d, timeout=120)
    res["rc_c"] = c.returncode
    if c.returncode != 0:
        res["error"] = c.stderr.decode("utf-8", "replace")[-2000:]
    res["final"] = parse_jobs(jf)
    res["ledger"] = read_ledger(led)
    return res


def scenario_crash_peer(chk, h, work, rng, fam, budget):
    jobs, meta = [], []
    configs = [(4, 1), (6, 2)] if chk.tier == "quick" else [(3, 1), (4, 1), (6, 2), (8, 3)]
    for ci, (n, cache) in enumerate(configs):
        # size of one job-file write is below ~ 260 bytes per job
        W = 260 * n
        per = max(2, budget // (2 * len(configs)))
        for target in ("job", "backup"):
            offs = list(range(1, W + 1))
            if len(offs) > per:
                offs = sorted(rng.sample(offs, per))
            for o in offs:
                d = os.path.join(work, "peer_%d_%s_%d" % (ci, target, o))
                jobs.append(lambda d=d, n=n, cache=cache, target=target, o=o: crash_peer_case(h, d, n, cache, target, o, 1))
                meta.append((n, cache, target, o))
    hit = 0
    for (n, cache, target, o), r in zip(meta, vf.run_parallel(jobs)):
        wit = {"scenario": "crash-with-peer", "jobs": n, "cache": cache, "crash_target": target,
               "crash_sync": 2, "crash_after_bytes": o}
        if r.get("timeout") or not r.get("paused"):
            chk.inconclusive.append("watchdog: crash-with-peer did not reach its pause point")
            continue
        if "error" in r:
            wit["stderr_tail"] = r["error"]
            chk.violation(fam + "/" + (vf.sanitizer_key(r["error"]) or "worker-failed-after-recovery"), wit,
                          "worker failed in crash-with-peer scenario")
            continue
        if not r.get("crashed"):
            judge_history(chk, fam, r["initial"], r.get("final"), r.get("ledger", []), wit)
            chk.count("crash_peer_offset_not_reached", 1, 0)
            continue
        hit += 1
        if not (r["job_file_ok"] or r["backup_ok"]):
            chk.violation(fam + "/neither-jobfile-nor-backup-complete", wit,
                          "after a crash neither the job file nor its backup is a complete parseable job list")
            continue
        wit["recovered_from"] = r["recovered_from"]
        if r["peer_results_lost"]:
            wit["jobs_lost"] = r["peer_results_lost"]
            wit["recovered"] = ["%d:%s" % (j["id"], j["status"]) for j in r["recovered"]]
            chk.violation(fam + "/peer-results-lost-by-crash", wit,
                          "results reported by another process before the crash are missing from the recovered job list "
                          "(more than the in-flight jobs of the crashed process is lost)")
            continue
        judge_history(chk, fam, r["initial"], r["final"], r["ledger"], wit,
                      allow_dup=set(e["id"] for e in r["ledger_a"] if e["t"] == "S"))
        chk.count("crash_peer_%s" % target, 1, 1)
    return hit


def run(chk):
    h = _harness("asan")
    ht = _harness("tsan")
    work = vf.scratch_dir("C10")
    rng = random.Random(chk.seed * 104729 + 17)
    nstress = vf.tier_n(chk.tier, 40, 600)
    npause = vf.tier_n(chk.tier, 16, 160)
    nrestart = vf.tier_n(chk.tier, 10, 120)
    ntsan = vf.tier_n(chk.tier, 10, 100)
    crash_budget = vf.tier_n(chk.tier, 300, 100000)
    ledger_events = 0
    seen = set()

    def account(fam, wit_key, ok):
        nontriv = wit_key not in seen
        seen.add(wit_key)
        chk.count(fam, 1, 1 if (ok is not None and nontriv) else 0)

    phase_t = {}
    t_ph = time.time()

    def phase(name):
        nonlocal t_ph
        phase_t[name] = round(time.time() - t_ph, 1)
        t_ph = time.time()

    # A: stress, many processes at once (run several scenarios concurrently)
    jobs = []
    for i in range(nstress):
        d = os.path.join(work, "stress%d" % i)
        r = random.Random(rng.randint(1, 10**9))
        jobs.append(lambda d=d, r=r: (scenario_stress(chk, h, "asan", d, r, "stress"), d))
    for ok, d in vf.run_parallel(jobs, 6):
        led = read_ledger(os.path.join(d, "ledger"))
        ledger_events += len(led)
        account("stress_multiprocess", ("s", d), ok if len(set(e["pid"] for e in led)) >= 1 else None)
    phase("stress")
    # E: thread-only, TSan
    jobs = []
    for i in range(ntsan):
        d = os.path.join(work, "tsan%d" % i)
        r = random.Random(rng.randint(1, 10**9))
        jobs.append(lambda d=d, r=r: (scenario_stress(chk, ht, "tsan", d, r, "threads_tsan"), d))
    for ok, d in vf.run_parallel(jobs, 8):
        ledger_events += len(read_ledger(os.path.join(d, "ledger")))
        account("threads_tsan", ("t", d), ok)
    phase("tsan")
    # B: pause points
    jobs = []
    for i in range(npause):
        d = os.path.join(work, "pause%d" % i)
        r = random.Random(rng.randint(1, 10**9))
        jobs.append(lambda d=d, r=r: scenario_pause(chk, h, d, r, "pause"))
    reached = passed = 0
    for i, (ok, rch, bp) in enumerate(vf.run_parallel(jobs, 8)):
        reached += 1 if rch else 0
        passed += 1 if bp else 0
        account("pause_in_critical_section", ("p", i), ok if rch else None)
    phase("pause")
    # D: restart patterns
    jobs = []
    for i in range(nrestart):
        d = os.path.join(work, "restart%d" % i)
        r = random.Random(rng.randint(1, 10**9))
        jobs.append(lambda d=d, r=r: scenario_restart(chk, h, d, r, "restart"))
    for i, ok in enumerate(vf.run_parallel(jobs, 8)):
        account("restart_patterns", ("r", i), ok)
    jobs = []
    for i in range(vf.tier_n(chk.tier, 24, 300)):
        d = os.path.join(work, "rconc%d" % i)
        r = random.Random(rng.randint(1, 10**9))
        jobs.append(lambda d=d, r=r: scenario_restart_concurrent(chk, h, d, r, "restart_concurrent"))
    for i, ok in enumerate(vf.run_parallel(jobs, 8)):
        account("restart_concurrent_with_worker", ("rc", i), ok)
    phase("restart")
    # C: crash points
    tried, crashed, exhaustive = scenario_crashes(chk, h, work, rng, "crash", crash_budget)
    phase("crash")
    peer_hit = scenario_crash_peer(chk, h, work, rng, "crash_peer", vf.tier_n(chk.tier, 48, 4000))
    chk.counters["crash_with_peer_points_hit"] = peer_hit
    phase("crash_peer")
    chk.extra["phase_wall_s"] = phase_t

    chk.counters.update({"ledger_events": ledger_events, "pause_points_hit": reached,
                         "pause_b_ran_through_while_a_held_section": passed,
                         "crash_offsets_tried": tried, "crash_points_hit": crashed})
    chk.extra["crash_offsets_exhaustive_for_listed_configs"] = exhaustive
    chk.rule = ("histories of the real ProgObserver/Job/ParallelXJobCalc code: (stress) P=1..6 processes x T=1..4 threads on one job file "
                "(1..200 jobs, cache 1..8, maxjobs, failures, seeded delays inside the synchronisation); (pause) one process held "
                "at a hook inside the critical section while another synchronises; (restart) second wave with host()/stat() "
                "patterns; (crash) process killed after byte N of the job file / backup for every N (small configs) then "
                "recovery + restart; (tsan) thread-only runs. Oracle: offline exactly-once/no-loss/no-overwrite checker over "
                "the per-execution ledger and the parsed final job file. A history is non-trivial when it completed and is "
                "distinct (scenario parameters / crash offset).")
    chk.assumptions = ["crash model = process kill at write() granularity with emulated partial writes; storage-level tearing is out of reach",
                       "recovery after a crash = copy the backup over a damaged job file, then restart with stat(ASSIGNED)",
                       "the thread pool and worker loop are the real ParallelXJobCalc<std::vector<Job>>::Evaluate / JobOperator::Run (parallelxjobcalc.cc compiled unchanged; only libint2::initialize/finalize come from a stub header and EvalJob is the ledger-writing stub)"]
    chk.sanitizer = {"flavours": ["asan", "tsan"]}
    shutil.rmtree(work, ignore_errors=True)
