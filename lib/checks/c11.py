"""C11 option handling, Property XML round trip, as<T> (DESIGN.md §5 C11).

Monitors (all on the real libvotca_tools under ASan/UBSan):
  * merge     - python workers (lib/c11_oracle.py) generate user option files
                per shipped xtp calculator, run harness/c11 --mode merge (real
                OptionsHandler::ProcessUserInput / CalculatorOptions, defaults
                dir = <repo>/xtp/share/xtp/xml) and compare the resolved trees
                with the reference model of the documented merge;
  * roundtrip - harness/c11 --mode roundtrip: random trees, print -> LoadFromXML;
  * astable   - harness/c11 --mode astable: as<T> literal tables;
  * votca_property executable on every shipped XML file and on generated trees:
    its XML output must parse to the same tree as its input.
"""
import json
import os
import random
import re
import shutil
import sys
import xml.etree.ElementTree as ET

import vfcore as vf

sys.path.insert(0, os.path.join(vf.VERIF, "lib"))
import c11_oracle as orc  # noqa: E402

RULE = ("merge: for every shipped calculator description (xtp/share/xtp/xml/*.xml,"
        " links into subpackages/ resolved) user option files are generated from "
        "the description: each declared node is supplied with probability p in "
        "{0,.15,.4,.7,.95,1} (REQUIRED ones always), leaves get a valid value of "
        "their declared type (sometimes padded with blanks/newlines), list nodes "
        "get 0..3 elements per declared tag in shuffled order; negative cases "
        "carry exactly one injected fault (undeclared name at a random depth, "
        "REQUIRED node removed, value outside choices/type); family 'unchecked' "
        "puts free-form children below unchecked sections. A valid case is "
        "non-trivial when the user supplies at least one leaf and leaves at "
        "least one declared leaf to its default; every negative case is "
        "non-trivial; distinct = sha1(calculator + user XML). roundtrip: random "
        "trees (depth<=4, <=40 nodes, repeated sibling names, 0..3 attributes, "
        "UTF-8, inner blanks/tabs/newlines; families with & < > \" ' in values "
        "resp. attributes, mixed content), non-trivial = at least 2 nodes, "
        "distinct = hash of the printed text. as<T>: fixed literal table. "
        "Added: a second suite of synthetic descriptions (several files in one "
        "link attribute, links inside packages and list elements, nested and "
        "multi-tag lists, leaf list elements, unchecked sections); half of the "
        "user files are written the way a person writes them (pretty printed, "
        "CRLF, comments also inside values, CDATA, character references, "
        "<a></a>, single quotes, no/other XML declaration, BOM) and the model "
        "reads the written text with python's parser; multi-line leaf values "
        "and blanks between entity references; list elements where the first "
        "is complete and later ones sparse; setAdditionalChoices; every driver "
        "call is made on ONE handler object, on a fresh handler and on the "
        "shared one again (reuse_handler_vs_fresh). Harness families "
        "rt_mutated (add/add(Property)/deleteChildren/set/getOradd/value/"
        "attributes, then index check and print->load), copy (copy ctor / "
        "assignment equal and independent under mutation of either side), "
        "rt_loaded_twice (one Property object loaded from two files, from "
        "the same file twice; printing twice).")

XMLDIR = os.path.join(vf.REPO, "xtp", "share", "xtp", "xml")


def votca_property_exe(fl):
    return os.path.join(vf.flavour_dir(fl), "tools", "src", "tools",
                        "votca_property")


def run_retry(cmd, env, timeout):
    """run_proc, repeated while the loader reports a shared library that a
    concurrent build of another check is just re-linking"""
    import time
    for attempt in range(8):
        r = vf.run_proc(cmd, env=env, timeout=timeout)
        if r.rc == 127 and "error while loading shared libraries" in r.err:
            time.sleep(3 + 2 * attempt)
            continue
        break
    return r


def prebuild():
    vf.build_flavour("asan", ["votca_tools", "votca_property"])
    vf.build_harness("asan", "c11")


# ---------------------------------------------------------------------------
# votca_property executable
# ---------------------------------------------------------------------------

def pvalue(el):
    return ((el.text or "") + "".join(c.tail or "" for c in el)).strip(orc.WS)


def et_same(a, b, path=""):
    """names, order, attributes, trimmed values; returns '' or first difference"""
    here = path + "/" + a.tag
    if a.tag != b.tag:
        return "%s: name '%s'" % (here, b.tag)
    if dict(a.attrib) != dict(b.attrib):
        return "%s: attributes %r, expected %r" % (here, dict(b.attrib),
                                                   dict(a.attrib))
    if pvalue(a) != pvalue(b):
        return "%s: value %r, expected %r" % (here, pvalue(b), pvalue(a))
    if len(a) != len(b):
        return "%s: %d children, expected %d" % (here, len(b), len(a))
    for x, y in zip(a, b):
        d = et_same(x, y, here)
        if d:
            return d
    return ""


NAME1 = "abcdefghijklmnopqrstuvwxyzABCDEFGHIJKLMNOPQRSTUVWXYZ_"
PLAIN = NAME1 + "0123456789 .,:;/+-=()*#@!?%[]{}|~^$" + "äöß€→日本λµ"
META = ["&", "<", ">", "\"", "'", "a&b", "<b>", "&amp;"]


def rand_text(rng, meta, n):
    s = ""
    for _ in range(rng.randint(1, n)):
        if meta and rng.random() < 0.25:
            s += rng.choice(META)
        else:
            s += rng.choice(PLAIN)
    return s.strip() or "x"


def rand_tree(rng, meta_values, meta_attrs, depth=1, budget=None):
    budget = budget if budget is not None else [30]
    budget[0] -= 1
    el = ET.Element(rng.choice(NAME1) + "".join(
        rng.choice(NAME1 + "0123456789-") for _ in range(rng.randint(0, 6))))
    for _ in range(rng.choice([0, 0, 1, 2])):
        el.set(rng.choice(NAME1) + str(rng.randint(0, 99)),
               rand_text(rng, meta_attrs, 10))
    nk = 0 if depth >= 4 or budget[0] <= 0 else rng.choice([0, 1, 2, 3])
    for _ in range(nk):
        el.append(rand_tree(rng, meta_values, meta_attrs, depth + 1, budget))
    if nk == 0 and rng.random() < 0.85:
        el.text = rand_text(rng, meta_values, 14)
    return el


def has_meta(el):
    mv = ma = False
    for e in el.iter():
        if e.text and (any(c in e.text for c in "&<") or "]]>" in e.text):
            mv = True
        for v in e.attrib.values():
            if any(c in v for c in "&<\""):
                ma = True
    return mv, ma


def run_votca_property(chk, work, n_random):
    exe = votca_property_exe("asan")
    env = vf.lib_env("asan")
    files = []
    shipped = []
    for d in (XMLDIR, os.path.join(XMLDIR, "subpackages"),
              os.path.join(vf.REPO, "csg", "share", "xml")):
        for f in sorted(os.listdir(d)):
            if f.endswith(".xml") or f.endswith(".xml.in"):
                shipped.append(os.path.join(d, f))
    for p in shipped:
        files.append(("vp_shipped", p, None))
    rng = random.Random("vp/%d" % chk.seed)
    for i in range(n_random):
        fam = ["vp_plain", "vp_plain", "vp_value_metachar",
               "vp_attr_metachar"][i % 4]
        t = rand_tree(rng, fam == "vp_value_metachar", fam == "vp_attr_metachar")
        p = os.path.join(work, "vp_%d.xml" % i)
        if i % 2:
            # written the way a person would: pretty printed, comments, CDATA,
            # character references, CRLF, single quotes ...
            open(p, "w", encoding="utf-8", newline="").write(
                orc.to_xml(t, rng))
        else:
            ET.ElementTree(t).write(p, encoding="utf-8", xml_declaration=True)
        files.append((fam, p, t))

    def one(item):
        fam, p, _ = item
        return run_retry([exe, "--file", p, "--format", "XML", "--level",
                          "1"], env, 120)

    results = vf.run_parallel([lambda it=it: one(it) for it in files])
    for (fam, p, t), res in zip(files, results):
        wit = {"family": fam, "file": p, "cmd": "votca_property --file F "
               "--format XML --level 1"}
        try:
            src = open(p, encoding="utf-8", newline="").read()
        except OSError:
            src = ""
        if fam != "vp_shipped":
            wit["input_xml"] = src
        if res.rc == 127 and "loading shared libraries" in res.err:
            chk.inconclusive.append("libraries were being rebuilt: votca_property")
            continue
        if not chk.proc_result(res, "votca_property " + fam, wit):
            continue
        try:
            a = ET.parse(p).getroot()
        except ET.ParseError as e:
            chk.counters["vp_shipped_file_not_wellformed"] = \
                chk.counters.get("vp_shipped_file_not_wellformed", 0) + 1
            chk.sample({"family": fam, "file": p, "python_parse_error": str(e)})
            continue
        nodes = sum(1 for _ in a.iter())
        chk.count(fam, 1, nontrivial=1 if nodes >= 2 else 0)
        mv, ma = has_meta(a)
        diff = ""
        try:
            b = ET.fromstring(res.out)
            diff = et_same(a, b)
        except ET.ParseError as e:
            diff = "output is not well-formed XML: %s" % e
        if res.err.strip():
            diff = diff or ("stderr: " + res.err.strip()[:300])
        if diff:
            wit["got"] = diff
            wit["output"] = res.out[:2000]
            if mv or ma:
                chk.violation("xmlprint/metachar-not-escaped", wit,
                              "votca_property prints XML metacharacters "
                              "unescaped: its output is not the tree it read")
            else:
                chk.violation("votca_property/%s/tree-differs" % fam, wit,
                              "votca_property --format XML output is not the "
                              "tree it read")
    chk.counters["vp_shipped_files"] = len(shipped)
    # malformed input must be reported, not crash
    bad = os.path.join(work, "vp_bad.xml")
    open(bad, "w").write("<a><b></a>\n")
    res = run_retry([exe, "--file", bad], env, 60)
    if chk.proc_result(res, "votca_property malformed-input", {"file": bad}):
        chk.count("vp_malformed", 1)
        if "error" not in (res.err + res.out).lower():
            chk.violation("votca_property/malformed-input-silent",
                          {"input": "<a><b></a>", "stdout": res.out,
                           "stderr": res.err},
                          "a malformed XML file is read without any error text")


# ---------------------------------------------------------------------------

def run(chk):
    shards = 16
    per_calc = vf.tier_n(chk.tier, 40, 1000)
    n_trees = vf.tier_n(chk.tier, 2000, 50000)
    n_vp = vf.tier_n(chk.tier, 40, 400)
    vf.build_flavour("asan", ["votca_tools", "votca_property"])
    h = vf.build_harness("asan", "c11")
    env = vf.lib_env("asan")
    work = vf.scratch_dir("C11")
    chk.rule = RULE
    chk.sanitizer = {"flavour": "asan", "reports": 0}
    oracle = os.path.join(vf.VERIF, "lib", "c11_oracle.py")

    jobs = []
    for s in range(shards):
        jobs.append(("merge %d" % s, [
            sys.executable, oracle, "--harness", h, "--defaults", XMLDIR,
            "--work", os.path.join(work, "m%d" % s), "--seed", str(chk.seed),
            "--shard", str(s), "--shards", str(shards), "--per-calc",
            str(per_calc)]))
    for s in range(shards):
        jobs.append(("roundtrip %d" % s, [
            h, "--mode", "roundtrip", "--seed", str(chk.seed), "--shard",
            str(s), "--n", str((n_trees + shards - 1) // shards), "--tmp",
            work]))
    jobs.append(("astable", [h, "--mode", "astable"]))
    results = vf.run_parallel(
        [lambda c=c: run_retry(c, env, 3600) for _, c in jobs])
    calcs = set()
    for (what, _), res in zip(jobs, results):
        if res.rc == 127 and "loading shared libraries" in res.err:
            chk.inconclusive.append("libraries were being rebuilt: " + what)
            continue
        for rec in res.records():
            if rec.get("t") == "driver_abort":
                chk.sanitizer["reports"] += 1
                key = vf.sanitizer_key(rec.get("stderr", ""))
                if not key:
                    m = re.search(r"Assertion '([^']+)' failed",
                                  rec.get("stderr", ""))
                    key = ("assertion/libstdc++/" + m.group(1).replace(" ", "")
                           + "/c11-merge-driver") if m else \
                        "crash/rc%s/c11-merge-driver" % rec.get("rc")
                chk.violation(key, rec, "the merge driver aborted (" + what + ")")
        if not chk.ingest(res, "c11 " + what):
            chk.sanitizer["reports"] += 0 if res.rc == 0 else 1
    run_votca_property(chk, work, n_vp)

    all_calcs = orc.calculators(XMLDIR)
    chk.extra["calculators"] = all_calcs
    chk.extra["calculators_covered"] = len(all_calcs)
    chk.extra["user_inputs_per_calculator"] = per_calc
    pk = set()
    for c in all_calcs:
        orc.load_decl(XMLDIR, c, pk)
    chk.extra["subpackages_reached_through_links"] = sorted(pk)
    # calculators whose resolved description holds a section with the attribute
    # unchecked (found by attribute, not by name)
    chk.extra["calculators_with_unchecked_section"] = [
        c for c in all_calcs if orc.has_unchecked(orc.load_decl(XMLDIR, c))]
    chk.extra["unchecked_cases_per_calculator"] = {
        k.split("/", 1)[1]: v for k, v in chk.counters.items()
        if k.startswith("unchecked_cases/")}
    chk.assumptions = [
        "the reference model is the documented merge (property statement + "
        "optionshandler.h comments); it judges names, per-name order and "
        "multiplicity of children and trimmed leaf values - not the relative "
        "order of differently named siblings, not the text of sections, not "
        "attributes of ProcessUserInput results",
        "typed leaves without a default (diabatization state_idx_1/2) are "
        "always supplied in valid cases; leaving them out is only recorded "
        "(counter observed_nodefault_leaf_omitted_*)",
        "0 for int+/float+, inf/nan and out-of-range integers are not generated",
        "literal tab/newline inside attribute values is recorded, not judged "
        "(XML attribute-value normalisation)",
        "a Property object that is LoadFromXML()ed a second time: the "
        "unchanged code appends the second document as a further top node; a "
        "loader that replaced the content would satisfy the statement as well "
        "- both are accepted, judged is that every loaded document is the "
        "written tree",
        "aliasing calls (p.add(child_of_p), p = child_of_p) are outside the "
        "statement and are not made",
        "csg_defaults.xml.in and the other csg XML files are not option "
        "descriptions of OptionsHandler; they are covered by the votca_property "
        "round trip only"]
    shutil.rmtree(work, ignore_errors=True)


def replay(path):
    """re-run one witness on the current tree: merge witnesses go through the
    real ProcessUserInput again and are judged by the model; round-trip
    witnesses are re-built from the recorded tree, printed by the real
    operator<< via votca_property and re-parsed"""
    w = json.load(open(path))
    wit = w["witness"]
    vf.build_flavour("asan", ["votca_tools", "votca_property"])
    h = vf.build_harness("asan", "c11")
    env = vf.lib_env("asan")
    work = vf.scratch_dir("C11replay")
    rc = 0
    if "user_xml" in wit:
        ddir = XMLDIR
        if wit["calc"].startswith("synth_"):
            ddir = orc.write_synthetic(os.path.join(work, "synth_defaults"))
        f = os.path.join(work, "user.xml")
        open(f, "w", encoding="utf-8", newline="").write(wit["user_xml"])
        man = os.path.join(work, "man.txt")
        add = wit.get("additional_choices") or []
        open(man, "w").write("replay\t%s\t%s\t%s%s\n" % (
            "A" if add else "P", wit["calc"], f,
            ("\t" + ",".join(add)) if add else ""))
        res = run_retry([h, "--mode", "merge", "--defaults", ddir + "/",
                         "--manifest", man], env, 600)
        rec = [r for r in res.records() if r.get("t") == "case"]
        print(res.out.strip()[:3000])
        if rec:
            out = orc.Out()
            fam = wit["family"]
            c = orc.Case("replay", wit["calc"], fam, None)
            c.xml = wit["user_xml"]
            c.additional = add
            if "injected_fault" in wit:
                c.fault = (wit["injected_fault"]["kind"],
                           wit["injected_fault"]["option"])
            orc.judge(out, c, rec[0], orc.load_decl(ddir, wit["calc"]), ddir)
            rc = 1 if out.violations else 0
    elif "printed_xml" in wit or "input_xml" in wit:
        # the tree as it should be (attributes/values properly escaped) is fed
        # to votca_property, whose output must parse to the same tree
        def build(t):
            e = ET.Element(t["n"], dict(t.get("a", {})))
            e.text = t.get("v", "")
            for c in t.get("c", []):
                e.append(build(c))
            return e
        f = os.path.join(work, "tree.xml")
        if "tree" in wit:
            ET.ElementTree(build(wit["tree"])).write(f, encoding="utf-8",
                                                      xml_declaration=True)
        else:
            open(f, "w", encoding="utf-8").write(wit["input_xml"])
        res = run_retry([votca_property_exe("asan"), "--file", f, "--format",
                         "XML", "--level", "1"], env, 120)
        print(res.out[:2000])
        try:
            d = et_same(ET.parse(f).getroot(), ET.fromstring(res.out))
        except ET.ParseError as e:
            d = "output is not well-formed XML: %s" % e
        if d:
            print("difference: " + d)
            rc = 1
    if rc:
        print("VIOLATION property=C11 replay=%s key=%s (reproduced)" % (
            path, w.get("key")))
    else:
        print("C11 replay: no violation on the current tree")
    shutil.rmtree(work, ignore_errors=True)
    return rc
