"""C20 unit conversions and physical constants (DESIGN.md §5 C20).

One exhaustive monitor process (harness/c20.cc, ASan/UBSan):
UnitConverter::convert over all ordered pairs and triples of every enum,
derived units vs quotients of the base conversions, every tools::conv
constant vs CODATA 2018 / SI values embedded in the checker, conv:: vs
UnitConverter, the factors hard-coded in the gro/xyz/pdb/LAMMPS/DL_POLY
readers and writers (observed through one-bead files) vs the unit each module
declares and vs the format's convention, Elements getters for every symbol of
the library vs an embedded periodic table.

The run is exhaustive (finite domain): seed and tier do not change the set of
cases; VERIF_SEED only names the scratch directory.
"""
import json
import os
import shutil

import vfcore as vf

RULE = ("exhaustive enumeration: all ordered pairs and triples of the units of "
        "each of the 9 UnitConverter enums (212 pairs, 1128 triples), all 14 "
        "tools::conv constants, 7 conv identities, 12 conv-vs-UnitConverter "
        "pairs, every (module, quantity) factor of the gro/xyz/pdb/LAMMPS "
        "dump/LAMMPS data/DL_POLY readers and writers observed through a "
        "one-bead file (dump reader: x, xu and xs coordinate columns and the "
        "stored box must share one Angstrom->nm factor), every element symbol present in any table of "
        "tools::Elements. Tolerances: UnitConverter identities 1e-12 "
        "relative; reference / cross-table agreement: half a unit of the 4th "
        "significant digit; identities among the independently tabulated "
        "conv:: constants: relative 5e-5 (defect measured and reported). A "
        "case is non-trivial when it involves two different units / a named "
        "constant / a module factor / an element; distinct = its name.")


def _flags():
    return "-I%s" % os.path.join(vf.REPO, "csg/src/libcsg")


def prebuild():
    vf.build_harness("asan", "c20", flags=_flags())


def run(chk):
    h = vf.build_harness("asan", "c20", flags=_flags())
    env = vf.lib_env("asan")
    work = vf.scratch_dir("C20")
    chk.rule = RULE
    chk.sanitizer = {"flavour": "asan", "reports": 0}
    res = vf.run_proc([h, "--dir", os.path.join(work, "io")], env=env,
                      timeout=600)
    if not chk.ingest(res, "c20 exhaustive monitor") and res.rc != 0:
        chk.sanitizer["reports"] += 1
    chk.extra["exhaustive"] = True
    chk.extra["reference"] = ("CODATA 2018 (a0, e, Eh, u, kB, hbar, N_A), SI "
                              "prefixes, thermochemical calorie 4.184 J "
                              "(International Table calorie 4.1868 J accepted "
                              "against the reference and counted), IUPAC "
                              "standard atomic weights 1985..2021 span")
    chk.assumptions = [
        "the enum member lists are embedded in the monitor; an additional "
        "member is detected by probing the first value after the known ones "
        "(inconclusive), except for the two-member ChargeUnit",
        "kcal: either recognised calorie is accepted against the reference; "
        "the two library tables must still agree with each other",
        "LAMMPS dump files carry no unit style: the dump modules' factors are "
        "compared with the units the modules declare (LAMMPS 'real'), not "
        "with a format convention",
        "element masses: tolerance = half a unit of the 4th significant "
        "digit around the span of IUPAC recommendations 1985..2021; elements "
        "La..Lu and beyond Rn are absent from the library (counted, not "
        "judged)",
        "the DL_POLY writer is used exactly once in the process"]
    shutil.rmtree(work, ignore_errors=True)


def replay(path):
    w = json.load(open(path))
    chk = vf.Check("C20", "quick", 1)
    chk.known = []
    run(chk)
    hit = w["key"] in chk.violations
    print("replay C20 key=%s: %s" % (w["key"], "REPRODUCED" if hit else
                                     "not reproduced"))
    if hit:
        print("VIOLATION property=C20 replay=%s key=%s" % (path, w["key"]))
    return 1 if hit else 0
