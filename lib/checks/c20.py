"""C20 unit conversions and physical constants (DESIGN.md §5 C20).

One exhaustive monitor process (harness/c20.cc, ASan/UBSan):
UnitConverter::convert over all ordered pairs and triples of every enum,
derived units vs quotients of the base conversions, every tools::conv
constant vs CODATA 2018 / SI values embedded in the checker, conv:: vs
UnitConverter, the factors hard-coded in the gro/xyz/pdb/LAMMPS/DL_POLY
readers and writers (observed through one-bead files) vs the unit each module
declares and vs the format's convention, Elements getters for every symbol of
the library vs an embedded periodic table.

The run is exhaustive (finite domain): seed and tier do not change the set of
cases; VERIF_SEED only names the scratch directory.
"""
import json
import os
import shutil

import vfcore as vf

RULE = ("exhaustive enumeration: all ordered pairs and triples of the units of "
        "each of the 9 UnitConverter enums (212 pairs, 1128 triples), all 14 "
        "tools::conv constants, 7 conv identities, 12 conv-vs-UnitConverter "
        "pairs, every (module, quantity) factor of the gro/xyz/pdb/LAMMPS "
        "dump/LAMMPS data/DL_POLY readers and writers observed through a "
        "one-bead file (dump reader: x, xu and xs coordinate columns and the "
        "stored box must share one Angstrom->nm factor), every element symbol present in any table of "
        "tools::Elements. Tolerances: UnitConverter identities 1e-12 "
        "relative; reference / cross-table agreement: half a unit of the 4th "
        "significant digit; identities among the independently tabulated "
        "conv:: constants: relative 5e-5 (defect measured and reported). A "
        "case is non-trivial when it involves two different units / a named "
        "constant / a module factor / an element; distinct = its name.")


def _flags():
    return "-I%s" % os.path.join(vf.REPO, "csg/src/libcsg")


def prebuild():
    vf.build_harness("asan", "c20", flags=_flags())


def run(chk):
    h = vf.build_harness("asan", "c20", flags=_flags())
    env = vf.lib_env("asan")
    work = vf.scratch_dir("C20")
    chk.rule = RULE
    chk.sanitizer = {"flavour": "asan", "reports": 0}
    res = vf.run_proc([h, "--dir", os.path.join(work, "io")], env=env,
                      timeout=600)
    if not chk.ingest(res, "c20 exhaustive monitor") and res.rc != 0:
        chk.sanitizer["reports"] += 1
    boltzmann_kb(chk, work)
    chk.extra["exhaustive"] = True
    chk.extra["reference"] = ("CODATA 2018 (a0, e, Eh, u, kB, hbar, N_A), SI "
                              "prefixes, thermochemical calorie 4.184 J "
                              "(International Table calorie 4.1868 J accepted "
                              "against the reference and counted), IUPAC "
                              "standard atomic weights 1985..2021 span")
    chk.assumptions = [
        "the enum member lists are embedded in the monitor; an additional "
        "member is detected by probing the first value after the known ones "
        "(inconclusive), except for the two-member ChargeUnit",
        "kcal: either recognised calorie is accepted against the reference; "
        "the two library tables must still agree with each other",
        "LAMMPS dump files carry no unit style: the dump modules' factors are "
        "compared with the units the modules declare (LAMMPS 'real'), not "
        "with a format convention",
        "element masses: tolerance = half a unit of the 4th significant "
        "digit around the span of IUPAC recommendations 1985..2021; elements "
        "La..Lu and beyond Rn are absent from the library (counted, not "
        "judged)",
        "the DL_POLY writer is used exactly once in the process"]
    shutil.rmtree(work, ignore_errors=True)


def boltzmann_kb(chk, work):
    """kB as applied by csg_boltzmann's Boltzmann inversion (another place that
    encodes kB*T in kJ/mol): U_i = -kB T ln(p_i/p_max) must hold with the CODATA
    kB for the default temperature and after `tab set T <value>` (a two-step
    command sequence), observed on the real executable"""
    import math
    import random
    d = os.path.join(work, "boltz")
    os.makedirs(d)
    rng = random.Random(7)
    nmol, nfr = 40, 6
    open(os.path.join(d, "topol.xml"), "w").write(
        '<topology>\n <molecules>\n  <molecule name="DIM" nmols="%d" nbeads="2">\n'
        '   <bead name="A" type="A" mass="1" q="0" />\n   <bead name="B" type="A" mass="1" q="0" />\n'
        '  </molecule>\n </molecules>\n <bonded>\n  <bond>\n   <name>bond</name>\n   <beads>\n    DIM:A DIM:B\n'
        '   </beads>\n  </bond>\n </bonded>\n</topology>\n' % nmol)
    with open(os.path.join(d, "traj.gro"), "w") as f:
        for fr in range(nfr):
            f.write("frame t= %d.0\n%5d\n" % (fr, 2 * nmol))
            k = 1
            for m in range(nmol):
                a = [rng.uniform(1, 9) for _ in range(3)]
                bl = rng.gauss(0.25, 0.03)
                u = [rng.gauss(0, 1) for _ in range(3)]
                nu = math.sqrt(sum(x * x for x in u))
                b = [a[i] + bl * u[i] / nu for i in range(3)]
                for nm, p in (("A", a), ("B", b)):
                    f.write("%5d%-5s%5s%5d%8.3f%8.3f%8.3f\n" % (m + 1, "DIM", nm, k, p[0], p[1], p[2]))
                    k += 1
            f.write("%10.5f%10.5f%10.5f\n" % (10, 10, 10))
    temps = [None, 300.0, 450.0, 77.0]
    cmds = ["hist set n 30", "tab set n 30", "hist hist.dat *:bond:*"]
    for k, t in enumerate(temps):
        if t is not None:
            cmds.append("tab set T %g" % t)
        cmds.append("tab pot%d.dat *:bond:*" % k)
    cmds.append("q")
    exe = os.path.join(vf.flavour_dir("asan"), "csg", "src", "csg_boltzmann", "csg_boltzmann")
    vf.build_flavour("asan", ["csg_boltzmann"])
    res = vf.run_proc([exe, "--top", "topol.xml", "--trj", "traj.gro", "--no-map"], env=vf.lib_env("asan"),
                      cwd=d, timeout=300, stdin=("\n".join(cmds) + "\n").encode())
    if not chk.proc_result(res, "csg_boltzmann interactive run", {"commands": cmds}):
        return
    KB = 8.314462618e-3  # kJ/(mol K), CODATA 2018 (R)

    def col(path, c):
        return [float(l.split()[c]) for l in open(path) if l.strip() and not l.startswith("#")]
    try:
        p = col(os.path.join(d, "hist.dat"), 1)
        pots = [col(os.path.join(d, "pot%d.dat" % k), 1) for k in range(len(temps))]
    except (OSError, ValueError, IndexError) as e:
        chk.inconclusive.append("csg_boltzmann output not readable: %s" % e)
        return
    pmax = max(p)
    for k, t in enumerate(temps):
        T = 300.0 if t is None else t
        ratios = []
        for pi, ui in zip(p, pots[k]):
            if pi > 0 and pi < 0.9 * pmax and len(p) == len(pots[k]):
                ratios.append(ui / (-T * math.log(pi / pmax)))
        chk.count("csg_boltzmann_kB", 1, 1 if ratios else 0)
        if not ratios:
            chk.inconclusive.append("csg_boltzmann: no usable bins")
            continue
        kb = sorted(ratios)[len(ratios) // 2]
        chk.counters["csg_boltzmann_effective_kB_case%d_x1e9" % k] = int(kb * 1e9)
        if not abs(kb - KB) <= 5e-5 * KB or max(abs(r - kb) for r in ratios) > 1e-4 * KB:
            chk.violation("app/csg_boltzmann/boltzmann-constant", {
                "commands": cmds, "temperature": T, "set_explicitly": t is not None,
                "effective_kB_kJ_per_mol_K": kb, "expected": KB},
                "csg_boltzmann 'tab' does not return U = -kB*T*ln(p/p_max) in kJ/mol with the CODATA Boltzmann constant")


def replay(path):
    w = json.load(open(path))
    chk = vf.Check("C20", "quick", 1)
    chk.known = []
    run(chk)
    hit = w["key"] in chk.violations
    print("replay C20 key=%s: %s" % (w["key"], "REPRODUCED" if hit else
                                     "not reproduced"))
    if hit:
        print("VIOLATION property=C20 replay=%s key=%s" % (path, w["key"]))
    return 1 if hit else 0
