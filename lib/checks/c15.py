"""C15 classical multipole interactions: library monitor on the stand-alone xtp
subset under ASan/UBSan."""
import vfcore as vf

RULE = ("site pairs with every rank combination 0/1/2 x 0/1/2 (cycled), "
        "separations 0.5..100 bohr (10% exactly 0.5, 10% exactly 100) in random "
        "directions (12% along an axis / in a coordinate plane), origin up to 50 "
        "bohr away, charges / dipoles / quadrupole components of magnitude "
        "0.01..100 with random signs; 40% 'pure' pairs (only the rank-l moment "
        "non-zero, so one block of the interaction tensor is isolated), else all "
        "moments up to the rank. Oracles in long double: E(A,B)=E(B,A); common "
        "rotation through StaticSite::Rotate and through an independent Cartesian "
        "rotation of positions and moments (moments compared component-wise), "
        "common translation up to 1000 bohr; q1q2/R; Coulomb sums over "
        "point-charge clusters with the same charge, dipole (+-mu/d at +-d/2) and "
        "traceless quadrupole (axial pairs along the principal axes), cluster "
        "sizes d, d/2, d/4 with d = 0.04 R, Richardson-extrapolated, tolerance "
        "5e-7 x (|q|+|mu|/R+|Theta|/R^2)_A (..)_B / R; field slot of a PolarSite "
        "after ApplyStaticField = central difference of the code's energy in the "
        "dipole components; induced field (every 2nd pair, own PolarSegments "
        "of 1..3 sites, ranks 0/1/2, centre distance 2.5..40 bohr, damping "
        "0.39 or 0.01..10, isotropic/anisotropic polarisabilities 0.5..50, "
        "induced dipoles 1e-3..10 set with setInduced_Dipole): the slot "
        "filled by ApplyInducedField<V|noE_V> = sum_a T(a,b)^T mu_ind(a) with T "
        "from FillTholeInteraction = central difference of "
        "CalcPolarEnergy().E_indu_indu() in the target's induced dipole; "
        "exactly zero when all induced dipoles are zero; returned energy = "
        "sum mu_ind . static field (ApplyStaticField), E_indu_stat = both "
        "directions; segment energies (SS, PP, SP, PS, swapped) = sum over "
        "site pairs = cluster sum; Thole tensor symmetric, traceless and equal to "
        "the undamped tensor when a u^3 >= 45 (includes all pairs at 100 bohr), "
        "gradient consistency l5 = l3 - R l3'/3 for 1e-3 < a u^3 < 35; "
        "DipoleDipoleInteraction symmetric and consistent with its elements (small operators in the pair loop; two "
        "extra processes apply operators of 30..250 sites with 2..8 OpenMP threads, 12 products each). A "
        "pair is non-trivial when a rank >= 1 site is involved; distinct = hash "
        "of both moment sets and a position.")


def prebuild():
    vf.build_harness("asan", "c15", xtp=True)


def run(chk):
    h = vf.build_harness("asan", "c15", xtp=True)
    env = vf.lib_env("asan")
    shards = 16
    work = vf.scratch_dir("C15")
    n = vf.tier_n(chk.tier, 5000, 200000)
    per = (n + shards - 1) // shards
    chk.rule = RULE
    chk.sanitizer = {"flavour": "asan", "reports": 0}
    jobs = [lambda s=s: vf.run_proc(
        [h, "--seed", str(chk.seed), "--shard", str(s), "--n", str(per), "--dir", work],
        env=env, timeout=3000) for s in range(shards)]
    nd = vf.tier_n(chk.tier, 8, 60)
    env_omp = dict(env, OMP_NUM_THREADS="8")
    jobs += [lambda s=s: vf.run_proc(
        [h, "--seed", str(chk.seed), "--shard", str(100 + s), "--ddi", str(nd)],
        env=env_omp, timeout=3000) for s in range(2)]
    for s, res in enumerate(vf.run_parallel(jobs)):
        if not chk.ingest(res, "c15 shard %d" % s):
            chk.sanitizer["reports"] += 0 if res.rc == 0 else 1
    import shutil
    shutil.rmtree(work, ignore_errors=True)
    chk.assumptions = [
        "moments beyond a site's rank are zero (as the mps reader guarantees)",
        "the Thole clauses use the damping argument a u^3 computed from the "
        "inputs with the largest principal polarisability of each site; the "
        "band 35 <= a u^3 < 45 and a u^3 <= 1e-3 is counted, not judged",
        "the gradient-consistency clause (thole/not-a-gradient-tensor) is "
        "supplementary: it follows from the tensor being the second derivative "
        "of a radial smeared-charge potential and assumes no damping formula",
        "the 'worst_*_sum_over_shards' counters are sums of the per-shard "
        "maxima of error/scale (calibration evidence for the tolerances)",
    ]
