"""C17 checkpoint files return exactly what was stored: library monitor on the
stand-alone xtp subset + system HDF5, under ASan/UBSan.

Two parts:
 * randomised write/read histories over the families that hold (16 shards);
 * the deterministic edge/suspect families of DESIGN.md §6 item 17 (overwrite
   with a different shape / kind, empty shapes, vector<string> into a pre-filled
   destination). Every sub-case runs in its own process (some abort under
   ASan) and every family reports under its OWN structural key.
"""
import json
import os
import shutil

import vfcore as vf

RULE = ("history = 1..3 write sessions (CREATE / MODIFY / default ctor, optional "
        "truncation of an older file) with 1..14 writes each into 8 nested group "
        "paths (openChild chains and getWriter(path)), 30% overwrites of an "
        "earlier name with the same kind and shape; values: Index/int/unsigned/"
        "double/float/bool/string scalars, vectors of Index/int/double/string, "
        "MatrixXd (1xN, Nx1, 0xN, square, non-square, up to 300x300), VectorXd, "
        "Vector3d, vector<Vector3d>, CptTable rows (own row type and "
        "StaticSegment via AtomContainer), doubles incl. -0.0, denormals, "
        "+-inf, quiet/signalling NaN payloads, arbitrary bit patterns; strings "
        "empty / ASCII / UTF-8 / arbitrary non-NUL bytes / up to 140 kB. Oracle: "
        "in-memory ledger (group,name)->last value; after all handles are closed "
        "a FRESH handle (READ or MODIFY) reads every name into a FRESH "
        "destination: memcmp-identical, shapes identical; 3 never-written names "
        "per history must throw; a READ-level session must refuse getWriter, and "
        "the file must be byte-identical after write attempts through a writer "
        "built on the reader's location. A history is non-trivial when it has a "
        "non-scalar value or an overwrite; distinct = hash of its op list. "
        "Deterministic edge families: one evaluation per (sequence, session "
        "variant), each its own process.")


def _harness():
    return vf.build_harness("asan", "c17", xtp=True)


def prebuild():
    _harness()


def _env():
    env = vf.lib_env("asan")
    env["HDF5_USE_FILE_LOCKING"] = "FALSE"
    return env


def _suspect_list(h, env, scratch):
    res = vf.run_proc([h, "--mode", "list", "--dir", scratch], env=env,
                      timeout=120)
    if res.rc != 0:
        raise vf.HarnessFailure("c17 --mode list failed: " + res.err[-2000:])
    return [json.loads(l) for l in res.out.splitlines() if l.startswith("{")]


def run(chk):
    h = _harness()
    env = _env()
    scratch = vf.scratch_dir(chk.pid)
    shards = 16
    n = vf.tier_n(chk.tier, 2000, 60000)
    per = (n + shards - 1) // shards
    chk.rule = RULE
    chk.sanitizer = {"flavour": "asan", "reports": 0}
    try:
        subs = _suspect_list(h, env, scratch)
        jobs = []
        for s in range(shards):
            d = os.path.join(scratch, "r%d" % s)
            jobs.append(lambda s=s, d=d: vf.run_proc(
                [h, "--mode", "random", "--seed", str(chk.seed), "--shard",
                 str(s), "--n", str(per), "--dir", d], env=env, timeout=3000))
        for k, sc in enumerate(subs):
            d = os.path.join(scratch, "s%d" % k)
            jobs.append(lambda sc=sc, d=d: vf.run_proc(
                [h, "--mode", "suspect", "--case", sc["case"], "--sub",
                 str(sc["sub"]), "--dir", d], env=env, timeout=600))
        results = vf.run_parallel(jobs)
        for s in range(shards):
            if not chk.ingest(results[s], "c17 random shard %d" % s):
                chk.sanitizer["reports"] += 0 if results[s].rc == 0 else 1
        aborted = {}
        for sc, res in zip(subs, results[shards:]):
            what = "c17 edge case %s #%d" % (sc["case"], sc["sub"])
            if res.timed_out or res.rc == 0:
                chk.ingest(res, what)
                continue
            # the sub-case aborted (sanitizer / assertion): it stays under the
            # family's own key, the sanitizer report is part of the witness
            chk.sanitizer["reports"] += 1
            skey = vf.sanitizer_key(res.err) or ("crash/rc%s" % res.rc)
            chk.count(sc["case"], 1, nontrivial=1)
            aborted[sc["case"]] = aborted.get(sc["case"], 0) + 1
            chk.violation(sc["case"],
                          {"input": sc["input"], "aborts_with": skey,
                           "rc": res.rc, "stderr_tail": res.err[-5000:],
                           "replay": "c17 --mode suspect --case %s --sub %d "
                                     "--dir <scratch>" % (sc["case"], sc["sub"])},
                          "the process aborts: " + skey)
        chk.extra["edge_cases"] = len(subs)
        chk.extra["edge_cases_aborted"] = aborted
    finally:
        shutil.rmtree(scratch, ignore_errors=True)
    chk.assumptions = [
        "'bit-identical' is judged for a read into a fresh destination through "
        "a fresh file handle after all writing handles were closed; reads into "
        "pre-filled destinations are separate families (prefilled/*, "
        "vector_string/*-destination)",
        "strings contain no NUL byte (HDF5 variable-length C strings)",
        "one kind per (group,name) in the random histories; a name re-written "
        "with another kind or shape is judged only in the deterministic "
        "overwrite/different-* families",
        "getWriter(path) for a nested path whose parents do not exist throws; "
        "this is counted as an observation, not judged (nested groups are "
        "created level by level as VOTCA itself does)",
        "site positions of the StaticSegment workload are finite "
        "(AtomContainer::calcPos averages them); element names are valid",
    ]


def replay(path):
    w = json.load(open(path))
    wit = w.get("witness", {})
    h = _harness()
    env = _env()
    scratch = vf.scratch_dir("C17replay")
    try:
        if isinstance(wit.get("case"), dict) and "history" in wit["case"]:
            c = wit["case"]
            cmd = [h, "--mode", "random", "--seed", str(c["seed"]), "--shard",
                   str(c["shard"]), "--only", str(c["history"]), "--dir",
                   scratch]
        else:
            inp = wit.get("input", {})
            subs = _suspect_list(h, env, scratch)
            sub = [s for s in subs if s["input"] == inp]
            if not sub:
                print("cannot identify the case of", path)
                return 2
            cmd = [h, "--mode", "suspect", "--case", sub[0]["case"], "--sub",
                   str(sub[0]["sub"]), "--dir", scratch]
        res = vf.run_proc(cmd, env=env, timeout=600)
        print(res.out[-4000:])
        if res.rc != 0:
            print(res.err[-4000:])
            return 1
        return 1 if any(r.get("t") == "violation" for r in res.records()) else 0
    finally:
        shutil.rmtree(scratch, ignore_errors=True)
