"""C16 structure comparison / graph decomposition: library monitor under
ASan/UBSan with reference BFS / union-find oracles and random relabelling.
See DESIGN.md §5 C16."""
import vfcore as vf

RULE = ("graphs: every isomorphism class of simple graphs with 1..6 vertices "
        "(208 classes, canonical form by brute force over all permutations), "
        "classes up to 12 vertices (chains, rings, fused/spiro rings, stars, "
        "trees, theta graphs, complete graphs, ladders, rings with tails, "
        "disconnected mixtures incl. isolated vertices), random graphs with "
        "7..60 vertices (molecule-like, sparse G(n,m), dense). Each graph is "
        "given bead names/masses (all equal, two kinds, random, by degree) "
        "and relabelled: ids a permutation of 0..n-1, sparse small, sparse up "
        "to 2e9 or up to 4e18; random bead and edge insertion order, random "
        "endpoint order. Oracles: BFS hop counts from every vertex (n<=8) or "
        "3 random starts, union-find components, vertex/edge set comparison. "
        "A case is non-trivial with >= 2 edges and a labelling different "
        "from the natural one; distinct = hash(graph, ids, edge order, "
        "names). Reuse family (every case in quick, every 4th in thorough): "
        "ONE pair of BeadStructure objects is queried repeatedly "
        "(isStructureEquivalent both directions and again, isSingleStructure "
        "and breakIntoStructures in varying order) and modified in between "
        "(a bead added to one structure only -> different; to both -> "
        "equivalent; a connection added to one -> verdict of freshly built "
        "structures; to both -> equivalent), every answer judged by a fresh "
        "reference; ONE Graph object gets findStructureId twice, a second "
        "exploration from another start, then reduce/expand and decouple. "
        "Interleaved family: 2-3 visitors (GraphDistVisitor, BF, DF) on "
        "their own graphs that share vertex numbers 0..n-1 are advanced "
        "alternately in random order through initialize / queEmpty / "
        "nextEdge / exec; distance labels and explored sets must equal the "
        "same exploration run alone. Concurrent family: 2..8 std::threads "
        "released together, each with private graphs / bead structures "
        "(shared vertex numbers) running exploreGraph+GraphDistVisitor, "
        "findStructureId, isStructureEquivalent(renumbered copy), "
        "reduceGraph+expandGraph, decoupleIsolatedSubGraphs; every result "
        "must equal the serial result (asan flavour); the same program in "
        "the tsan flavour reports data races in /repo code.")


def prebuild():
    vf.build_harness("asan", "c16")
    vf.build_harness("tsan", "c16")


def run(chk):
    shards = 16
    relabels = vf.tier_n(chk.tier, 6, 20)
    classes = vf.tier_n(chk.tier, 14, 120)
    rnd = vf.tier_n(chk.tier, 6, 40)
    h = vf.build_harness("asan", "c16")
    env = vf.lib_env("asan")
    chk.rule = RULE
    chk.sanitizer = {"flavour": "asan", "reports": 0}
    jobs = [lambda s=s: vf.run_proc(
        [h, "--seed", str(chk.seed), "--shard", str(s), "--shards",
         str(shards), "--relabels", str(relabels), "--classes", str(classes),
         "--random", str(rnd), "--reuse-every",
         str(vf.tier_n(chk.tier, 1, 4))], env=env, timeout=3000)
        for s in range(shards)]
    for s, res in enumerate(vf.run_parallel(jobs)):
        if not chk.ingest(res, "c16 shard %d" % s):
            chk.sanitizer["reports"] += 0 if res.rc == 0 else 1
    # explorations in progress at the same time: interleaved stepping of
    # several visitors in one thread, then threads with private objects
    # (asan: values against the serial run; tsan: races in /repo code). The
    # threaded part runs on its own so that the threads really overlap.
    q = chk.tier != "thorough"
    ht = vf.build_harness("tsan", "c16")
    chk.sanitizer.update({"flavours": ["asan", "tsan"], "tsan_reports": 0})
    jobs = [lambda s=s: vf.run_proc(
        [h, "--part", "inter", "--seed", str(chk.seed), "--shard", str(s),
         "--n", str(300 if q else 6000)], env=env, timeout=3000)
        for s in range(4)]
    for s, res in enumerate(vf.run_parallel(jobs)):
        if not chk.ingest(res, "c16 interleaved shard %d" % s):
            chk.sanitizer["reports"] += 0 if res.rc == 0 else 1
    cplan = [("asan", h, env, T, 6 if q else 60)
             for T in ((2, 4, 8) if q else (2, 3, 4, 6, 8))]
    cplan += [("tsan", ht, vf.lib_env("tsan"), T, 4 if q else 25)
              for T in ((3, 6) if q else (2, 4, 8))]
    jobs = [lambda hh=hh, ee=ee, T=T, r=r, s=s: vf.run_proc(
        [hh, "--part", "conc", "--seed", str(chk.seed), "--shard", str(s),
         "--threads", str(T), "--rounds", str(r), "--n", "12"], env=ee,
        timeout=3000) for s, (fl, hh, ee, T, r) in enumerate(cplan)]
    for (fl, _, _, T, _), res in zip(cplan, vf.run_parallel(jobs, nproc=2)):
        ok = chk.ingest(res, "c16 concurrent %s %d threads" % (fl, T),
                        prefix="tsan:" if fl == "tsan" else "")
        if not ok and res.rc != 0 and not res.timed_out:
            chk.sanitizer["tsan_reports" if fl == "tsan" else "reports"] += 1
    chk.extra["exhaustive_up_to_6_vertices"] = (
        chk.counters.get("exhaustive_classes_done", 0) ==
        chk.counters.get("exhaustive_classes_total", -1))
    if not chk.extra["exhaustive_up_to_6_vertices"]:
        chk.inconclusive.append("exhaustive part incomplete")
    chk.assumptions = [
        "simple graphs only (no self loops, no multi-edges), non-negative ids",
        "'different' is demanded only when one bead name or one bead mass "
        "(by more than 8 significant digits) was changed; non-isomorphic "
        "graphs with equal name/mass multisets are not judged",
        "a one-vertex structure counts as an isolated vertex (not a single "
        "network); the empty structure is not generated",
        "graphs handed to exploreGraph / decouple / reduce come from a fresh "
        "BeadStructure (isStructureEquivalent leaves its distance labels in "
        "the cached graph, which is not part of the statement)",
        "reuse: distance labels that a previous exploration left on "
        "vertices the current start cannot reach, and a different second "
        "findStructureId on a disconnected Graph object, are observation "
        "counters (the statement speaks about reachable vertices only)"]


def replay(path):
    """re-run all monitors on the graph of a witness (natural labelling plus
    fresh random relabellings)"""
    import json
    w = json.load(open(path))
    wit = w.get("witness", {})
    print(json.dumps(w, indent=1)[:4000])
    if "reference_edges" not in wit:
        return 0
    h = vf.build_harness("asan", "c16")
    res = vf.run_proc([h, "--seed", str(w.get("seed", 1)), "--relabels", "40",
                       "--graph", wit["reference_edges"]],
                      env=vf.lib_env("asan"), timeout=900)
    print(res.out[-3000:], res.err[-2000:])
    if '"t":"violation"' in res.out or res.rc != 0:
        print("VIOLATION property=C16 replay=%s" % path)
        return 1
    return 0
