"""C07 analytic derivatives equal numerical derivatives: library monitor under
ASan/UBSan (DESIGN.md §5 C07)."""
import os
import shutil

import vfcore as vf

RULE = ("interactions: chains of 4..9 beads built through the Topology API in "
        "open / orthorhombic / triclinic boxes (beads created in random order, "
        "each bead moved by -1..1 lattice vectors), bond lengths 0.05..0.5 nm "
        "(ratios 0.1..10), angles in (0.02, pi-0.02), dihedrals with "
        "1e-3 < |phi| < pi-0.02 and sin(bond angle) >= 1e-3; every bonded "
        "distance < 0.45 of the shortest box height. Oracle: Richardson "
        "central differences (h, h/2, h/4; h = 1e-3 * shortest bond * sine "
        "margin) of EvaluateVar with its own error estimate (tolerance "
        "1e-6*|grad| + 10*estimate), sum of gradients, rotation+translation "
        "covariance, single-bead image shifts up to 1000 boxes. Family "
        "extended-in-small-box (own keys extended-in-small-box/*): the same "
        "chains and oracles in orthorhombic and reduced triclinic boxes whose "
        "shortest height is 2.05..3.3 times the bond length (bonds uniform in "
        "0.30..0.49 of the shortest height, random directions), so that 1-3, "
        "2-4 and 1-4 separations routinely exceed half a box edge (shares in "
        "the counters *_beyond_half_an_edge) while every bond stays below half "
        "the box; a bond with a component within 0.004 of half the "
        "corresponding box edge is a don't-care (minimum-image "
        "discontinuity); rotations only while all bonds are below 0.45 of the "
        "shortest height. potentials: "
        "LJ126 / LJG / CBSPL(8..60 knots) with parameters over 6 orders of "
        "magnitude, r in [min, cutoff] incl. both ends and break points; DF "
        "vs numerical d/dlambda of CalculateF through setOptParam, D2F "
        "symmetric and vs numerical d/dlambda of DF, SavePotTab vs CalculateF "
        "on rmin+i*step. splines: Lin/Cubic/Akima Interpolate (natural, "
        "periodic) and Fit on grids of 2..400 knots; central differences "
        "strictly inside intervals, one-sided 4-point differences at knots "
        "(either side accepted). Family concurrent (keys concurrent/<form>/"
        "value-differs-from-serial, derivative-differs-from-serial, and "
        "ThreadSanitizer reports): 2..8 std::threads, each with its own "
        "lj126 / ljg / cbspl objects, cubic / akima / linear splines and a "
        "bond / angle / dihedral on its own Topology, evaluate value, "
        "r-derivative, DF(i), D2F(i,j), Grad at thread-private random "
        "arguments, released together by a barrier for 20/100 rounds (asan) "
        "and 10/40 rounds (tsan); every result must equal bit for bit the "
        "same call sequence run serially on identically built objects; "
        "overlap of the threads is measured from time stamps "
        "(concurrent_rounds_with_all_threads_overlapping); all boundary settings (natural, periodic, "
        "derivativezero where implemented; setBC and setBCInt) for all three "
        "types and for Fit; 4 evaluation points per spline OUTSIDE the grid "
        "(left and right, 1e-3..3 grid lengths away), judged by central "
        "differences of the reported value there "
        "(spline/*/derivative-outside-grid; the rounding floor uses the "
        "magnitudes of the terms of the extrapolated end polynomial). "
        "Potential objects are reused (pot-reuse/*): parameters replaced once "
        "or twice through setParam(i), setParam(vector) or setOptParam, for "
        "the LJ forms also min/cut-off; F, DF and the full (i,j) square of "
        "D2F must equal those of a fresh object bit for bit; the table is "
        "then written by the reused object. Table sizes: an integer number "
        "of steps up to rounding (decimal grids such as 0.1:0.1:0.8) must "
        "give round((rcut-rmin)/step)+1 rows. A case is non-trivial when: angle with "
        "bond lengths differing by >1% and |theta-90deg| > 0.01; any bond / "
        "dihedral; potential derivative that is non-zero and resolved to "
        "1e-3; spline with non-constant ordinates. distinct = hash of the "
        "canonical input; shards use disjoint seeds.")


def prebuild():
    vf.build_harness("asan", "c07")
    vf.build_harness("tsan", "c07")


def run(chk):
    h = vf.build_harness("asan", "c07")
    ht = vf.build_harness("tsan", "c07")
    env = vf.lib_env("asan")
    chk.rule = RULE
    chk.sanitizer = {"flavour": "asan", "reports": 0,
                     "flavours": ["asan", "tsan"], "tsan_reports": 0}
    # budgets are case counts per shard (a case = one chain with all its
    # bonds/angles/dihedrals, one potential with 3-6 r values, one spline with
    # 8 evaluation points)
    plan = [("inter", 8, vf.tier_n(chk.tier, 60, 2500)),
            ("interx", 4, vf.tier_n(chk.tier, 60, 2500)),
            ("pot", 4, vf.tier_n(chk.tier, 60, 3000)),
            ("spline", 4, vf.tier_n(chk.tier, 400, 20000))]
    tmp = vf.scratch_dir(chk.pid)
    jobs, names = [], []
    for part, shards, n in plan:
        for s in range(shards):
            d = os.path.join(tmp, "%s_%d" % (part, s))
            os.makedirs(d)
            jobs.append(lambda part=part, s=s, n=n, d=d: vf.run_proc(
                [h, "--part", part, "--seed", str(chk.seed), "--shard", str(s),
                 "--n", str(n), "--tmp", d], env=env, timeout=3000, cwd=d))
            names.append("c07 %s shard %d" % (part, s))
    for name, res in zip(names, vf.run_parallel(jobs)):
        if not chk.ingest(res, name):
            chk.sanitizer["reports"] += 0 if res.rc == 0 else 1
    # concurrent use of distinct objects: run on its own so that the threads
    # of one monitor really overlap (asan: bit-for-bit comparison with the
    # serial results; tsan: data-race reports in /repo code)
    q = chk.tier != "thorough"
    cplan = [("asan", h, env, T, 20 if q else 100, 6000 if q else 20000)
             for T in ((2, 4, 8) if q else (2, 3, 4, 6, 8))]
    cplan += [("tsan", ht, vf.lib_env("tsan"), T, 10 if q else 40,
               3000 if q else 8000) for T in ((3, 6) if q else (2, 4, 8))]
    jobs, names = [], []
    for s, (fl, hh, ee, T, rounds, calls) in enumerate(cplan):
        jobs.append(lambda hh=hh, ee=ee, T=T, rounds=rounds, calls=calls, s=s:
                    vf.run_proc([hh, "--part", "conc", "--seed", str(chk.seed),
                                 "--shard", str(s), "--threads", str(T),
                                 "--rounds", str(rounds), "--n", str(calls)],
                                env=ee, timeout=3000, cwd=tmp))
        names.append("c07 concurrent %s %d threads" % (fl, T))
    for (fl, *_), name, res in zip(cplan, names, vf.run_parallel(jobs, nproc=2)):
        ok = chk.ingest(res, name, prefix="tsan:" if fl == "tsan" else "")
        if not ok and res.rc != 0 and not res.timed_out:
            chk.sanitizer["tsan_reports" if fl == "tsan" else "reports"] += 1
    shutil.rmtree(tmp, ignore_errors=True)
    chk.assumptions = [
        "the numerical derivative is trusted only where its own error "
        "estimate (difference of the two O(h^4) Richardson estimates + "
        "rounding floor) is below 1e-4 of the gradient scale; other cases are "
        "counted as *_fd_unreliable_not_judged",
        "singular geometries are excluded by the margins of DESIGN.md §5 C07; "
        "the acos-based dihedral is equally singular at phi=0, the same kind "
        "of margin (|phi| > 1e-3) is applied there",
        "rotations are only applied to molecules whose bonded distances stay "
        "below 0.45 of the shortest box height (no image decision involved)",
        "CBSPL::SavePotTab first extrapolates the excluded knots (documented "
        "behaviour); the table is compared with CalculateF after that call",
        "D2F is queried over the full index square (i,j) and (j,i); each entry "
        "is compared with the numerical derivative of DF(i) w.r.t. parameter "
        "j and with its transpose",
        "outside the grid VOTCA extrapolates the end polynomial; value and "
        "derivative were found consistent there for every type / boundary "
        "setting on the unchanged tree",
        "IAngle end-bead gradients, the central-bead gradient and the "
        "gradient sum are three separate violation keys"]


def replay(path):
    """re-run the check with the seed and tier recorded in the witness file and
    report whether the same violation key shows up again (exit 1) or not (0)"""
    import json
    d = json.load(open(path))
    chk = vf.Check(d["property"], d.get("tier", "quick"), int(d.get("seed", 1)))
    run(chk)
    hit = d["key"] in chk.violations or any(
        vf._key_match(k, d["key"]) for k in chk.known_hit)
    print("REPLAY property=%s key=%s seed=%s tier=%s: %s" % (
        d["property"], d["key"], d.get("seed"), d.get("tier"),
        "reproduced" if hit else "not reproduced"))
    print("witness:", json.dumps(d.get("witness"))[:2000])
    return 1 if hit else 0
