"""C05 threaded trajectory analysis: controlled scheduler (in-process), and the
real csg_stat / csg_reupdate executables free-running under TSan/ASan with the
delay run-time."""
import os
import shutil
import vfcore as vf

H = os.path.join(vf.VERIF, "harness")


def _harness():
    return vf.build_harness("asan", "c05", sources=[
        os.path.join(H, "c05.cc"), os.path.join(H, "hookrt", "sched.cc")])


def prebuild():
    _harness()
    vf.build_preload()
    vf.build_flavour("tsan", ["csg_stat", "csg_reupdate", "orientcorr", "partial_rdf"])
    for fl in ("asan", "tsan"):
        vf.build_harness(fl, "template_threaded", sources=[TEMPLATE_SRC])


def run(chk):
    h = _harness()
    env = vf.lib_env("asan")
    work = vf.scratch_dir("C05")
    shards = 16
    scen = vf.tier_n(chk.tier, 16, 80)
    sched = vf.tier_n(chk.tier, 12, 40)
    maxf = vf.tier_n(chk.tier, 12, 40)
    jobs = [lambda s=s: vf.run_proc(
        [h, "--seed", str(chk.seed), "--shard", str(s), "--scenarios",
         str(scen), "--schedules", str(sched), "--maxframes", str(maxf),
         "--work", work], env=env, timeout=1800) for s in range(shards)]
    # systematic part: stateless depth-first enumeration of ALL interleavings with
    # at most `bound` preemptions (context-bounded, as in CHESS) for small
    # configurations "nt,frames,first-frame,nframes,ordered,bound"
    if chk.tier == "quick":
        specs, maxruns = ["2,1,0,-1,1,2", "2,1,0,-1,0,2", "2,2,0,-1,1,2", "2,2,0,-1,0,2",
                          "2,3,0,-1,1,2", "2,3,0,-1,0,2", "3,2,0,-1,1,1", "3,2,0,-1,0,1",
                          "2,2,2,1,1,2", "2,2,2,1,0,2", "2,3,0,2,0,2", "3,2,0,1,0,1",
                          "2,2,0,0,1,2", "3,3,3,-1,0,1", "2,2,3,-1,1,2", "3,3,0,2,1,1"], 6000
    else:
        specs, maxruns = ["2,1,0,-1,1,3", "2,1,0,-1,0,3", "2,2,0,-1,1,3", "2,2,0,-1,0,3",
                          "2,3,0,-1,1,3", "2,3,0,-1,0,3", "3,2,0,-1,1,2", "3,2,0,-1,0,2",
                          "3,3,0,-1,1,2", "3,3,0,-1,0,2", "4,3,0,-1,1,1", "4,3,0,-1,0,1",
                          "3,3,2,1,0,2", "3,3,0,2,0,2", "2,4,2,2,0,3", "3,2,0,1,0,3",
                          "2,2,0,0,1,3", "4,2,2,-1,0,2", "2,2,3,-1,1,3", "4,4,0,3,1,1"], 150000
    ejobs = [lambda k=k, sp=sp: vf.run_proc(
        [h, "--enumerate", sp, "--work", work, "--shard", str(100 + k),
         "--maxruns", str(maxruns)], env=env, timeout=3600) for k, sp in enumerate(specs)]
    allres = vf.run_parallel(jobs + ejobs)
    for s, res in enumerate(allres[:len(jobs)]):
        chk.ingest(res, "c05 controlled-scheduler shard %d" % s, prefix="sched_")
    for sp, res in zip(specs, allres[len(jobs):]):
        chk.ingest(res, "c05 enumeration %s" % sp, prefix="enum_")
    run_executables(chk, work)
    chk.extra["enumeration"] = (
        "stateless DFS over the scheduler's decisions; 'complete' = every interleaving "
        "with at most `bound` preemptions of that configuration was executed; "
        "'truncated' = stopped at the run budget (a DFS prefix of that space)")
    chk.rule = ("(0) systematic: context-bounded exhaustive enumeration of small "
                "configurations (counters enum_*); "
                "(a) controlled scheduler: scenario = (frames in file, --nt 1..8, "
                "--first-frame, --nframes, ordered|unordered); each scenario is "
                "run under seeded schedules (uniform, PCT, run-to-block, "
                "starve-one). A schedule is non-trivial and distinct when >=2 "
                "threads were runnable at some decision and its (thread,event) "
                "sequence hash was not seen before. (b) free-running csg_stat "
                "(ordered) / csg_reupdate (unordered) with --nt 2..8 and seeded "
                "delays at the hooks, in the asan flavour (event log checked "
                "offline + output files vs --nt 1) and in the tsan flavour "
                "(token-ring annotations); an executable run is non-trivial when "
                "it used >=2 threads on >=2 selected frames, distinct by "
                "(case, nt, delay seed, event-order signature).")
    chk.assumptions = [
        "schedules are sampled, not enumerated; the scheduler serialises at "
        "hook granularity, so races inside EvalConfiguration are only exposed "
        "to TSan in the free-running runs",
        "--begin is not exercised (gro/dump readers provide no time stamps)",
        "TSan: hand-over of a tools::Mutex between threads is annotated as "
        "release/acquire (the idiom itself is not a violation), "
        "report_mutex_bugs=0",
        "a free-running hang would be reported as inconclusive (watchdog); "
        "deadlock verdicts come from the controlled scheduler"]
    shutil.rmtree(work, ignore_errors=True)


def run_executables(chk, work):
    pre = vf.build_preload()
    vf.build_flavour("asan", ["csg_stat", "csg_reupdate", "orientcorr", "partial_rdf"])
    vf.build_flavour("tsan", ["csg_stat", "csg_reupdate", "orientcorr", "partial_rdf"])
    for fl in ("asan", "tsan"):
        vf.build_harness(fl, "template_threaded", sources=[TEMPLATE_SRC])
    rng = random.Random(chk.seed * 7919 + 13)
    ncases = vf.tier_n(chk.tier, 24, 160)
    cases = []
    for i in range(ncases):
        d = os.path.join(work, "exe%d" % i)
        gen = [gen_stat_case, gen_reupdate_case, gen_stat_bonded_case,
               gen_reupdate_case, gen_orientcorr_case,
               gen_partial_rdf_case, gen_stat_h5md_case, gen_template_case][i % 8]
        cases.append((d, gen(rng, d)))
    # reference runs (nt 1, asan)
    refs = vf.run_parallel([lambda d=d, c=c: run_exe(
        "asan", c, os.path.join(d, "nt1"), 1, 0, pre) for d, c in cases])
    jobs, meta = [], []
    for (d, c), r in zip(cases, refs):
        ok_ref = r.rc == 0
        if not ok_ref and not ("no frames were processed" in r.err or
                               "too short" in r.err):
            chk.proc_result(r, "%s --nt 1" % c["kind"], {"opts": c["opts"]})
            continue
        c["ref_ok"] = ok_ref
        c["rtol"] = 1e-8
        if ok_ref and not c["ordered"] and len(c["selected"]) >= 2:
            # what does a mere re-ordering of the frame sums do to this case?
            cp = make_permuted_case(c, d)
            rp = run_exe("asan", cp, os.path.join(d, "nt1_perm"), 1, 0, pre, log=False)
            sens = dir_sensitivity(os.path.join(d, "nt1"), os.path.join(d, "nt1_perm")) \
                if rp.rc == 0 else float("inf")
            c["sensitivity"] = sens
            c["rtol"] = max(1e-8, 100 * sens) if sens < 1e-5 else None
        nts = sorted(set([2, rng.choice([3, 4, 5]), rng.choice([6, 7, 8])]))
        for fl in ("asan", "tsan"):
            for nt in nts:
                ds = rng.randint(1, 10**6)
                rd = os.path.join(d, "%s_nt%d" % (fl, nt))
                jobs.append(lambda fl=fl, c=c, rd=rd, nt=nt, ds=ds: run_exe(
                    fl, c, rd, nt, ds, pre, log=(fl == "asan")))
                meta.append((fl, c, d, rd, nt, ds))
    results = vf.run_parallel(jobs)
    seen = set()
    tsan_reports = 0
    events = 0
    for (fl, c, d, rd, nt, ds), r in zip(meta, results):
        fam = "exe_%s%s_%s" % (c["kind"], "_h5md_" + c["h5md"] if c.get("h5md") else "", fl)
        wit = {"kind": c["kind"], "opts": c["opts"], "nt": nt, "flavour": fl,
               "delay_seed": ds, "steps": c["steps"], "selected": c["selected"]}
        if not c["ref_ok"]:
            # the single-thread run reported an input error: threaded must too
            chk.count(fam)
            if r.timed_out:
                chk.inconclusive.append("watchdog: %s nt=%d" % (c["kind"], nt))
            elif r.rc == 0:
                chk.violation("exe/%s/error-only-in-nt1" % c["kind"], wit,
                              "threaded run succeeds where --nt 1 reports an error")
            elif vf.sanitizer_key(r.err):
                chk.proc_result(r, "%s nt=%d %s" % (c["kind"], nt, fl), wit)
            continue
        if not chk.proc_result(r, "%s nt=%d %s" % (c["kind"], nt, fl), wit):
            if fl == "tsan" and not r.timed_out:
                tsan_reports += 1
            continue
        if c["rtol"] is None:
            # ill conditioned: frame re-ordering alone changes the output by
            # more than 1e-5; "agree to rounding" cannot be judged on the files
            chk.counters["exe_unordered_illconditioned_not_compared"] = \
                chk.counters.get("exe_unordered_illconditioned_not_compared", 0) + 1
            bad = []
        else:
            bad = compare_dirs(os.path.join(d, "nt1"), rd, exact=c["ordered"],
                               rtol=c["rtol"])
        if bad:
            wit["rtol_used"] = c["rtol"]
            wit["reordering_sensitivity"] = c.get("sensitivity")
            wit["differences"] = bad[:5]
            chk.violation("exe/%s/output-differs-from-nt1" % c["kind"], wit,
                          "output of --nt %d differs from --nt 1" % nt)
        sig = 0
        if fl == "asan":
            if not os.path.exists(os.path.join(rd, "events.log")):
                # the log file is created by the first hook event: a run that ended normally without reaching any
                # hook (no frame selected, nothing threaded happened) has an empty history, which the monitors
                # below judge like any other (selected frames must still have been taken)
                open(os.path.join(rd, "events.log"), "w").close()
                chk.counters["exe_runs_without_any_hook_event"] = \
                    chk.counters.get("exe_runs_without_any_hook_event", 0) + 1
            v, n, sig = check_event_log(os.path.join(rd, "events.log"), c, nt)
            events += n
            for key, det in v:
                w2 = dict(wit)
                w2["detail"] = det
                chk.violation("exe/%s/%s" % (c["kind"], key), w2, det)
        k = (c["kind"], tuple(c["opts"]), nt, ds, sig)
        nontriv = len(c["selected"]) >= 2 and k not in seen
        seen.add(k)
        chk.count(fam, 1, 1 if nontriv else 0)
        if nontriv and len(chk.samples) < 6 and fl == "asan" and nt >= 4:
            chk.sample(wit)
    chk.counters["exe_events_logged"] = events
    chk.counters["tsan_reports"] = tsan_reports
    chk.sanitizer = {"flavours": ["asan", "tsan"], "tsan_reports": tsan_reports}


# ----------------------------------------------------------------------------
# free-running executables (csg_stat ordered, csg_reupdate unordered)
# ----------------------------------------------------------------------------
import random
import filecmp
import subprocess

SPCE = os.path.join(vf.REPO, "csg/src/tools/references/spce")
EV = {5: "THREAD_CREATE", 6: "THREAD_BEGIN", 7: "THREAD_END", 8: "JOIN_REQ",
      9: "JOIN_DONE", 10: "READER_ENTER", 11: "FRAME_TAKEN", 12: "READER_EOF",
      13: "READER_EXIT", 14: "EVAL_BEGIN", 15: "EVAL_END", 16: "MERGE_ENTER",
      17: "MERGE_EXIT", 22: "RUN_END_EVALUATE"}


def gen_stat_case(rng, d):
    """water-like atomistic system, mapped to one bead per molecule"""
    os.makedirs(d, exist_ok=True)
    nmol = rng.randint(20, 60)
    nfr = rng.choice([1, 2, 4, 6, 9, 12, 16])
    open(os.path.join(d, "topol.xml"), "w").write(
        '<topology>\n <molecules>\n  <molecule name="SOL" nmols="%d" nbeads="3">\n'
        '   <bead name="OW" type="OW" mass="15.9994" q="-0.8476" />\n'
        '   <bead name="HW1" type="H" mass="1.008" q="0.4238" />\n'
        '   <bead name="HW2" type="H" mass="1.008" q="0.4238" />\n'
        '  </molecule>\n </molecules>\n</topology>\n' % nmol)
    shutil.copy(os.path.join(SPCE, "mapping.xml"), os.path.join(d, "mapping.xml"))
    imc = rng.random() < 0.4
    gmin, gstep = rng.choice([(0, 2), (10, 2), (25, 5), (0, 5), (10, 10)])
    open(os.path.join(d, "settings.xml"), "w").write(
        "<cg>\n <non-bonded>\n  <name>CG-CG</name>\n  <type1>CG</type1>\n"
        "  <type2>CG</type2>\n  <min>%s</min>\n  <max>0.9</max>\n"
        "  <step>%s</step>\n  <inverse><imc><group>CG-CG</group></imc></inverse>\n"
        " </non-bonded>\n</cg>\n" % (gmin / 100.0, gstep / 100.0))
    steps, st = [], rng.randint(0, 100)
    with open(os.path.join(d, "traj.dump"), "w") as f:
        for _ in range(nfr):
            L = rng.uniform(20.0, 26.0)
            steps.append(st)
            f.write("ITEM: TIMESTEP\n%d\nITEM: NUMBER OF ATOMS\n%d\n"
                    "ITEM: BOX BOUNDS pp pp pp\n0 %.6f\n0 %.6f\n0 %.6f\n"
                    "ITEM: ATOMS id type x y z\n" % (st, 3 * nmol, L, L, L))
            st += rng.randint(1, 50)
            k = 1
            for _m in range(nmol):
                o = [rng.uniform(0, L) for _ in range(3)]
                f.write("%d 0 %.6f %.6f %.6f\n" % (k, o[0], o[1], o[2]))
                for t in (1, 2):
                    h = [o[i] + rng.uniform(-0.8, 0.8) for i in range(3)]
                    f.write("%d 1 %.6f %.6f %.6f\n" % (k + t, h[0], h[1], h[2]))
                k += 3
    if imc:
        # a target distribution on the grid is needed for dS
        with open(os.path.join(d, "CG-CG.dist.tgt"), "w") as f:
            for k in range(gmin, 90 + 1, gstep):
                f.write("%.2f %.6f i\n" % (k / 100.0, rng.uniform(0.5, 1.5)))
    opts = ["--top", "../topol.xml", "--trj", "../traj.dump", "--cg",
            "../mapping.xml", "--options", "../settings.xml"]
    ff = rng.choice([None, None, None, 1, 2, nfr])
    nf = rng.choice([None, None, None, 0, 1, nfr, nfr + 2, max(1, nfr // 2)])
    if ff is not None:
        opts += ["--first-frame", str(ff)]
    if nf is not None:
        opts += ["--nframes", str(nf)]
    if imc:
        opts += ["--do-imc"]
    bl = None
    if rng.random() < 0.3:
        bl = rng.randint(1, 3)
        opts += ["--block-length", str(bl)]
    start = max(ff or 0, 1) - 1
    sel = steps[start:]
    if nf is not None:
        sel = sel[:nf]
    return {"kind": "csg_stat", "nmol": nmol, "frames": nfr, "steps": steps,
            "opts": opts, "imc": imc, "block": bl, "selected": sel,
            "ordered": True}


RE_SETTINGS = """<cg>
  <non-bonded>
    <name>CG-CG</name>
    <type1>CG</type1>
    <type2>CG</type2>
    <min>0.1</min>
    <max>0.9</max>
    <step>0.01</step>
    <re>
      <function>lj126</function>
    </re>
  </non-bonded>
  <inverse>
    <kBT>2.4942</kBT>
    <scale>0.5</scale>
  </inverse>
</cg>
"""


def gen_reupdate_case(rng, d):
    """csg_reupdate (unordered mode) on jittered copies of the reference CG
    water frame, LJ 12-6 form (2 parameters: a well-conditioned update)"""
    os.makedirs(d, exist_ok=True)
    nfr = rng.choice([1, 3, 5, 8, 12])
    lines = open(os.path.join(SPCE, "frame_cg.dump")).read().split("\n")
    atoms = [l.split() for l in lines[9:] if l.strip()]
    steps, st = [], rng.randint(0, 100)
    with open(os.path.join(d, "traj.dump"), "w") as f:
        for _ in range(nfr):
            steps.append(st)
            f.write("\n".join(lines[:1]) + "\n%d\n" % st + "\n".join(lines[2:9]) + "\n")
            st += rng.randint(1, 50)
            for a in atoms:
                p = [float(x) + rng.uniform(-0.3, 0.3) for x in a[2:5]]
                f.write("%s %s %.6f %.6f %.6f\n" % (a[0], a[1], p[0], p[1], p[2]))
    open(os.path.join(d, "settings_re.xml"), "w").write(RE_SETTINGS)
    open(os.path.join(d, "param.in"), "w").write(
        "0 %.8g i\n1 %.8g i\n" % (rng.uniform(1.5e-6, 3e-6), rng.uniform(2e-3, 4e-3)))
    opts = ["--options", "../settings_re.xml", "--top",
            os.path.join(SPCE, "topol_cg.xml"), "--trj", "../traj.dump",
            "--hessian-check", "no"]
    ff = rng.choice([None, None, None, 1, 2, nfr])
    nf = rng.choice([None, None, None, 1, nfr, nfr + 2, max(1, nfr // 2)])
    if ff is not None:
        opts += ["--first-frame", str(ff)]
    if nf is not None:
        opts += ["--nframes", str(nf)]
    start = max(ff or 0, 1) - 1
    sel = steps[start:]
    if nf is not None:
        sel = sel[:nf]
    return {"kind": "csg_reupdate", "frames": nfr, "steps": steps, "opts": opts,
            "selected": sel, "ordered": False}


def exe_path(fl, kind):
    if kind == "template_threaded_rdf":
        return os.path.join(vf.flavour_dir(fl), "harness", "template_threaded", "template_threaded")
    if kind in ("csg_orientcorr", "csg_partial_rdf"):
        sub = kind[4:]
        return os.path.join(vf.flavour_dir(fl), "csg", "src", "csgapps", sub, kind)
    return vf.exe(fl, kind)


def gen_stat_bonded_case(rng, d):
    """csg_stat without mapping on an xml topology that itself carries bonded
    interactions (bond, angle) and hence exclusions: every worker's topology
    must carry them, or bonded histograms and the rdf depend on --nt"""
    os.makedirs(d, exist_ok=True)
    nmol = rng.randint(15, 40)
    nfr = rng.choice([2, 4, 6, 9, 12])
    open(os.path.join(d, "topol.xml"), "w").write(
        '<topology>\n <molecules>\n  <molecule name="TRI" nmols="%d" nbeads="3">\n'
        '   <bead name="A" type="A" mass="1" q="0" />\n'
        '   <bead name="B" type="A" mass="1" q="0" />\n'
        '   <bead name="C" type="A" mass="1" q="0" />\n'
        '  </molecule>\n </molecules>\n <bonded>\n'
        '  <bond>\n   <name>bond</name>\n   <beads>\n    TRI:A TRI:B\n    TRI:B TRI:C\n   </beads>\n  </bond>\n'
        '  <angle>\n   <name>angle</name>\n   <beads>\n    TRI:A TRI:B TRI:C\n   </beads>\n  </angle>\n'
        ' </bonded>\n</topology>\n' % nmol)
    open(os.path.join(d, "settings.xml"), "w").write(
        "<cg>\n <non-bonded>\n  <name>A-A</name>\n  <type1>A</type1>\n  <type2>A</type2>\n"
        "  <min>0</min>\n  <max>0.9</max>\n  <max_intra>0.9</max_intra>\n  <step>0.05</step>\n </non-bonded>\n"
        " <bonded>\n  <name>bond</name>\n  <min>0.05</min>\n  <max>0.35</max>\n  <step>0.01</step>\n </bonded>\n"
        " <bonded>\n  <name>angle</name>\n  <min>0</min>\n  <max>3.14</max>\n  <step>0.1</step>\n </bonded>\n</cg>\n")
    steps, st = [], rng.randint(0, 100)
    with open(os.path.join(d, "traj.dump"), "w") as f:
        for _ in range(nfr):
            L = rng.uniform(22.0, 28.0)
            steps.append(st)
            f.write("ITEM: TIMESTEP\n%d\nITEM: NUMBER OF ATOMS\n%d\n"
                    "ITEM: BOX BOUNDS pp pp pp\n0 %.6f\n0 %.6f\n0 %.6f\n"
                    "ITEM: ATOMS id type x y z\n" % (st, 3 * nmol, L, L, L))
            st += rng.randint(1, 50)
            k = 1
            for _m in range(nmol):
                a = [rng.uniform(0, L) for _ in range(3)]
                b = [a[i] + rng.uniform(-1.4, 1.4) for i in range(3)]
                c = [b[i] + rng.uniform(-1.4, 1.4) for i in range(3)]
                for p in (a, b, c):
                    f.write("%d 0 %.6f %.6f %.6f\n" % (k, p[0], p[1], p[2]))
                    k += 1
    opts = ["--top", "../topol.xml", "--trj", "../traj.dump", "--options", "../settings.xml"]
    if rng.random() < 0.5:
        opts.append("--include-intra")
    return {"kind": "csg_stat", "nmol": nmol, "frames": nfr, "steps": steps,
            "opts": opts, "imc": False, "block": None, "selected": steps,
            "ordered": True}


_H5MD_COUNT = [0]


TEMPLATE_SRC = os.path.join(vf.REPO, "csg", "share", "template", "template_threaded.cc")


def h5md_tool():
    return vf.build_tool("gen_h5md", os.path.join(H, "tools", "gen_h5md.c"),
                         "-I/usr/include/hdf5/serial -L/usr/lib/x86_64-linux-gnu/hdf5/serial -lhdf5_serial")


def gen_stat_h5md_case(rng, d):
    """csg_stat (ordered mode) on an H5MD trajectory (static or time dependent
    box); the xml topology carries no box, so every worker's topology must get
    the box from the trajectory reader. The H5MD reader sets no step: the
    frame-identity monitors are skipped for these cases (no_step)."""
    os.makedirs(d, exist_ok=True)
    n = rng.randint(120, 300)
    nfr = rng.choice([2, 3, 5, 8])
    _H5MD_COUNT[0] += 1
    mode = ["static", "timedep"][_H5MD_COUNT[0] % 2]  # both box kinds in every run
    open(os.path.join(d, "topol.xml"), "w").write(
        '<topology>\n  <h5md_particle_group name="atoms" />\n  <molecules>\n'
        '    <molecule name="M" nmols="%d" nbeads="1">\n      <bead name="A" type="A" mass="1.0" q="0.0" />\n'
        '    </molecule>\n  </molecules>\n</topology>\n' % n)
    open(os.path.join(d, "settings.xml"), "w").write(
        "<cg>\n <non-bonded>\n  <name>A-A</name>\n  <type1>A</type1>\n  <type2>A</type2>\n"
        "  <min>0.0</min>\n  <max>1.2</max>\n  <step>0.05</step>\n </non-bonded>\n</cg>\n")
    r = subprocess.run([h5md_tool(), os.path.join(d, "traj.h5"), str(nfr), str(n),
                        "%.3f" % rng.uniform(2.8, 4.0), mode, str(rng.randint(1, 10**6))])
    if r.returncode != 0:
        raise vf.HarnessFailure("gen_h5md failed")
    opts = ["--top", "../topol.xml", "--trj", "../traj.h5", "--options", "../settings.xml"]
    steps = list(range(nfr))
    return {"kind": "csg_stat", "frames": nfr, "steps": steps, "opts": opts, "imc": False,
            "block": None, "selected": steps, "ordered": True, "no_step": True, "h5md": mode}


def gen_template_case(rng, d):
    """the shipped threaded application template (csg/share/template/
    template_threaded.cc, ordered mode, an rdf-like histogram in rdf.dat)
    compiled as it is against the freshly built libraries"""
    case = gen_stat_case(rng, d)
    opts = ["--top", "../topol.xml", "--trj", "../traj.dump", "--c", rng.choice(["0.7", "1.1", "1.2", "1.4"])]  # mostly above half the smallest box edge (boxes vary from frame to frame)
    for o in ("--first-frame", "--nframes"):
        if o in case["opts"]:
            opts += [o, case["opts"][case["opts"].index(o) + 1]]
    case.update({"kind": "template_threaded_rdf", "opts": opts, "ordered": True,
                 "imc": False, "block": None})
    return case


def gen_orientcorr_case(rng, d):
    """csg_orientcorr (unordered mode) on the water-like system of gen_stat_case"""
    case = gen_stat_case(rng, d)
    opts = ["--top", "../topol.xml", "--trj", "../traj.dump", "--cutoff",
            rng.choice(["0.6", "0.9"]), "--nbins", rng.choice(["10", "25"]),
            "--nbmethod", rng.choice(["grid", "simple"])]
    for o in ("--first-frame", "--nframes"):
        if o in case["opts"]:
            opts += [o, case["opts"][case["opts"].index(o) + 1]]
    case.update({"kind": "csg_orientcorr", "opts": opts, "ordered": False,
                 "imc": False, "block": None})
    return case


def gen_partial_rdf_case(rng, d):
    """csg_partial_rdf (ordered mode), mapped water-like system"""
    case = gen_stat_case(rng, d)
    s = open(os.path.join(d, "settings.xml")).read().replace(
        "<cg>", "<cg>\n <nbsearch>%s</nbsearch>" % rng.choice(["grid", "simple"]))
    open(os.path.join(d, "settings.xml"), "w").write(s)
    opts = ["--top", "../topol.xml", "--trj", "../traj.dump", "--cg",
            "../mapping.xml", "--options", "../settings.xml",
            "--subvolume_radius", rng.choice(["0.95", "0.8"])]
    if rng.random() < 0.5:
        opts.append("--do-vol-corr")
    for o in ("--first-frame", "--nframes"):
        if o in case["opts"]:
            opts += [o, case["opts"][case["opts"].index(o) + 1]]
    case.update({"kind": "csg_partial_rdf", "opts": opts, "ordered": True,
                 "imc": False, "block": None})
    return case


def _prep_rundir(case, rd):
    os.makedirs(rd)
    if case["kind"] == "csg_reupdate":
        os.symlink(os.path.join(SPCE, "CG-CG.rdf"), os.path.join(rd, "CG-CG.dist.new"))
        os.symlink(os.path.join(SPCE, "CG-CG.imc.tgt"), os.path.join(rd, "CG-CG.dist.tgt"))
        os.symlink(os.path.join("..", "param.in"), os.path.join(rd, "CG-CG.param.cur"))
    elif case.get("imc"):
        os.symlink(os.path.join("..", "CG-CG.dist.tgt"), os.path.join(rd, "CG-CG.dist.tgt"))


def run_exe(fl, case, rd, nt, dseed, preload, log=True):
    _prep_rundir(case, rd)
    extra = {"LD_PRELOAD": preload, "VF_DELAY_SEED": str(dseed),
             "VF_DELAY_PROB": "0.3" if nt > 1 else "0", "VF_DELAY_MAXUS": "300"}
    if log:
        extra["VF_EVENT_LOG"] = os.path.join(rd, "events.log")
    env = vf.lib_env(fl, extra)
    env["ASAN_OPTIONS"] += ":verify_asan_link_order=0"
    return vf.run_proc([exe_path(fl, case["kind"])] + case["opts"] +
                       ["--nt", str(nt)], env=env, cwd=rd, timeout=90)


def check_event_log(path, case, nt):
    """offline monitors over the recorded event log; returns (violations,
    nevents, signature)"""
    ev = []
    for ln in open(path):
        p = ln.split()
        if len(p) == 4:
            ev.append(tuple(int(x) for x in p))
    ev.sort()
    v = []
    reader = merge = None
    taken, last, need_eval, merged = [], {}, {}, []
    ended, created = set(), 0
    sig = []
    for seq, tid, kind, arg in ev:
        sig.append((tid, kind))
        if kind == 10:
            if reader is not None:
                v.append(("log/reader-two-threads-inside", "seq %d" % seq))
            reader = tid
        elif kind == 13:
            reader = None
        elif kind == 16:
            if merge is not None:
                v.append(("log/merge-two-threads-inside", "seq %d" % seq))
            merge = tid
            if case["ordered"]:
                merged.append(last.get(tid))
        elif kind == 17:
            merge = None
        elif kind == 90:
            v.append(("log/mutex-not-held-after-lock", "seq %d: Mutex::Lock() returned with the mutex unlocked" % seq))
        elif kind == 11:
            taken.append(arg)
            if need_eval.get(tid):
                v.append(("log/frame-taken-before-eval", "seq %d" % seq))
            last[tid] = arg
            need_eval[tid] = True
        elif kind == 14:
            if last.get(tid) != arg or not need_eval.get(tid):
                v.append(("log/eval-frame-mismatch", "seq %d" % seq))
        elif kind == 15:
            need_eval[tid] = False
        elif kind == 5:
            created += 1
        elif kind == 7:
            ended.add(tid)
        elif kind == 22:
            if len(ended) != created:
                v.append(("log/endevaluate-before-threads-ended",
                          "%d of %d ended" % (len(ended), created)))
    want = case["selected"]
    if case.get("no_step"):
        # the reader sets no step: frame identity cannot be observed, only the counts
        if len(taken) != len(want):
            v.append(("log/frame-count-differs", "taken %d frames, selected %d" % (len(taken), len(want))))
    elif case["ordered"]:
        if taken != want:
            v.append(("log/frames-not-each-once-in-order",
                      "taken=%s want=%s" % (taken, want)))
        if merged != want:
            v.append(("log/merge-not-in-frame-order",
                      "merged=%s want=%s" % (merged, want)))
    elif sorted(taken) != sorted(want):
        v.append(("log/frame-set-differs", "taken=%s want=%s" % (taken, want)))
    return v, len(ev), hash(tuple(sig))


def make_permuted_case(case, d):
    """the same selected frames in reversed order, no selection options: a
    single-thread run on it differs from the reference only by the order of the
    floating-point sums (used to measure what 'agree to rounding' means for
    this particular, possibly ill-conditioned, case)"""
    txt = open(os.path.join(d, "traj.dump")).read().split("ITEM: TIMESTEP\n")[1:]
    byst = {}
    for fr in txt:
        byst[int(fr.split("\n", 1)[0])] = fr
    sel = [byst[s_] for s_ in reversed(case["selected"])]
    open(os.path.join(d, "traj_perm.dump"), "w").write(
        "".join("ITEM: TIMESTEP\n" + fr for fr in sel))
    opts = []
    skip = False
    for o in case["opts"]:
        if skip:
            skip = False
            continue
        if o in ("--first-frame", "--nframes"):
            skip = True
            continue
        opts.append("../traj_perm.dump" if o == "../traj.dump" else o)
    c2 = dict(case)
    c2["opts"] = opts
    return c2


def dir_sensitivity(ref, other):
    """largest relative difference between corresponding numbers of two output
    directories (inf when the files are not comparable)"""
    worst = 0.0
    for f in sorted(os.listdir(ref)):
        a, b = os.path.join(ref, f), os.path.join(other, f)
        if f == "events.log" or os.path.islink(a) or not os.path.exists(b):
            continue
        ta, tb = _num_tokens(a), _num_tokens(b)
        if len(ta) != len(tb):
            return float("inf")
        scale = max([abs(x) for x in ta if isinstance(x, float)] + [1e-300])
        for x, y in zip(ta, tb):
            if isinstance(x, float) and isinstance(y, float):
                if x != y:
                    den = max(abs(x), abs(y), 1e-6 * scale)
                    worst = max(worst, abs(x - y) / den)
    return worst


def _num_tokens(path):
    out = []
    for ln in open(path, errors="replace"):
        for t in ln.split():
            try:
                out.append(float(t))
            except ValueError:
                out.append(t)
    return out


def compare_dirs(ref, got, exact, rtol=1e-8):
    """returns list of (file, reason)"""
    bad = []
    skip = {"events.log"}
    fr = sorted(f for f in os.listdir(ref) if f not in skip and
                not os.path.islink(os.path.join(ref, f)))
    fg = sorted(f for f in os.listdir(got) if f not in skip and
                not os.path.islink(os.path.join(got, f)))
    if fr != fg:
        return [("<file list>", "%s vs %s" % (fr, fg))]
    for f in fr:
        a, b = os.path.join(ref, f), os.path.join(got, f)
        if exact:
            if not filecmp.cmp(a, b, shallow=False):
                bad.append((f, "bytes differ"))
        else:
            ta, tb = _num_tokens(a), _num_tokens(b)
            if len(ta) != len(tb):
                bad.append((f, "token count differs"))
                continue
            scale = max([abs(x) for x in ta if isinstance(x, float)] + [1e-300])
            for x, y in zip(ta, tb):
                if isinstance(x, float) and isinstance(y, float):
                    if abs(x - y) > rtol * max(abs(x), abs(y)) + 1e-12 * scale:
                        bad.append((f, "%r vs %r" % (x, y)))
                        break
                elif x != y:
                    bad.append((f, "%r vs %r" % (x, y)))
                    break
    return bad
