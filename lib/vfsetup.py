"""vf setup: build the three flavours of /repo and every harness."""
import importlib
import os
import sys
import vfcore as vf


def main(argv):
    from concurrent.futures import ThreadPoolExecutor
    rc = 0
    # flavours in sequence (each uses all cores)
    for fl in ("asan", "tsan", "fast"):
        try:
            vf.build_flavour(fl)
            print("flavour %s ok" % fl)
        except vf.HarnessFailure as e:
            print("SETUP-FAILURE flavour %s: %s" % (fl, e))
            rc = 2
    # harnesses: each check module may export prebuild()
    import json
    man = json.load(open(os.path.join(vf.VERIF, "MANIFEST.json")))
    for c in man["checks"]:
        f = c["property_id"].lower() + ".py"
        mod = importlib.import_module("checks." + f[:-3])
        pb = getattr(mod, "prebuild", None)
        if pb:
            try:
                pb()
                print("harness for %s ok" % f[:-3])
            except vf.HarnessFailure as e:
                print("SETUP-FAILURE harness %s: %s" % (f[:-3], e))
                rc = 2
    return rc
