#!/usr/bin/env python3
"""C11 reference model of the documented option merge (DESIGN.md §5 C11).

Independent (xml.etree) model of what OptionsHandler::ProcessUserInput /
CalculatorOptions are documented to do, a generator of user option files per
shipped calculator, and the comparison of the model's tree with the tree the
real code resolved (printed by harness/c11 --mode merge).

Run as a worker:  c11_oracle.py --harness H --defaults DIR --work DIR
                                --seed S --shard K --shards N --per-calc M
It prints harness-protocol JSON lines (violation / summary) on stdout.

Model (the statement + the comments of optionshandler.h):
  * a description node with attribute link="a.xml b.xml" receives the
    attributes (existing ones are kept) and the children of the root of every
    subpackages/<file>;
  * the user tree is <options><calculator>...; a declared node the user
    supplied carries the user's text when it is a leaf; a declared leaf the user
    left out carries its default (nothing for OPTIONAL/REQUIRED/no default);
    a node with default="OPTIONAL" the user left out is absent with its whole
    subtree; a node with default="REQUIRED" the user left out (its parent
    being present) is an error naming it;
  * a node with attribute list: each declared child tag appears once per user
    element of that tag (0 elements -> absent), each merged with the declared
    element;
  * a node with attribute unchecked: the user's children are taken as they are;
  * a user node whose name is not declared at that place is an error naming it
    (unless it is inside an unchecked section);
  * every resulting leaf with a choices attribute is validated (bool, int,
    int+, float, float+, a,b,c = one of, [a,b,c] = any subset); a violation is
    an error naming the leaf.
Only what this model fixes is compared: names, per-name order and
multiplicity of children, trimmed leaf values. The relative order of children
with different names and the text of non-leaf sections are not judged.
"""
import copy
import hashlib
import json
import os
import random
import re
import sys
import xml.etree.ElementTree as ET

WS = " \t\n\r\v\f"
RESERVED = ("OPTIONAL", "REQUIRED")


# --------------------------------------------------------------------------
# declarations
# --------------------------------------------------------------------------

def resolve_links(el, xmldir, seen_packages):
    link = el.attrib.get("link")
    if link is not None:
        for fn in [t for t in re.split(r"[ ,]+", link) if t]:
            seen_packages.add(fn)
            root = ET.parse(os.path.join(xmldir, "subpackages", fn)).getroot()
            for k, v in root.attrib.items():
                el.attrib.setdefault(k, v)
            for ch in root:
                el.append(copy.deepcopy(ch))
    for ch in el:
        resolve_links(ch, xmldir, seen_packages)


def load_decl(xmldir, calc, seen_packages=None):
    """<options> element of a calculator description with links resolved"""
    root = ET.parse(os.path.join(xmldir, calc + ".xml")).getroot()
    resolve_links(root, xmldir, seen_packages if seen_packages is not None
                  else set())
    return root


def calculators(xmldir):
    return sorted(f[:-4] for f in os.listdir(xmldir) if f.endswith(".xml"))


def is_list(d):
    return "list" in d.attrib


def is_unchecked(d):
    return "unchecked" in d.attrib


def default_of(d):
    return d.attrib.get("default")


def child_tags(d):
    tags = []
    for c in d:
        if c.tag not in tags:
            tags.append(c.tag)
    return tags


# --------------------------------------------------------------------------
# value validation (model of the documented choice types)
# --------------------------------------------------------------------------

INT_RE = re.compile(r"[+-]?\d+\Z")
FLOAT_RE = re.compile(r"[+-]?(\d+\.?\d*|\.\d+)([eE][+-]?\d+)?\Z")


def parse_choices(att):
    multi = "[" in att
    if multi:
        att = att[att.index("[") + 1:att.index("]")]
    toks = [t for t in re.split(r"[ ,]+", att) if t]
    return multi, toks


def value_ok(choices_att, value):
    """True / False / None (None = the model does not want to decide)"""
    multi, toks = parse_choices(choices_att)
    if not toks:
        return True
    v = value.strip(WS)
    if multi:
        words = [w for w in re.split(r"[ ,]+", v) if w]
        return all(w in toks for w in words)
    head = toks[0]
    if head == "bool":
        return v.lower() in ("true", "false") or v in ("0", "1")
    if head in ("int", "int+"):
        if not INT_RE.match(v):
            return False
        if abs(int(v)) >= 2 ** 63:
            return None
        if head == "int+":
            return int(v) >= 0
        return True
    if head in ("float", "float+"):
        if not FLOAT_RE.match(v):
            if v.lower().lstrip("+-") in ("inf", "infinity", "nan"):
                return None
            return False
        if head == "float+":
            return float(v) >= 0.0
        return True
    return v in toks


# --------------------------------------------------------------------------
# the merge model
# --------------------------------------------------------------------------

class Node:
    __slots__ = ("name", "value", "kids", "leaf", "origin", "attrs", "uc",
                 "user_names")

    def __init__(self, name, value="", leaf=True, origin=""):
        self.name, self.value, self.kids = name, value, []
        self.leaf, self.origin = leaf, origin
        self.attrs = None       # user attributes (copied unchecked content)
        self.uc = None          # unchecked section: names declared below it
        self.user_names = ()    # ... and the names the user put there

    def to_obj(self):
        return {"n": self.name, "v": self.value,
                "c": [k.to_obj() for k in self.kids]}


class Expect:
    def __init__(self, additional=()):
        self.errors = []   # (kind, name, path)
        self.additional = tuple(additional)   # setAdditionalChoices()


def utext(u):
    """character data directly inside a user element, as the expat loader of
    Property collects it"""
    return (u.text or "") + "".join(c.tail or "" for c in u)


def copy_user(u):
    n = Node(u.tag, utext(u), leaf=(len(u) == 0), origin="unchecked")
    n.attrs = dict(u.attrib)
    for c in u:
        n.kids.append(copy_user(c))
    return n


def merge(d, u, path, ex):
    """model node for declaration d and user element u (None = not supplied);
    returns None when the node is absent from the resolved options"""
    here = path + "." + d.tag if path else d.tag
    dflt = default_of(d)
    if u is None:
        if dflt == "OPTIONAL":
            return None
        if dflt == "REQUIRED":
            ex.errors.append(("required", d.tag, here))
            return None
        if len(d) == 0:
            val = dflt if (dflt is not None and dflt not in RESERVED) else ""
            n = Node(d.tag, val, True, "default")
            check_leaf(d, n, here, ex)
            return n
        n = Node(d.tag, "", False, "default-section")
        if is_list(d):
            # a list nobody filled in: the declared template elements stay
            for c in d:
                k = merge(c, None, here, ex)
                if k is not None:
                    n.kids.append(k)
            return n
        for c in d:
            k = merge(c, None, here, ex)
            if k is not None:
                n.kids.append(k)
        return n
    # supplied by the user
    declared = child_tags(d)
    if not is_unchecked(d):
        for c in u:
            if c.tag not in declared:
                ex.errors.append(("undeclared", c.tag, here + "." + c.tag))
    if len(d) == 0 and not is_unchecked(d):
        n = Node(d.tag, utext(u), True, "user")
        check_leaf(d, n, here, ex)
        return n
    n = Node(d.tag, utext(u), False, "user-section")
    if is_list(d):
        for tag in declared:
            dc = d.find(tag)
            for uc in [c for c in u if c.tag == tag]:
                k = merge(dc, uc, here, ex)
                if k is not None:
                    n.kids.append(k)
    else:
        for dc in d:
            ucs = [c for c in u if c.tag == dc.tag]
            k = merge(dc, ucs[-1] if ucs else None, here, ex)
            if k is not None:
                n.kids.append(k)
    if is_unchecked(d):
        # "unchecked sections are copied": every user child whose name is not
        # declared below the section is taken as it is - once, in the user's
        # order, with its attributes and its whole subtree. A user child that
        # IS declared there was merged above like any declared option (one
        # node carrying the user's value); it is not expected a second time.
        for c in u:
            if c.tag in declared:
                continue
            n.kids.append(copy_user(c))
        n.leaf = (len(n.kids) == 0)
        n.uc = list(declared)
        n.user_names = tuple(c.tag for c in u)
    return n


def check_leaf(d, n, here, ex):
    ch = d.attrib.get("choices")
    if ch is None:
        return
    ok = value_ok(ch, n.value)
    if ok is not True and n.value.strip(WS) in ex.additional:
        ok = True          # "bypass the choice evaluation" (optionshandler.h)
    if ok is False:
        ex.errors.append(("choice", d.tag, here))
    elif ok is None:
        ex.errors.append(("undecided", d.tag, here))


def model(decl_options, user_root, additional=()):
    """decl_options: <options> of the description; user_root: <options> of the
    user file. Returns (Node for <options>, Expect)"""
    ex = Expect(additional)
    top = Node("options", "", False, "root")
    declared = child_tags(decl_options)
    for c in user_root:
        if c.tag not in declared:
            ex.errors.append(("undeclared", c.tag, "options." + c.tag))
    for dc in decl_options:
        ucs = [c for c in user_root if c.tag == dc.tag]
        k = merge(dc, ucs[-1] if ucs else None, "options", ex)
        if k is not None:
            top.kids.append(k)
    return top, ex


def calcopts_model(d):
    """CalculatorOptions: every declared node with its attributes (without
    link), leaves carrying their default"""
    dflt = default_of(d)
    val = ""
    if len(d) == 0 and dflt is not None and dflt not in RESERVED:
        val = dflt
    return {"n": d.tag, "v": val,
            "a": {k: v for k, v in d.attrib.items() if k != "link"},
            "c": [calcopts_model(c) for c in d]}


# --------------------------------------------------------------------------
# comparison
# --------------------------------------------------------------------------

def strip(s):
    return s.strip(WS)


def compare(exp, got, path, diffs, order_stats):
    """exp: Node, got: dict from the driver. Appends (key, text) to diffs."""
    here = path + "/" + exp.name
    gk = got.get("c", [])
    if exp.uc is not None:
        compare_unchecked(exp, got, here, diffs, order_stats)
        return
    if exp.leaf and not gk:
        if strip(exp.value) != strip(got.get("v", "")):
            key = {"user": "merge/user-value-lost",
                   "default": "merge/default-value-wrong",
                   "unchecked": "merge/unchecked-content-altered"}.get(
                       exp.origin, "merge/value-wrong")
            diffs.append((key, "%s: value '%s', expected '%s' (%s)" % (
                here, strip(got.get("v", "")), strip(exp.value), exp.origin)))
        return
    names = []
    for k in exp.kids:
        if k.name not in names:
            names.append(k.name)
    gnames = []
    for k in gk:
        if k["n"] not in gnames:
            gnames.append(k["n"])
    for nm in gnames:
        if nm not in names:
            diffs.append(("merge/unexpected-node",
                          "%s: node '%s' is in the resolved options but is "
                          "neither user-supplied nor a non-optional "
                          "declaration" % (here, nm)))
    for nm in names:
        e = [k for k in exp.kids if k.name == nm]
        g = [k for k in gk if k["n"] == nm]
        if not g:
            diffs.append(("merge/expected-node-missing",
                          "%s: node '%s' (%s) is missing from the resolved "
                          "options" % (here, nm, e[0].origin)))
            continue
        if len(e) != len(g):
            diffs.append(("merge/list-multiplicity",
                          "%s: %d nodes '%s', expected %d" % (
                              here, len(g), nm, len(e))))
            continue
        for a, b in zip(e, g):
            compare(a, b, here, diffs, order_stats)
    if [k.name for k in exp.kids] != [k["n"] for k in gk]:
        order_stats["sibling_order_differs_from_model"] = \
            order_stats.get("sibling_order_differs_from_model", 0) + 1


def flatten_exp(nodes, prefix, out):
    for k in nodes:
        out.append((prefix + k.name, strip(k.value) if not k.kids else None,
                    tuple(sorted((k.attrs or {}).items()))))
        flatten_exp(k.kids, prefix + k.name + "/", out)


def flatten_got(nodes, prefix, out):
    for k in nodes:
        out.append((prefix + k["n"], strip(k.get("v", "")) if not k["c"] else None,
                    tuple(sorted(k.get("a", {}).items()))))
        flatten_got(k["c"], prefix + k["n"] + "/", out)


def compare_unchecked(exp, got, here, diffs, order_stats):
    """below a section declared unchecked: declared children as everywhere;
    everything else must be the user's content - the same multiset AND the
    same order of (path, trimmed leaf value, attributes)"""
    from collections import Counter
    gk = got.get("c", [])
    declared = exp.uc
    e_decl = [k for k in exp.kids if k.origin != "unchecked"]
    names = []
    for k in e_decl:
        if k.name not in names:
            names.append(k.name)
    for nm in names:
        e = [k for k in e_decl if k.name == nm]
        g = [k for k in gk if k["n"] == nm]
        if not g:
            diffs.append(("merge/expected-node-missing",
                          "%s: declared node '%s' (%s) is missing" % (
                              here, nm, e[0].origin)))
            continue
        if len(g) != len(e):
            if nm in exp.user_names and len(g) > len(e):
                diffs.append(("resolve/unchecked/declared-child-duplicated",
                              "%s: the user supplied the declared option '%s' "
                              "once; the resolved section holds it %d times "
                              "(merged like a declared option AND copied "
                              "again)" % (here, nm, len(g))))
            else:
                diffs.append(("merge/list-multiplicity",
                              "%s: %d nodes '%s', expected %d" % (
                                  here, len(g), nm, len(e))))
        for a, b in zip(e, g):
            compare(a, b, here, diffs, order_stats)
    for k in gk:
        if k["n"] in declared and k["n"] not in names:
            diffs.append(("merge/unexpected-node", "%s: declared node '%s' "
                          "should be absent" % (here, k["n"])))
    le, lg = [], []
    flatten_exp([k for k in exp.kids if k.origin == "unchecked"], "", le)
    flatten_got([k for k in gk if k["n"] not in declared], "", lg)
    ce, cg = Counter(le), Counter(lg)
    lost, extra = ce - cg, cg - ce

    def show(item):
        return "%s = %r%s" % (item[0], item[1],
                              (" attributes %s" % dict(item[2])) if item[2] else "")
    if lost:
        it = sorted(lost, key=str)[0]
        diffs.append(("resolve/unchecked/user-leaf-lost",
                      "%s: user content below the unchecked section is missing "
                      "from the resolved options: %s (%d of %d occurrences "
                      "present)%s" % (here, show(it), cg[it], ce[it],
                                      ("; instead present: " + show(sorted(extra, key=str)[0]))
                                      if extra else "")))
    elif extra:
        it = sorted(extra, key=str)[0]
        if it in ce:
            diffs.append(("resolve/unchecked/user-leaf-duplicated",
                          "%s: %s is present %d times, the user wrote it %d "
                          "times" % (here, show(it), cg[it], ce[it])))
        else:
            diffs.append(("merge/unexpected-node", "%s: %s is neither user "
                          "content nor declared" % (here, show(it))))
    elif le != lg:
        i = [j for j in range(len(le)) if le[j] != lg[j]][0]
        diffs.append(("resolve/unchecked/order-changed",
                      "%s: the order of the user's content changed: position %d "
                      "holds %s, the user wrote %s there" % (
                          here, i, show(lg[i]), show(le[i]))))
    order_stats["unchecked_items_compared"] = \
        order_stats.get("unchecked_items_compared", 0) + len(le)


def compare_calcopts(exp, got, path, diffs):
    here = path + "/" + exp["n"]
    if exp["n"] != got["n"]:
        diffs.append(("calcopts/tree-differs", "%s: name '%s'" % (here, got["n"])))
        return
    if not exp["c"] and strip(exp["v"]) != strip(got["v"]):
        diffs.append(("calcopts/default-value-wrong",
                      "%s: value '%s', expected '%s'" % (here, got["v"], exp["v"])))
    ga = dict(got.get("a", {}))
    if ga != exp["a"]:
        lost = sorted(set(exp["a"]) - set(ga))
        extra = sorted(set(ga) - set(exp["a"]))
        changed = sorted(k for k in exp["a"] if k in ga and ga[k] != exp["a"][k])
        key = "calcopts/attribute-lost" if lost else (
            "calcopts/attribute-changed" if changed else
            "calcopts/attribute-invented")
        diffs.append((key, "%s: lost %s extra %s changed %s" % (
            here, lost, extra, changed)))
    if [c["n"] for c in exp["c"]] != [c["n"] for c in got["c"]]:
        diffs.append(("calcopts/tree-differs", "%s: children %s, expected %s" % (
            here, [c["n"] for c in got["c"]], [c["n"] for c in exp["c"]])))
        return
    for a, b in zip(exp["c"], got["c"]):
        compare_calcopts(a, b, here, diffs)


# --------------------------------------------------------------------------
# generator of user inputs
# --------------------------------------------------------------------------

WORDS = ["system", "A.orb", "def2-tzvp", "n2s1", "s1", "e h", "1 2 3", "0:5",
         "some text", "x=1,y=2", "a&b", "1<2", "q>p", "\"quoted\"", "it's",
         "äöü", "λ=5", "path/to/file.xml", "*", "0.5",
         "-3", "true", "PBE0", "a  b",
         # multi-line leaf values, runs of blanks between entity references
         "row1\nrow2\nrow3", "1 0 0\n0 1 0\n0 0 1", "x < > y", "a &  & b",
         "<\n>", "p & \t < q", "line one\n  indented second\n\tthird",
         "a  <  b  >  c", "&&", "< <", "]]>", "first\n\nthird"]


def gen_valid_value(rng, choices_att):
    if choices_att is None:
        return rng.choice(WORDS)
    multi, toks = parse_choices(choices_att)
    if not toks:
        return rng.choice(WORDS)
    if multi:
        k = rng.randint(1, len(toks))
        sub = rng.sample(toks, k)
        return rng.choice([",", ", ", " "]).join(sub)
    head = toks[0]
    if head == "bool":
        return rng.choice(["true", "false", "1", "0", "True", "FALSE"])
    if head == "int":
        return str(rng.randint(-1000, 1000))
    if head == "int+":
        return str(rng.randint(1, 100000))
    if head in ("float", "float+"):
        x = rng.choice([rng.uniform(0.001, 100), 10 ** rng.uniform(-9, 9),
                        float(rng.randint(1, 50))])
        s = rng.choice(["%g", "%.3f", "%.4e", "%.2E", "%r"]) % x
        if head == "float" and rng.random() < 0.5:
            s = "-" + s
        return s
    return rng.choice(toks)


def gen_invalid_value(rng, choices_att):
    multi, toks = parse_choices(choices_att)
    if multi:
        good = rng.sample(toks, rng.randint(0, min(2, len(toks))))
        return ",".join(good + ["zz_not_a_choice"])
    head = toks[0]
    if head == "bool":
        return rng.choice(["maybe", "2", "yes", "tru", "-1"])
    if head == "int":
        return rng.choice(["abc", "1.5", "1e3", "12x", "1 2"])
    if head == "int+":
        return rng.choice(["-3", "abc", "2.5", "-100"])
    if head == "float":
        return rng.choice(["abc", "1.2.3", "1,5", "x1"])
    if head == "float+":
        return rng.choice(["-0.5", "abc", "-1e-3", "1..2"])
    return rng.choice(["zz_not_a_choice", toks[0] + "_x"])


def decorate(rng, v):
    """surround with blanks / newlines sometimes: values are compared trimmed"""
    r = rng.random()
    if r < 0.15:
        return "  " + v + " "
    if r < 0.25:
        return "\n      " + v + "\n    "
    return v


def must_supply(d):
    """leaves the generator always supplies in valid inputs: REQUIRED ones and
    typed leaves without a default (their absence is an error in the real
    code; the statement does not say which - not judged, see family
    nodefault)"""
    if default_of(d) == "REQUIRED":
        return True
    if len(d) == 0 and default_of(d) is None and "choices" in d.attrib:
        multi, toks = parse_choices(d.attrib["choices"])
        return not multi
    return False


UC_STEMS = ["method", "scf", "maxcore", "pointcharges", "freeform", "basis"]


def uc_value(rng, k):
    return "%s #%d" % (rng.choice(WORDS), k)


def uc_subtree(rng, tag, k):
    e = ET.Element(tag)
    for j in range(rng.randint(1, 3)):
        c = ET.SubElement(e, rng.choice(["ncfree", "opt", "key"]))
        c.text = uc_value(rng, 10 * k + j)
    return e


def fill_unchecked_section(rng, d, u, stats):
    """free-form user content below a section declared unchecked: distinct
    undeclared tags; the same tag 2x / 3x as direct children (leaves and small
    subtrees, a different value each time); repeated tags one level deeper;
    user attributes; a tag that is also DECLARED below the section (once)"""
    def hit(k):
        stats["unchecked_kind_" + k] = stats.get("unchecked_kind_" + k, 0) + 1
    kids = []
    n_dist = rng.randint(0, 3)
    for i in range(n_dist):
        c = ET.Element(rng.choice(UC_STEMS) + str(i))
        if rng.random() < 0.3:
            g = ET.SubElement(c, "ncfree")
            g.text = uc_value(rng, i)
        else:
            c.text = uc_value(rng, i)
        kids.append(c)
    if n_dist:
        hit("distinct_tags")
    if rng.random() < 0.6:
        # the same tag twice, leaf values
        tag = rng.choice(UC_STEMS) + "7"
        for k in range(2):
            c = ET.Element(tag)
            c.text = uc_value(rng, 70 + k)
            kids.append(c)
        hit("same_tag_2x")
    if rng.random() < 0.6:
        # the same tag three times: leaves and small subtrees mixed
        tag = rng.choice(UC_STEMS) + "8"
        for k in range(3):
            if rng.random() < 0.5:
                kids.append(uc_subtree(rng, tag, 80 + k))
            else:
                c = ET.Element(tag)
                c.text = uc_value(rng, 80 + k)
                kids.append(c)
        hit("same_tag_3x")
    if rng.random() < 0.5:
        # repeated tags one level deeper (inside one copied subtree)
        blk = ET.Element(rng.choice(UC_STEMS) + "9")
        for k in range(rng.randint(2, 3)):
            c = ET.SubElement(blk, "opt")
            c.text = uc_value(rng, 90 + k)
        kids.append(blk)
        hit("nested_repeats")
    if rng.random() < 0.4 and kids:
        rng.choice(kids).set("type", rng.choice(["x", "a b", "q&r", "1<2"]))
        hit("user_attributes")
    if not kids:
        c = ET.Element("freeform0")
        c.text = uc_value(rng, 0)
        kids.append(c)
    if rng.random() < 0.8:
        rng.shuffle(kids)      # repeated tags interleaved with the others
        hit("interleaved")
    declared = [c for c in d if len(c) == 0 and default_of(c) not in RESERVED]
    if declared and rng.random() < 0.6:
        dc = rng.choice(declared)
        c = ET.Element(dc.tag)
        c.text = gen_valid_value(rng, dc.attrib.get("choices"))
        kids.insert(rng.randint(0, len(kids)), c)
        hit("declared_child_supplied")
    for c in kids:
        u.append(c)


def gen_user(rng, d, p, fill_unchecked, stats):
    """user element for declaration d (already decided to be present)"""
    u = ET.Element(d.tag)
    if is_unchecked(d):
        if fill_unchecked:
            stats["unchecked_filled"] = stats.get("unchecked_filled", 0) + 1
            fill_unchecked_section(rng, d, u, stats)
        return u
    if len(d) == 0:
        u.text = decorate(rng, gen_valid_value(rng, d.attrib.get("choices")))
        return u
    if is_list(d):
        elems = []
        for tag in child_tags(d):
            dc = d.find(tag)
            m = rng.choice([0, 1, 1, 2, 3])
            if fill_unchecked and id(dc) in fill_unchecked:
                m = max(1, m)     # the way to an unchecked section
            stats["list_mult_%d" % m] = stats.get("list_mult_%d" % m, 0) + 1
            sparse_later = rng.random() < 0.5
            for j in range(m):
                # later elements often omit leaves the first one has: each
                # element must start from the declaration, not from an
                # already resolved sibling
                pj = p
                if sparse_later:
                    pj = 1.0 if j == 0 else rng.choice([0.0, 0.1, 0.3])
                    stats["list_first_rich_later_sparse"] = \
                        stats.get("list_first_rich_later_sparse", 0) + (j == 1)
                elems.append(gen_user(rng, dc, pj, fill_unchecked, stats))
        rng.shuffle(elems)        # interleave the tags in the user's order
        for e in elems:
            u.append(e)
        return u
    kids = list(d)
    if rng.random() < 0.3:
        rng.shuffle(kids)         # user order need not be the declared order
    for dc in kids:
        forced = bool(fill_unchecked) and id(dc) in fill_unchecked
        if must_supply(dc) or forced or rng.random() < p:
            u.append(gen_user(rng, dc, p, fill_unchecked, stats))
    return u


def walk_pairs(d, u, out, inside_list_elem=False):
    """(declaration, user element, parent user element) for every user node"""
    if is_unchecked(d):
        return
    if is_list(d):
        for uc in u:
            dc = d.find(uc.tag)
            if dc is not None:
                out.append((dc, uc, u))
                walk_pairs(dc, uc, out)
        return
    for uc in u:
        dc = d.find(uc.tag)
        if dc is not None:
            out.append((dc, uc, u))
            walk_pairs(dc, uc, out)


def esc_text(t):
    return t.replace("&", "&amp;").replace("<", "&lt;").replace(">", "&gt;")


def esc_attr(t, q):
    t = t.replace("&", "&amp;").replace("<", "&lt;").replace("\n", "&#10;") \
        .replace("\t", "&#9;")
    return t.replace('"', "&quot;") if q == '"' else t.replace("'", "&apos;")


def to_xml(user_options, rng=None, stats=None):
    """serialise a user tree. Without rng: compact, everything escaped. With
    rng: one of the spellings a hand-written file may use - pretty printing
    (blanks/tabs, LF or CRLF), comments between elements and inside leaf text,
    CDATA sections, numeric character references, <a></a> vs <a/>, single
    quoted attributes, with/without XML declaration, UTF-8 BOM. None of them
    changes the tree an XML parser delivers."""
    if rng is None:
        return '<?xml version="1.0"?>\n' + ET.tostring(
            user_options, encoding="unicode") + "\n"
    st = {"pretty": rng.random() < 0.6,
          "indent": rng.choice(["  ", "\t", "    "]),
          "crlf": rng.random() < 0.2,
          "comments": rng.random() < 0.35,
          "cdata": rng.random() < 0.3,
          "charref": rng.random() < 0.3,
          "decl": rng.choice(['<?xml version="1.0"?>', "",
                              '<?xml version="1.0" encoding="UTF-8"?>',
                              "<?xml version='1.0' encoding='utf-8' standalone='yes'?>"]),
          "bom": rng.random() < 0.04}
    if stats is not None:
        for k in ("pretty", "crlf", "comments", "cdata", "charref", "bom"):
            if st[k]:
                stats["syntax_" + k] = stats.get("syntax_" + k, 0) + 1

    def text_out(t):
        if st["cdata"] and "]]>" not in t and t and rng.random() < 0.5:
            if st["comments"] and len(t) > 2 and rng.random() < 0.3:
                k = rng.randint(1, len(t) - 1)
                return "<![CDATA[" + t[:k] + "]]><!-- split --><![CDATA[" + \
                    t[k:] + "]]>"
            return "<![CDATA[" + t + "]]>"
        out = []
        for ch in t:
            if st["charref"] and rng.random() < 0.2 and ch not in "\r":
                out.append(rng.choice(["&#%d;", "&#x%X;", "&#x%x;"]) % ord(ch))
            else:
                out.append(esc_text(ch))
        if st["comments"] and len(out) > 1 and rng.random() < 0.3:
            out.insert(rng.randint(1, len(out) - 1), "<!-- in the value -->")
        return "".join(out)

    def attrs_out(e):
        r = ""
        for k, v in e.attrib.items():
            q = rng.choice(['"', "'"])
            r += " " + k + rng.choice(["=", " = "]) + q + esc_attr(v, q) + q
        return r

    def rec(e, lvl):
        pad = ("\n" + st["indent"] * lvl) if st["pretty"] else ""
        padc = ("\n" + st["indent"] * (lvl + 1)) if st["pretty"] else ""
        head = "<" + e.tag + attrs_out(e)
        if len(e) == 0:
            t = e.text or ""
            if t == "":
                return head + rng.choice(["/>", " />", "></" + e.tag + ">"])
            return head + ">" + text_out(t) + "</" + e.tag + rng.choice([">", " >"])
        body = ""
        for c in e:
            if st["comments"] and rng.random() < 0.2:
                body += padc + "<!-- " + rng.choice(
                    ["a comment", "<disabled>1</disabled>", "todo & more"]) \
                    .replace("--", "-") + " -->"
            body += padc + rec(c, lvl + 1)
        return head + ">" + body + pad + "</" + e.tag + ">"
    txt = st["decl"] + ("\n" if st["decl"] else "")
    if st["comments"] and rng.random() < 0.3:
        txt += "<!-- user options written by hand -->\n"
    txt += rec(user_options, 0) + "\n"
    if st["crlf"]:
        txt = txt.replace("\n", "\r\n")
    if st["bom"]:
        txt = "\ufeff" + txt
    return txt


class Case:
    def __init__(self, cid, calc, family, user, fault=None):
        self.id, self.calc, self.family, self.user = cid, calc, family, user
        self.fault = fault   # (kind, name) for negative cases
        self.file = None
        self.additional = []


def unchecked_ancestors(d):
    """ids of the declaration nodes that are, or lead to, a section carrying
    the attribute unchecked (found by attribute in the resolved description)"""
    ids = set()

    def rec(e):
        has = is_unchecked(e)
        for c in e:
            if rec(c):
                has = True
        if has:
            ids.add(id(e))
        return has
    rec(d)
    return ids


def has_unchecked(decl):
    return any(is_unchecked(e) for e in decl.iter())


def gen_case(rng, cid, calc, decl, family, stats):
    dcalc = decl.find(calc)
    p = rng.choice([0.0, 0.15, 0.4, 0.7, 0.95, 1.0])
    if family != "valid":
        p = rng.choice([0.7, 0.95, 1.0])
    root = ET.Element("options")
    before = stats.get("unchecked_filled", 0)
    force = unchecked_ancestors(dcalc) if family == "unchecked" else False
    ucalc = gen_user(rng, dcalc, p, force, stats)
    root.append(ucalc)
    if family == "unchecked" and stats.get("unchecked_filled", 0) == before:
        family = "valid"      # no unchecked section in this user tree
        cid = cid.replace("unchecked", "valid")
    if family in ("valid", "unchecked"):
        return Case(cid, calc, family, root)
    pairs = [(dcalc, ucalc, root)]
    walk_pairs(dcalc, ucalc, pairs)
    if family in ("fault_undeclared", "fault_undeclared_userattr"):
        # a name that is declared nowhere, below a section, a list, a list
        # element or a leaf
        d, u, _ = rng.choice([x for x in pairs if not is_unchecked(x[0])])
        nm = "zz_undeclared_%d" % rng.randint(0, 99)
        c = ET.Element(nm)
        c.text = rng.choice(WORDS)
        u.insert(rng.randint(0, len(u)), c)
        if family == "fault_undeclared_userattr":
            # the USER marks his own node unchecked=""; the description does
            # not declare the section unchecked, so the name is still undeclared
            u.set("unchecked", "")
            return Case(cid, calc, family, root, ("undeclared_userattr", nm))
        return Case(cid, calc, family, root, ("undeclared", nm))
    if family == "fault_required":
        cand = [(d, u, par) for d, u, par in pairs
                if default_of(d) == "REQUIRED"]
        if not cand:
            return None
        d, u, par = rng.choice(cand)
        for x in [x for x in par if x.tag == u.tag]:
            par.remove(x)
        return Case(cid, calc, family, root, ("required", d.tag))
    if family == "additional_choices":
        # a value that is no declared choice but was registered with
        # setAdditionalChoices() (what xtp does for qmmm: "jobfile")
        cand = [(d, u, par) for d, u, par in pairs
                if len(d) == 0 and "choices" in d.attrib and
                parse_choices(d.attrib["choices"])[1]]
        if not cand:
            return None
        d, u, par = rng.choice(cand)
        u.text = decorate(rng, "jobfile")
        c = Case(cid, calc, family, root, ("additional", d.tag))
        c.additional = ["jobfile", "other_extra"]
        return c
    if family == "fault_choice":
        cand = [(d, u, par) for d, u, par in pairs
                if len(d) == 0 and "choices" in d.attrib and
                parse_choices(d.attrib["choices"])[1]]
        if not cand:
            return None
        d, u, par = rng.choice(cand)
        u.text = decorate(rng, gen_invalid_value(rng, d.attrib["choices"]))
        return Case(cid, calc, family, root, ("choice", d.tag))
    if family == "nodefault":
        cand = [(d, u, par) for d, u, par in pairs
                if must_supply(d) and default_of(d) != "REQUIRED"]
        if not cand:
            return None
        d, u, par = rng.choice(cand)
        par.remove(u)
        return Case(cid, calc, family, root, ("nodefault", d.tag))
    raise ValueError(family)



# --------------------------------------------------------------------------
# synthetic calculator descriptions (constructs the shipped files use, in
# combinations that do not depend on one shipped file: several files in one
# link attribute, links inside linked packages and inside list elements,
# nested and multi-tag lists, unchecked sections, leaf list elements)
# --------------------------------------------------------------------------

SYNTH = {
    "synth_links.xml": """<?xml version="1.0"?>
<options>
  <synth_links help="several files in one link attribute">
    <name help="a plain leaf" default="x"/>
    <multi link="pa.xml pb.xml, pc.xml" note="own"/>
    <two link="pb.xml pa.xml" help="reverse order"/>
    <viapd link="pd.xml"/>
    <lst list="" default="OPTIONAL">
      <item link="pa.xml pc.xml" default="OPTIONAL">
        <id default="REQUIRED" choices="int"/>
      </item>
      <other default="OPTIONAL">
        <w default="1.0" choices="float+"/>
        <tags default="a" choices="[a,b,c]"/>
      </other>
    </lst>
    <last default="end"/>
  </synth_links>
</options>
""",
    "synth_lists.xml": """<?xml version="1.0"?>
<options>
  <synth_lists help="nested and multi-tag lists">
    <groups list="" default="REQUIRED">
      <group>
        <label default="REQUIRED"/>
        <size default="3" choices="int+"/>
        <mode default="fast" choices="fast,slow"/>
        <comment default="OPTIONAL"/>
        <members list="" default="OPTIONAL">
          <member>
            <idx default="REQUIRED" choices="int"/>
            <weight default="1.0" choices="float"/>
            <note default="OPTIONAL"/>
            <matrix default="1 0 0"/>
          </member>
          <alias/>
        </members>
        <raw unchecked="" default="OPTIONAL"/>
        <sub>
          <deep default="d"/>
          <flag default="false" choices="bool"/>
        </sub>
      </group>
      <single default="OPTIONAL" choices="int"/>
    </groups>
    <free unchecked="" default="OPTIONAL"/>
    <tuned unchecked="" help="free-form keywords next to declared ones">
      <known default="k0"/>
      <level default="2" choices="int"/>
      <osec>
        <x default="1"/>
      </osec>
      <maybe default="OPTIONAL"/>
    </tuned>
    <plain default="text"/>
    <opt_section default="OPTIONAL">
      <needed default="REQUIRED"/>
      <with_default default="7" choices="int"/>
    </opt_section>
  </synth_lists>
</options>
""",
    "subpackages/pa.xml": """<pa help="package A" origin="pa">
  <a1 default="1" choices="int"/>
  <a2 default="OPTIONAL"/>
  <asec>
    <a3 default="three"/>
    <a4 default="OPTIONAL" choices="float"/>
  </asec>
</pa>
""",
    "subpackages/pb.xml": """<pb origin="pb" extra="b">
  <b1 default="true" choices="bool"/>
  <b2 default="b,c" choices="[a,b,c]"/>
</pb>
""",
    "subpackages/pc.xml": """<pc note="from_pc" origin="pc">
  <c1 default="0.5" choices="float"/>
  <clist list="" default="OPTIONAL">
    <el>
      <v default="REQUIRED"/>
      <opt default="OPTIONAL"/>
      <d default="dd"/>
    </el>
  </clist>
</pc>
""",
    "subpackages/pd.xml": """<pd>
  <inner link="pa.xml pb.xml"/>
  <anything unchecked=""/>
  <d1 default="x y z"/>
</pd>
""",
}


def write_synthetic(d):
    os.makedirs(os.path.join(d, "subpackages"), exist_ok=True)
    for name, text in SYNTH.items():
        with open(os.path.join(d, name), "w") as f:
            f.write(text)
    return d


# --------------------------------------------------------------------------
# worker
# --------------------------------------------------------------------------

class Out:
    def __init__(self):
        self.evaluations = 0
        self.distinct = set()
        self.families = {}
        self.counters = {}
        self.samples = []
        self.vcount = {}
        self.violations = 0

    def eval(self, fam, n=1):
        self.evaluations += n
        self.families[fam] = self.families.get(fam, 0) + n

    def counter(self, k, n=1):
        self.counters[k] = self.counters.get(k, 0) + n

    def violation(self, key, what, witness):
        self.violations += 1
        self.vcount[key] = self.vcount.get(key, 0) + 1
        if self.vcount[key] > 2:
            return
        print(json.dumps({"t": "violation", "key": key, "what": what,
                          "witness": witness}), flush=True)

    def inconclusive(self, what):
        print(json.dumps({"t": "inconclusive", "what": what}), flush=True)

    def summary(self):
        print(json.dumps({"t": "summary", "evaluations": self.evaluations,
                          "distinct_nontrivial": len(self.distinct),
                          "families": self.families, "counters": self.counters,
                          "samples": self.samples,
                          "violations": self.violations}), flush=True)


def count_leaves(u):
    return sum(1 for e in u.iter() if len(e) == 0)


def count_decl_leaves(d):
    return sum(1 for e in d.iter() if len(e) == 0)


FAMILIES = ["valid", "fault_undeclared", "valid", "fault_choice", "unchecked",
            "unchecked", "valid", "fault_required", "valid", "valid",
            "fault_undeclared", "valid", "fault_choice", "additional_choices",
            "fault_required", "unchecked", "fault_undeclared_userattr", "valid",
            "fault_choice", "valid"]


def worker(args):
    out = Out()
    xmldir = args["defaults"].rstrip("/")
    work = args["work"]
    os.makedirs(work, exist_ok=True)
    per = args["per_calc"]
    # suite 1: every shipped calculator; suite 2: synthetic descriptions
    run_suite(out, args, xmldir, "shipped", per)
    synth = write_synthetic(os.path.join(work, "synth_defaults"))
    run_suite(out, args, synth, "synthetic", 3 * per)
    out.summary()
    return 0


def run_suite(out, args, xmldir, suite, per):
    import subprocess
    import time
    work = args["work"]
    seed, shard, shards = args["seed"], args["shard"], args["shards"]
    calcs = calculators(xmldir)
    packages = set()
    decls = {}
    for c in calcs:
        decls[c] = load_decl(xmldir, c, packages)
    cases = []
    stats = {}
    idx = 0
    for ci, calc in enumerate(calcs):
        if shard == ci % shards:
            cases.append(Case("%s.calcopts" % calc, calc, "calcopts", None))
        for k in range(per):
            idx += 1
            if idx % shards != shard:
                continue
            rng = random.Random("%d/%s/%d" % (seed, calc, k))
            fam = FAMILIES[k % len(FAMILIES)]
            if k == per - 1 and per >= 4 and suite == "shipped":
                fam = "nodefault"
            cid = "%s.%d.%s" % (calc, k, fam)
            c = gen_case(rng, cid, calc, decls[calc], fam, stats)
            if c is None:
                out.counter("fault_not_applicable_" + fam)
                c = gen_case(rng, cid.replace(fam, "valid"), calc,
                             decls[calc], "valid", stats)
            # half of the files are written the way a person would write them
            c.xml = to_xml(c.user, rng if rng.random() < 0.5 else None, stats)
            cases.append(c)
    for k, v in stats.items():
        out.counter(k, v)
    # write inputs + manifest
    man = os.path.join(work, "manifest_%s_%d.txt" % (suite, shard))
    with open(man, "w") as mf:
        for i, c in enumerate(cases):
            if c.family == "calcopts":
                mf.write("%s\tC\t%s\t-\n" % (c.id, c.calc))
                continue
            c.file = os.path.join(work, "u_%s_%d_%d.xml" % (suite, shard, i))
            with open(c.file, "w", encoding="utf-8", newline="") as f:
                f.write(c.xml)
            if c.additional:
                mf.write("%s\tA\t%s\t%s\t%s\n" % (c.id, c.calc, c.file,
                                                  ",".join(c.additional)))
            else:
                mf.write("%s\tP\t%s\t%s\n" % (c.id, c.calc, c.file))
    env = dict(os.environ)
    for attempt in range(8):
        p = subprocess.run([args["harness"], "--mode", "merge", "--defaults",
                            xmldir + "/", "--manifest", man],
                           stdout=subprocess.PIPE, stderr=subprocess.PIPE,
                           env=env)
        if p.returncode == 127 and b"loading shared libraries" in p.stderr:
            time.sleep(3 + 2 * attempt)   # concurrent re-link of the library
            continue
        break
    if p.returncode == 127 and b"loading shared libraries" in p.stderr:
        out.inconclusive("libraries were being rebuilt during merge shard %d"
                         % shard)
        return
    res = {}
    for ln in p.stdout.decode("utf-8", "replace").splitlines():
        if not ln.startswith("{"):
            continue
        try:
            rec = json.loads(ln)
        except ValueError:
            continue
        if rec.get("t") == "case":
            res[rec["id"]] = rec
        elif rec.get("t") == "violation":
            print(ln, flush=True)
            out.violations += 1
        elif rec.get("t") == "inconclusive":
            print(ln, flush=True)
        elif rec.get("t") == "summary":
            # the in-driver monitor: shared handler against a fresh handler
            n = rec.get("families", {}).get("reuse_handler_vs_fresh", 0)
            out.eval("reuse_handler_vs_fresh", n)
    if p.returncode != 0:
        # sanitizer / assertion abort of the driver: hand the report on
        print(json.dumps({"t": "driver_abort", "rc": p.returncode,
                          "stderr": p.stderr.decode("utf-8", "replace")[-6000:],
                          "cases_done": len(res)}), flush=True)
    for c in cases:
        r = res.get(c.id)
        if r is None:
            if p.returncode == 0:
                out.inconclusive("driver printed nothing for " + c.id)
            continue
        judge(out, c, r, decls[c.calc], xmldir)


def judge(out, c, r, decl, xmldir):
    if c.family == "calcopts":
        out.eval("calcopts")
        out.distinct.add(hashlib.sha1(("calcopts/" + c.calc).encode()).hexdigest())
        if not r["ok"]:
            out.violation("calcopts/error", "CalculatorOptions throws for a "
                          "shipped calculator", {"calc": c.calc, "error": r["err"]})
            return
        diffs = []
        got = r["tree"]
        if len(got["c"]) != 1 or got["c"][0]["n"] != "options":
            diffs.append(("calcopts/tree-differs", "top node is not <options>"))
        else:
            compare_calcopts(calcopts_model(decl), got["c"][0], "", diffs)
        for key, txt in diffs[:3]:
            out.violation(key, "CalculatorOptions differs from the description "
                          "with links resolved", {"calc": c.calc, "difference": txt})
        return
    fam = c.family
    out.eval(fam)
    h = hashlib.sha1((c.calc + "\n" + c.xml).encode()).hexdigest()
    # the model reads the file as written (independent XML parser), not the
    # generator's element tree
    try:
        uroot = ET.fromstring(c.xml.encode("utf-8"))
    except ET.ParseError as e:
        out.inconclusive("generator wrote a user file python cannot parse: %s %s"
                         % (c.id, e))
        return
    exp, ex = model(decl, uroot, c.additional)
    kinds = [e[0] for e in ex.errors]
    wit = {"calc": c.calc, "family": fam, "case": c.id, "user_xml": c.xml,
           "defaults_dir": xmldir}
    if c.additional:
        wit["additional_choices"] = c.additional
    if "undecided" in kinds:
        out.counter("dontcare_value_model_undecided")
        return
    if fam == "additional_choices" and "plain_ok" in r:
        # the same input on a handler that was never given the additional
        # choices (while other handlers of the process hold them)
        _, ex_plain = model(decl, uroot, ())
        if ex_plain.errors and "undecided" not in [e[0] for e in ex_plain.errors]:
            out.eval("additional_choices_plain_handler")
            if r["plain_ok"]:
                out.violation("merge/additional-choice-accepted-by-handler-without-it",
                              "a value outside the declared choices is accepted "
                              "by a handler that has no additional choices "
                              "(another handler of the process has them)", wit)
    if fam in ("valid", "unchecked", "additional_choices"):
        if fam == "additional_choices":
            out.distinct.add(h)
        if fam == "unchecked":
            out.distinct.add(h)
            out.counter("unchecked_cases/" + c.calc)
        if ex.errors:
            out.inconclusive("generator produced an invalid 'valid' case %s: %s"
                             % (c.id, ex.errors[:3]))
            return
        nuser = count_leaves(uroot)
        ndecl = count_decl_leaves(decl)
        if nuser >= 1 and nuser < ndecl:
            out.distinct.add(h)
        if not r["ok"]:
            wit["error"] = r["err"]
            if fam == "unchecked" and re.search(
                    r"(method|scf|maxcore|pointcharges|freeform|basis)\d|ncfree",
                    r["err"]):
                out.violation("merge/unchecked-section-rejected",
                              "user content below a section declared "
                              "unchecked=\"\" is rejected as undeclared", wit)
            elif fam == "additional_choices":
                wit["additional_choices"] = c.additional
                out.violation("merge/additional-choice-rejected",
                              "a value registered with setAdditionalChoices() "
                              "is rejected", wit)
            else:
                out.violation("merge/valid-input-rejected",
                              "a valid user input is rejected", wit)
            return
        got = r["tree"]
        diffs, ostats = [], {}
        gopt = [k for k in got["c"] if k["n"] == "options"]
        if len(got["c"]) != 1 or len(gopt) != 1:
            diffs.append(("merge/unexpected-node", "top level is not a single "
                          "<options> node"))
        else:
            compare(exp, gopt[0], "", diffs, ostats)
        for k, v in ostats.items():
            out.counter(k, v)
        seen = set()
        for key, txt in diffs:
            if key == "resolve/unchecked/declared-child-duplicated" and \
                    c.calc.startswith("synth"):
                # only reachable through a synthetic description (no shipped
                # unchecked section declares children): outside the property's
                # quantifier "every calculator description shipped with
                # VOTCA" - observed and counted, not judged (DESIGN 11.1b)
                out.counter("observed_only/synthetic-description/"
                            "declared-child-of-unchecked-section-duplicated")
                continue
            if key in seen:
                continue
            seen.add(key)
            w = dict(wit)
            w["difference"] = txt
            w["all_differences"] = [t for _, t in diffs[:8]]
            w["resolved"] = got
            out.violation(key, "resolved options differ from the documented "
                          "merge", w)
        if len(out.samples) < 3 and nuser >= 2 and not diffs:
            out.samples.append({"calc": c.calc, "family": fam,
                                "user_xml": c.xml[:600],
                                "user_leaves": nuser, "declared_leaves": ndecl,
                                "verdict": "resolved tree equals the model"})
        return
    # negative cases -------------------------------------------------------
    kind, name = c.fault
    wit["injected_fault"] = {"kind": kind, "option": name}
    if kind == "nodefault":
        # a typed leaf without default that the user leaves out: the statement
        # does not say whether this is an error -> observation only
        out.counter("observed_nodefault_leaf_omitted_" +
                    ("accepted" if r["ok"] else "rejected"))
        return
    out.distinct.add(h)
    model_kinds = set(kinds)
    userattr = (kind == "undeclared_userattr")
    if userattr:
        kind = "undeclared"
    if kind not in model_kinds:
        out.inconclusive("fault %s not seen by the model in %s" % (kind, c.id))
        return
    if r["ok"]:
        wit["resolved"] = r["tree"]
        if userattr:
            out.violation("merge/user-unchecked-attribute-bypasses-name-check",
                          "an undeclared option '%s' below a user node that "
                          "carries unchecked=\"\" (the description does not "
                          "declare that section unchecked) is accepted and "
                          "silently dropped" % name, wit)
            return
        out.violation("merge/fault-accepted/" + kind,
                      "an input with an injected fault (%s '%s') is accepted"
                      % (kind, name), wit)
        return
    if name not in r["err"]:
        wit["error"] = r["err"]
        out.violation("merge/error-does-not-name-option/" + kind,
                      "the error for the injected fault does not name the "
                      "option", wit)
        return
    out.counter("faults_rejected_naming_option_" + c.fault[0])
    if len(out.samples) < 4 and kind == "choice":
        out.samples.append({"calc": c.calc, "family": fam, "fault": c.fault,
                            "error": r["err"].strip()[:300]})


def main(argv):
    a = {"seed": 1, "shard": 0, "shards": 1, "per_calc": 20}
    i = 0
    while i < len(argv):
        k = argv[i].lstrip("-").replace("-", "_")
        a[k] = argv[i + 1]
        i += 2
    for k in ("seed", "shard", "shards", "per_calc"):
        a[k] = int(a[k])
    return worker(a)


if __name__ == "__main__":
    sys.exit(main(sys.argv[1:]))
