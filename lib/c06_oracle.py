#!/usr/bin/env python3-vt
"""C06 oracles + workload generators (DESIGN.md §5 C06), run with python3-vt.

  c06_oracle.py fmatch --seed S --shard K --n N --scratch DIR --exe CSG_FMATCH
  c06_oracle.py imc    --seed S --shard K --n N --scratch DIR --exe CSG_IMC_SOLVE
  c06_oracle.py replay <witness.json> --scratch DIR --fmatch EXE --imc EXE

fmatch: bead configurations + reference forces generated from force functions
that lie inside csg_fmatch's spline space (natural cubic splines on the fit
grid, affine functions); expected output = the generating function.
imc: (A, b, r) files; the residual of (A^T A + r I) x = -A^T b is evaluated in
numpy from the digits of the files.
Output: JSON lines (violation / abnormal / summary) on stdout.
"""
import hashlib
import json
import math
import os
import shutil
import subprocess
import sys
import time

import numpy as np

HERE = os.path.dirname(os.path.abspath(__file__))
sys.path.insert(0, HERE)

# force unit conversion of the LAMMPS dump reader: kcal/mol/Angstrom ->
# kJ/mol/nm. Which calorie the reader uses is not C06's business (C20): both
# are accepted, see judge_fmatch.
KCAL_IT, KCAL_TH = 4.1868, 4.184
MIN_SAMPLES = 8


def emit(rec):
    sys.stdout.write(json.dumps(rec, default=lambda o: o.tolist()
                                if hasattr(o, "tolist") else str(o)) + "\n")
    sys.stdout.flush()


def dec(x, nd=6):
    s = ("%.*f" % (nd, x)).rstrip("0")
    if s.endswith("."):
        s += "0"
    return "0.0" if s == "-0.0" else s


def min_image(d, box):
    return d - box * np.round(d / box)


def print_tol(v, digits):
    a = np.abs(np.asarray(v, dtype=float))
    e = np.where(a > 0, np.floor(np.log10(np.where(a > 0, a, 1.0))), 0.0)
    return np.where(a > 0, 0.5 * 10.0 ** (e - digits + 1), 0.0)


# ----------------------------------------------------------------------------
# force functions inside the spline space
# ----------------------------------------------------------------------------

class NaturalSpline:
    """natural cubic spline through (xk, yk); outside [x0, xn] the first/last
    cubic is continued (that is what a fit with this basis represents)."""

    def __init__(self, xk, yk):
        self.x = np.asarray(xk, float)
        self.y = np.asarray(yk, float)
        n = len(xk)
        h = np.diff(self.x)
        M = np.zeros((n, n))
        rhs = np.zeros(n)
        M[0, 0] = M[-1, -1] = 1.0
        for i in range(1, n - 1):
            M[i, i - 1] = h[i - 1] / 6
            M[i, i] = (h[i - 1] + h[i]) / 3
            M[i, i + 1] = h[i] / 6
            rhs[i] = (self.y[i + 1] - self.y[i]) / h[i] - \
                (self.y[i] - self.y[i - 1]) / h[i - 1]
        self.m = np.linalg.solve(M, rhs)       # second derivatives

    def __call__(self, t):
        t = np.asarray(t, float)
        i = np.clip(np.searchsorted(self.x, t, side="right") - 1, 0,
                    len(self.x) - 2)
        h = self.x[i + 1] - self.x[i]
        a = (self.x[i + 1] - t) / h
        b = (t - self.x[i]) / h
        return a * self.y[i] + b * self.y[i + 1] + \
            ((a ** 3 - a) * self.m[i] + (b ** 3 - b) * self.m[i + 1]) * h * h / 6


class PeriodicSpline:
    """periodic cubic spline (value, first and second derivative continuous
    across the period) through (xk, yk) with yk[-1] == yk[0]"""

    def __init__(self, xk, yk):
        self.x = np.asarray(xk, float)
        self.y = np.asarray(yk, float)
        n = len(xk) - 1                  # distinct knots
        h = np.diff(self.x)
        M = np.zeros((n, n))
        rhs = np.zeros(n)
        for i in range(n):
            hm, hp = h[(i - 1) % n], h[i]
            M[i, (i - 1) % n] += hm / 6
            M[i, i] += (hm + hp) / 3
            M[i, (i + 1) % n] += hp / 6
            rhs[i] = (self.y[i + 1] - self.y[i]) / hp - \
                (self.y[i] - self.y[(i - 1) % n]) / hm
        m = np.linalg.solve(M, rhs)
        self.m = np.concatenate([m, m[:1]])

    __call__ = NaturalSpline.__call__


def func_of(it):
    if it.get("periodic"):
        return PeriodicSpline(it["grid"], it["knots"])
    return NaturalSpline(it["grid"], it["knots"])


def make_function(r, grid, scale):
    """random element of the spline space on `grid`"""
    kind = r.rand()
    if kind < 0.2:      # affine
        a, b = r.uniform(-1, 1) * scale, r.uniform(-1, 1) * scale
        span = grid[-1] - grid[0]
        yk = a + b * (grid - grid[0]) / span
    elif kind < 0.6:    # smooth, physically shaped knot values
        t = (grid - grid[0]) / (grid[-1] - grid[0])
        yk = scale * (r.uniform(0.5, 2) * np.exp(-r.uniform(1, 5) * t) -
                      r.uniform(0, 1) * np.sin(r.uniform(1, 6) * t))
    else:               # random knot values
        yk = scale * r.uniform(-1, 1, size=len(grid))
    yk = np.round(yk, 6)
    return NaturalSpline(grid, yk), yk


# ----------------------------------------------------------------------------
# internal coordinates and their gradients (validated by finite differences)
# ----------------------------------------------------------------------------

def ic_value(kind, p, box):
    if kind == "bond":
        return np.linalg.norm(min_image(p[1] - p[0], box))
    if kind == "angle":
        v1 = min_image(p[0] - p[1], box)
        v2 = min_image(p[2] - p[1], box)
        c = np.dot(v1, v2) / (np.linalg.norm(v1) * np.linalg.norm(v2))
        return math.acos(max(-1.0, min(1.0, c)))
    v1 = min_image(p[1] - p[0], box)
    v2 = min_image(p[2] - p[1], box)
    v3 = min_image(p[3] - p[2], box)
    n1, n2 = np.cross(v1, v2), np.cross(v2, v3)
    return math.atan2(np.linalg.norm(v2) * np.dot(v1, n2), np.dot(n1, n2))


def ic_grad(kind, p, box):
    """d value / d r_k for every bead k of the interaction, shape (nb, 3)"""
    if kind == "bond":
        d = min_image(p[1] - p[0], box)
        u = d / np.linalg.norm(d)
        return np.array([-u, u])
    if kind == "angle":
        v1 = min_image(p[0] - p[1], box)
        v2 = min_image(p[2] - p[1], box)
        l1, l2 = np.linalg.norm(v1), np.linalg.norm(v2)
        c = np.dot(v1, v2) / (l1 * l2)
        s = math.sqrt(1 - c * c)
        g0 = -(v2 / (l1 * l2) - c * v1 / (l1 * l1)) / s
        g2 = -(v1 / (l1 * l2) - c * v2 / (l2 * l2)) / s
        return np.array([g0, -(g0 + g2), g2])
    v1 = min_image(p[1] - p[0], box)
    v2 = min_image(p[2] - p[1], box)
    v3 = min_image(p[3] - p[2], box)
    n1, n2 = np.cross(v1, v2), np.cross(v2, v3)
    l2 = np.linalg.norm(v2)
    g0 = -l2 / np.dot(n1, n1) * n1
    g3 = l2 / np.dot(n2, n2) * n2
    a = np.dot(v1, v2) / (l2 * l2)
    b = np.dot(v3, v2) / (l2 * l2)
    g1 = -g0 - a * g0 + b * g3
    g2 = -g3 + a * g0 - b * g3
    return np.array([g0, g1, g2, g3])


def fd_check(kind, p, box, h=1e-6):
    """max abs difference between ic_grad and central differences"""
    g = ic_grad(kind, p, box)
    worst = 0.0
    for k in range(len(p)):
        for c in range(3):
            q = p.copy()
            q[k, c] += h
            up = ic_value(kind, q, box)
            q[k, c] -= 2 * h
            dn = ic_value(kind, q, box)
            d = up - dn
            if kind == "dihedral":
                d = (d + math.pi) % (2 * math.pi) - math.pi
            worst = max(worst, abs(d / (2 * h) - g[k, c]))
    return worst, float(np.abs(g).max())


# ----------------------------------------------------------------------------
# fmatch case generation
# ----------------------------------------------------------------------------

# wanted number of equations 3*nbeads*frames_per_block of a many-equations
# block (the next feasible N >= target is used), plus controls
MANY_TARGETS = [(4124, 4200), 5000, 8191, 8193, "le4096", 12000, (4124, 4200),
                6001, "multiple", 10001, 16385, (4124, 4200), 4500, 7000,
                (8193, 8300), 9000]

FAMILIES = ["nonbonded", "bond", "angle", "dihedral", "mixed", "mixed-angle",
            "dihedral-periodic", "mixed-order", "mixed-order", "small-box",
            "small-box", "irregular-grid", "irregular-grid"]


def rand_unit(r):
    v = r.standard_normal(3)
    return v / np.linalg.norm(v)


def place_next(r, p_prev2, p_prev, p_cur, blen, theta, phi):
    """NeRF: new point with |new-cur|=blen, angle(prev,cur,new)=theta and
    dihedral(prev2,prev,cur,new)=phi (conventions irrelevant: the actual
    values are recomputed from the written coordinates)"""
    bc = p_cur - p_prev
    bc /= np.linalg.norm(bc)
    if p_prev2 is None:
        n = np.cross(bc, rand_unit(r))
    else:
        n = np.cross(p_prev - p_prev2, bc)
    if np.linalg.norm(n) < 1e-8:
        n = np.cross(bc, rand_unit(r))
    n /= np.linalg.norm(n)
    m = np.cross(n, bc)
    d2 = np.array([-blen * math.cos(theta), blen * math.sin(theta) * math.cos(phi),
                   blen * math.sin(theta) * math.sin(phi)])
    return p_cur + d2[0] * bc + d2[1] * m + d2[2] * n


class FGen:
    def __init__(self, seed):
        self.r = np.random.RandomState(seed % (2 ** 32))

    def ch(self, seq):
        return seq[self.r.randint(len(seq))]

    def remainder(self, st):
        """0.1..0.9 of a step, as a short decimal, never 0 or the step"""
        rem = round(self.r.uniform(0.1, 0.9) * st, 4)
        return rem if 0 < rem < st else round(0.5 * st, 4)

    def make(self, family):
        r = self.r
        c = {"family": family}
        c["constrained"] = bool(r.rand() < 0.5)
        c["nblocks"] = int(self.ch([1, 1, 2, 3]))
        c["replicate"] = bool(c["nblocks"] > 1 and r.rand() < 0.4)
        c["nbsearch"] = self.ch([None, "grid", "simple"])
        c["mapping"] = bool(r.rand() < 0.2)      # trivial 1:1 mapping or --no-map
        c["decimals"] = int(self.ch([4, 5, 6]))
        has_nb = family in ("nonbonded", "mixed", "mixed-angle")
        periodic_of = {}          # interaction name -> periodic spline
        c["sub"] = None
        small = family == "small-box"
        if small:
            # box edges only 2.3..3.2 times the largest bond length: chains
            # span more than half the box while every single bond is shorter
            # than half an edge; coordinates are wrapped into the cell
            c["sub"] = sub = self.ch(["bond", "angle", "dihedral", "mixed", "mixed"])
            kinds = {"bond": ["bond"], "angle": ["angle"], "dihedral": ["dihedral"],
                     "mixed": ["bond", "dihedral"] +
                     (["angle"] if r.rand() < 0.5 else [])}[sub]
            has_nb = sub == "mixed" and r.rand() < 0.3
            chain = int(self.ch([4, 5]))
            nper = 0
        elif family == "irregular-grid":
            # fit grids whose step does not divide max - min: the last spline
            # interval is longer than the others (nodes min + i*step, last
            # node moved to max); periodic dihedrals alone and mixed, and the
            # natural-boundary kinds
            c["sub"] = sub = self.ch(["periodic-dihedral", "periodic-dihedral",
                                      "bond", "angle", "nonbonded", "mixed",
                                      "mixed"])
            mix = [k_ for k_ in ("bond", "angle") if r.rand() < 0.6]
            kinds = {"periodic-dihedral": ["dihedral"], "bond": ["bond"],
                     "angle": ["angle"], "nonbonded": [],
                     "mixed": ["dihedral"] + (mix or ["bond"])}[sub]
            has_nb = sub == "nonbonded" or (sub == "mixed" and r.rand() < 0.4)
            nper = 1 if "dihedral" in kinds else 0
            chain = {"periodic-dihedral": int(self.ch([4, 5])),
                     "bond": int(self.ch([2, 3, 4])), "angle": int(self.ch([3, 4])),
                     "nonbonded": 1, "mixed": 4}[sub]
        elif family == "mixed-order":
            # 2..4 interactions in random order, 0..2 of them periodic
            # dihedrals at any position of the options file
            nper = int(self.ch([0, 1, 1, 1, 2, 2]))
            ninter = int(r.randint(max(2, nper), 5))
            pool = ["pair", "bond", "angle"] + (["dihedral"] if nper < 2 else [])
            r.shuffle(pool)
            chosen = pool[:ninter - nper]
            has_nb = "pair" in chosen
            kinds = [k for k in chosen if k != "pair"] + ["dihedral"] * nper
            ndih = kinds.count("dihedral")
            chain = 5 if ndih == 2 else 4 if ndih == 1 else \
                3 if "angle" in kinds else int(self.ch([2, 3]))
        else:
            kinds = {"nonbonded": [], "bond": ["bond"], "angle": ["angle"],
                     "dihedral": ["dihedral"], "dihedral-periodic": ["dihedral"],
                     "mixed": ["bond"] + (["dihedral"] if r.rand() < 0.6 else []),
                     "mixed-angle": ["bond", "angle"] +
                     (["dihedral"] if r.rand() < 0.5 else [])}[family]
            chain = {"nonbonded": 1, "bond": int(self.ch([2, 2, 3, 4])),
                     "angle": int(self.ch([3, 3, 4])),
                     "dihedral": int(self.ch([4, 4, 5])),
                     "dihedral-periodic": int(self.ch([4, 4, 5])),
                     "mixed": 4 if "dihedral" in kinds else int(self.ch([2, 3])),
                     "mixed-angle": 4 if "dihedral" in kinds else 3}[family]
            nper = 1 if family == "dihedral-periodic" else 0
        target = int(r.randint(20, 81))
        irregular = family == "irregular-grid"
        if family == "mixed-order" or irregular:
            target = int(r.randint(60, 101))     # enough samples per interval
        if irregular and nper:
            target = int(r.randint(80, 121))
        nmol = max(2, target // chain)
        if small:
            nmol = int(r.randint(3, 7))
        if family == "nonbonded" or (irregular and chain == 1):
            nmol = max(20, nmol)
        c["chain"], c["nmol"] = chain, nmol
        nbeads = nmol * chain
        L = (nbeads / r.uniform(3.0, 9.0)) ** (1 / 3.0)
        L = max(L, 2.4)
        box = np.round(np.array([L * r.uniform(0.9, 1.3) for _ in range(3)]), 3)
        c["bond_default"] = [0.12, 0.3]
        if small:
            bmax = 0.5
            c["bond_default"] = [0.42, bmax]
            c["angle_default"] = [1.8, 2.7]      # stretched chains
            box = np.round(np.array([bmax * min(r.uniform(2.3, 3.2),
                                                r.uniform(2.3, 3.2))
                                     for _ in range(3)]), 3)
        # coordinates wrapped into the cell in the trajectory file
        c["wrap"] = bool(small or r.rand() < 0.25)
        c["box"] = [float(b) for b in box]
        half = 0.5 * box.min()
        # bead types: nonbonded family may use two types (cross interaction)
        c["types"] = ["A"] * chain
        inter = []
        if has_nb:
            st = self.ch([0.02, 0.04, 0.05, 0.1, 0.2])
            lo = round(self.ch([0.2, 0.24, 0.25, 0.3]), 3)
            if small:       # cutoff below half the box
                st = self.ch([0.04, 0.05, 0.1])
                half_nb = 0.95 * half
            else:
                half_nb = half
            kmax = int(math.floor((min(half_nb, 1.2) - lo) / st + 1e-9))
            k = int(r.randint(3, max(4, min(kmax, 10)) + 1))
            k = min(k, kmax)
            nb_rem = 0.0
            if irregular and r.rand() < 0.7:
                k = max(2, min(k, kmax - 1))
                nb_rem = self.remainder(st)
            cross = family == "nonbonded" and r.rand() < 0.3
            wild = (not cross) and r.rand() < 0.3
            inter.append({"class": "pair", "name": "NB",
                          "type1": "*" if wild else "A",
                          "type2": "*" if wild else ("B" if cross else "A"),
                          "min": lo, "max": round(lo + k * st + nb_rem, 6),
                          "step": st})
            c["cross"] = cross
        ndone = {}
        perflags = [True] * nper + [False] * (kinds.count("dihedral") - nper)
        r.shuffle(perflags)
        for kind in kinds:
            ndone[kind] = ndone.get(kind, 0) + 1
            periodic = kind == "dihedral" and perflags.pop()
            if kind == "bond" and small:
                st = self.ch([0.02, 0.04])
                lo = round(self.ch([0.34, 0.36]), 3)
                k = int(r.randint(3, int(math.floor((0.5 - lo) / st + 1e-9)) + 1))
                mx = round(lo + k * st, 6)
            elif kind == "bond":
                st = self.ch([0.02, 0.04, 0.05, 0.1])
                lo = round(self.ch([0.1, 0.12, 0.15, 0.2]), 3)
                k = int(r.randint(3, 8))
                mx = round(lo + k * st, 6)
                if mx > 0.9 * half:
                    k = max(2, int((0.9 * half - lo) / st))
                    mx = round(lo + k * st, 6)
            elif kind == "angle":
                st = self.ch([0.1, 0.2, 0.25, 0.4])
                lo = round(self.ch([0.6, 0.8, 1.0, 1.2]), 3)
                k = int(r.randint(3, 7 if small else 9))
                k = min(k, int((2.7 - lo) / st))
                mx = round(lo + k * st, 6)
            elif periodic:
                # the whole circle; the last interval absorbs the rounding of
                # the step (the fit grid is min + i*step with the last point
                # set to max)
                k = int(r.randint(4, 9 if family == "mixed-order" else 13))
                lo, mx = -3.141592654, 3.141592654
                st = round((mx - lo) / k, 9)
                if irregular and r.rand() < 0.75:
                    # round / random steps that do not divide 2 pi
                    st = self.ch([0.3, 0.25, 0.4, 0.5, 0.7, 0.9, 1.0, 1.1, 1.3,
                                  round(r.uniform(0.3, 1.5), 3),
                                  round(r.uniform(0.3, 1.5), 3)])
                    if r.rand() < 0.04:
                        st = 0.1
            else:
                st = self.ch([0.2, 0.25, 0.5, 1.0])
                lo = round(self.ch([-3.0, -2.5, -2.0, -1.0, 0.0]), 3)
                if small:
                    st = self.ch([0.5, 1.0])
                k = int(r.randint(3, 7 if small else 11))
                k = max(2, min(k, int((3.0 - lo) / st + 1e-9)))
                mx = round(lo + k * st, 6)
            if irregular and not periodic and r.rand() < 0.7:
                rem = self.remainder(st)
                if kind == "angle":
                    rem = min(rem, max(0.0, 2.9 - mx))
                if kind == "bond":
                    rem = min(rem, max(0.0, 0.95 * half - mx))
                mx = round(mx + round(rem, 4), 6)
            inter.append({"class": "bonded", "kind": kind,
                          "name": kind + str(ndone[kind]),
                          "min": lo, "max": mx, "step": st})
            if periodic:
                inter[-1]["periodic"] = True
        # second bond group in some bonded systems
        if family == "bond" and chain >= 3 and r.rand() < 0.5:
            b = dict(inter[-1])
            b["name"] = "bond2"
            inter.append(b)
        out_choices = [1.0, 0.5, 0.25, 0.2]
        for it in inter:
            it["out_step"] = round(it["step"] * self.ch(out_choices), 6)
            # nodes min + i*step; the last node is moved to max, so a step
            # that does not divide max - min gives a longer last interval
            npts = int(math.floor((it["max"] - it["min"]) / it["step"] + 1e-8)) + 1
            grid = it["min"] + it["step"] * np.arange(npts)
            grid[-1] = it["max"]
            it["grid"] = [float(g) for g in grid]
            it["last_interval_ratio"] = float(
                (grid[-1] - grid[-2]) / it["step"])
            scale = {"pair": 300.0, "bond": 2000.0, "angle": 80.0,
                     "dihedral": 20.0}[it.get("kind", "pair")] * r.uniform(0.2, 2)
            if it.get("periodic"):
                # periodic spline whose knot values vanish at the end points
                # and sum to zero (inside the space for either way of counting
                # the end point in the sum-zero condition)
                yk = scale * r.uniform(-1, 1, size=len(grid))
                yk[0] = yk[-1] = 0.0
                yk[1:-1] -= yk[1:-1].mean()
                yk = np.round(yk, 6)
                yk[1] -= yk[1:-1].sum()
                yk = np.round(yk, 6)
            else:
                f, yk = make_function(r, grid, scale)
            it["knots"] = [float(v) for v in yk]
        c["interactions"] = inter
        r.shuffle(c["interactions"])
        # independent order of the groups in <bonded> / <cg_bonded>
        c["bonded_order"] = [it["name"] for it in inter if it["class"] == "bonded"]
        r.shuffle(c["bonded_order"])
        # bonded tuples per molecule (indices within the chain)
        tup = {}
        for it in inter:
            if it["class"] != "bonded":
                continue
            nb = {"bond": 2, "angle": 3, "dihedral": 4}[it["kind"]]
            allt = [list(range(i, i + nb)) for i in range(chain - nb + 1)]
            if it["name"] == "bond1" and any(j["name"] == "bond2" for j in inter):
                allt = allt[0::2]
            if it["name"] == "bond2":
                allt = allt[1::2]
            if any(j["name"] == "dihedral2" for j in inter):
                if it["name"] == "dihedral1":
                    allt = allt[0::2]
                if it["name"] == "dihedral2":
                    allt = allt[1::2]
            tup[it["name"]] = allt
        c["tuples"] = tup
        # frames per block: enough samples per spline interval
        need = 1
        for it in inter:
            nint = len(it["grid"]) - 1
            if it["class"] == "pair":
                per_frame = max(1, nbeads // 2 - 2)
            else:
                per_frame = nmol * len(tup[it["name"]])
            need = max(need, int(math.ceil(2.2 * MIN_SAMPLES * nint / per_frame)))
        cap = 40 if (small or irregular) else 12
        if irregular and any(len(it["grid"]) > 40 for it in inter):
            cap = 70
        c["fpb"] = int(min(cap, max(need, int(r.randint(1, 5)))))
        c["extra_frames"] = int(self.ch([0, 0, 0, 1])) if c["fpb"] > 1 else 0
        nframes = c["fpb"] if c["replicate"] else c["fpb"] * c["nblocks"]
        frames = []
        for f in range(nframes + (0 if c["replicate"] else c["extra_frames"])):
            fr = self.frame(c, box)
            if fr is None:
                return None
            frames.append(fr)
        if c["replicate"]:
            frames = frames * c["nblocks"]
            c["extra_frames"] = 0
        c["frames_pos"] = frames
        # command-line variants (never both): --trj-force with a second
        # trajectory of already known forces; --first-frame/--nframes with
        # junk frames (random forces) before and after the used ones
        c["trj_force"] = False
        c["junk_before"] = c["junk_after"] = 0
        v = r.rand()
        if v < 0.2:
            c["trj_force"] = True
            c["dist_opt"] = self.ch([None, "1e-5", "1e-7"])
        elif v < 0.4:
            c["junk_before"] = int(r.randint(0, 4))
            c["junk_after"] = int(r.randint(0 if c["junk_before"] else 1, 4))
            c["extra_frames"] = 0
            nuse = c["fpb"] * c["nblocks"]
            c["frames_pos"] = c["frames_pos"][:nuse]
            for _ in range(c["junk_before"] + c["junk_after"]):
                fr = self.frame(c, box)
                if fr is None:
                    return None
                c["frames_pos"].append(fr)     # reordered in build_fmatch_case
        c["junk_seed"] = int(r.randint(1, 2 ** 31 - 1))
        return c

    def frame(self, c, box):
        """positions (unrounded); molecules as chains with internal coordinates
        drawn inside the fit grids, non-bonded partners at controlled
        distances"""
        r = self.r
        inter = {it["name"]: it for it in c["interactions"]}
        nbit = inter.get("NB")
        rng = {}
        for it in c["interactions"]:
            if it["class"] == "bonded":
                m = 0.03 * it["step"]
                rng.setdefault(it["kind"], []).append(
                    (it["name"], it["min"] + m, it["max"] - m))
        chain, nmol = c["chain"], c["nmol"]
        tups = c["tuples"]

        def draw(kind, idx, default):
            for name, lo, hi in rng.get(kind, []):
                if any(t[-1] == idx for t in tups[name]):
                    return r.uniform(lo, hi)
            return default()
        mols = []
        hard = (nbit["min"] + 0.02 * nbit["step"]) if nbit else 0.0
        allpos = np.zeros((0, 3))

        def too_close(pts, others):
            if not nbit or len(others) == 0:
                return False
            d = min_image(pts[:, None, :] - others[None, :, :], box)
            return bool((np.sqrt((d * d).sum(axis=2)) < hard).any())
        for m in range(nmol):
            for attempt in range(300):
                # first bead: half of the molecules are placed at a controlled
                # distance from an existing bead (samples every interval)
                if nbit and len(allpos) and (m % 2 == 1 or attempt > 100):
                    a = allpos[r.randint(len(allpos))]
                    p0 = a + rand_unit(r) * r.uniform(hard, nbit["max"])
                else:
                    p0 = r.uniform(0, 1, size=3) * box
                pts = [p0]
                for b in range(1, chain):
                    bl = draw("bond", b, lambda: r.uniform(*c["bond_default"]))
                    if b == 1:
                        pts.append(pts[0] + rand_unit(r) * bl)
                        continue
                    th = draw("angle", b, lambda: r.uniform(
                        *(c.get("angle_default") or [0.9, 2.4])))
                    ph = draw("dihedral", b, lambda: r.uniform(-3.1, 3.1)) \
                        if b >= 3 else r.uniform(-3.1, 3.1)
                    pts.append(place_next(r, pts[b - 3] if b >= 3 else None,
                                          pts[b - 2], pts[b - 1], bl, th, ph))
                pts = np.array(pts)
                # intramolecular non-excluded pairs must respect the core too
                ok = not too_close(pts, allpos)
                if ok and nbit and chain > 1:
                    for i in range(chain):
                        for j in range(i + 1, chain):
                            if np.linalg.norm(pts[i] - pts[j]) < hard and \
                                    not self.excluded(c, i, j):
                                ok = False
                if ok:
                    break
            else:
                return None
            mols.append(pts)
            allpos = np.concatenate([allpos, pts])
        return allpos

    # ---- family many-equations: blocks with more than 4096 equations -----
    def make_many(self, target, variant):
        """one interaction (bond in dimers / angle in trimers / pair between
        single beads), one block of fpb frames with N = 3*nbeads*fpb
        equations. variant 'tail': one or two spline intervals are sampled
        only by equations at the very end of the block (bond / pair: special
        molecules of the last frame, aligned along z and listed last, so that
        only the last z rows carry them; angle: the whole last frame);
        variant 'noisy': noisy forces, expected = own least-squares solution
        over the natural-spline space (constrained LS only);
        target: wanted N, or 'le4096' / 'multiple' (controls)"""
        r = self.r
        kind = self.ch(["bond", "bond", "nonbonded", "angle"])
        if target == "multiple" and kind == "angle":
            kind = "bond"
        chain = {"bond": 2, "angle": 3, "nonbonded": 1}[kind]
        # a natural C2 spline is still determined by exact data on the other
        # intervals when a single (end or interior) interval is unsampled;
        # two or more adjacent intervals at an end are not
        ntail = int(self.ch([2, 2, 3]))
        nspecial = 14 * ntail
        need_b = 2 * nspecial            # z rows that must be dropped
        best = None
        for fpb in range(6, 61):
            for nbeads in range(chain * 20, 421, chain):
                N = 3 * nbeads * fpb
                mod = N % 4096
                if target == "le4096":
                    ok = 2000 <= N <= 4096
                    score = -N
                elif target == "multiple":
                    ok = mod == 0
                    score = N
                else:
                    ok = N >= target and N > 4096 and mod != 0
                    if variant == "tail":
                        ok = ok and (mod >= 3 * nbeads if kind == "angle"
                                     else mod >= need_b)
                    score = N
                if kind != "nonbonded" and nbeads // chain < 2 * nspecial:
                    ok = False
                if kind == "nonbonded" and nbeads < 6 * nspecial:
                    ok = False
                if ok and (best is None or (score, r.rand()) < best[0]):
                    best = ((score, r.rand()), nbeads, fpb)
        if best is None:
            return None
        nbeads, fpb = best[1], best[2]
        nmol = nbeads // chain
        c = {"family": "many-equations", "sub": kind, "nblocks": 1,
             "replicate": False, "nbsearch": self.ch([None, "grid", "simple"]),
             "mapping": False, "decimals": int(self.ch([4, 5, 6])),
             "chain": chain, "nmol": nmol, "types": ["A"] * chain,
             "fpb": fpb, "extra_frames": 0, "trj_force": False,
             "junk_before": 0, "junk_after": 0, "wrap": False, "cross": False,
             "bond_default": [0.12, 0.3],
             "junk_seed": int(r.randint(1, 2 ** 31 - 1))}
        c["constrained"] = True if variant == "noisy" else bool(r.rand() < 0.7)
        L = max(2.6, (nbeads / r.uniform(2.0, 3.0)) ** (1 / 3.0))
        box = np.round(np.array([L * r.uniform(0.95, 1.15) for _ in range(3)]), 3)
        c["box"] = [float(b) for b in box]
        if kind == "bond":
            st, lo, k = self.ch([0.02, 0.04, 0.05]), self.ch([0.1, 0.15, 0.2]), \
                int(r.randint(4, 8))
        elif kind == "angle":
            st, lo, k = self.ch([0.2, 0.25]), self.ch([0.8, 1.0]), int(r.randint(4, 7))
        else:
            st, lo, k = self.ch([0.05, 0.1]), self.ch([0.25, 0.3]), int(r.randint(4, 8))
        k = max(k, ntail + 3)
        it = {"class": "pair" if kind == "nonbonded" else "bonded",
              "name": "NB" if kind == "nonbonded" else kind + "1",
              "min": lo, "max": round(lo + k * st, 6), "step": st}
        if kind == "nonbonded":
            it.update(type1="A", type2="A")
        else:
            it["kind"] = kind
        it["out_step"] = round(st * self.ch([1.0, 0.5, 0.25]), 6)
        grid = lo + st * np.arange(k + 1)
        grid[-1] = it["max"]
        it["grid"] = [float(g) for g in grid]
        it["last_interval_ratio"] = 1.0
        scale = {"nonbonded": 300.0, "bond": 2000.0, "angle": 80.0}[kind] * \
            r.uniform(0.2, 2)
        _, yk = make_function(r, grid, scale)
        it["knots"] = [float(v) for v in yk]
        c["interactions"] = [it]
        c["bonded_order"] = [] if kind == "nonbonded" else [it["name"]]
        nb_ = {"bond": 2, "angle": 3}.get(kind)
        c["tuples"] = {} if kind == "nonbonded" else {it["name"]: [list(range(nb_))]}
        m = 0.03 * st
        low_end = kind == "nonbonded" or r.rand() < 0.5
        if variant == "tail":
            if low_end:
                tail_rng, head_rng = (grid[0] + m, grid[ntail] - m), \
                    (grid[ntail] + m, grid[-1] - m)
                tail_iv = list(range(ntail))
            else:
                tail_rng, head_rng = (grid[k - ntail] + m, grid[-1] - m), \
                    (grid[0] + m, grid[k - ntail] - m)
                tail_iv = list(range(k - ntail, k))
        else:
            tail_rng = head_rng = (grid[0] + m, grid[-1] - m)
            tail_iv = []
        N = 3 * nbeads * fpb
        c["many"] = {"N": N, "N_mod_4096": N % 4096, "variant": variant,
                     "tail_only_intervals": tail_iv, "kind": kind,
                     "control": target if isinstance(target, str) else None,
                     "equations_carrying_tail_only_samples":
                         0 if variant != "tail" else
                         (3 * nbeads if kind == "angle" else 2 * nspecial)}
        c["noise"] = 0.0 if variant == "tail" else float(r.uniform(0.05, 0.4))
        frames = []
        for f in range(fpb):
            last = f == fpb - 1 and variant == "tail"
            if kind == "nonbonded":
                fr = self.many_nb_frame(nbeads, box, it, head_rng, tail_rng,
                                        nspecial if last else 0)
            else:
                fr = self.many_chain_frame(kind, nmol, box, head_rng, tail_rng,
                                           last, nspecial)
            if fr is None:
                return None
            frames.append(fr)
        c["frames_pos"] = frames
        return c

    def many_chain_frame(self, kind, nmol, box, head_rng, tail_rng, last, nspecial):
        r = self.r
        out = []
        for mi in range(nmol):
            p0 = r.uniform(0, 1, size=3) * box
            if kind == "bond":
                special = last and mi >= nmol - nspecial
                bl = r.uniform(*(tail_rng if special else head_rng))
                u = np.array([0.0, 0.0, 1.0 if r.rand() < 0.5 else -1.0]) \
                    if special else rand_unit(r)
                out += [p0, p0 + bl * u]
            else:
                th = r.uniform(*(tail_rng if last else head_rng))
                p1 = p0 + rand_unit(r) * r.uniform(0.12, 0.3)
                p2 = place_next(r, None, p0, p1, r.uniform(0.12, 0.3), th,
                                r.uniform(-3.1, 3.1))
                out += [p0, p1, p2]
        return np.array(out)

    def many_nb_frame(self, n, box, it, head_rng, tail_rng, nspecial):
        """all ordinary pairs at least head_rng[0] apart; the last 2*nspecial
        beads form pairs along z at a distance inside tail_rng"""
        r = self.r
        hard = head_rng[0]
        pos = np.zeros((n, 3))
        nord = n - 2 * nspecial

        def free(p, upto, skip=-1):
            if upto == 0:
                return True
            d = min_image(pos[:upto] - p, box)
            dd = np.sqrt((d * d).sum(axis=1))
            if skip >= 0:
                dd[skip] = 1e9
            return bool((dd >= hard).all())
        i = 0
        while i < n:
            for attempt in range(400):
                if i < nord:
                    if i % 2 == 1 and attempt < 200:
                        a = pos[r.randint(i)]
                        p = a + rand_unit(r) * r.uniform(hard, head_rng[1])
                    else:
                        p = r.uniform(0, 1, size=3) * box
                    if free(p, i):
                        pos[i] = p
                        i += 1
                        break
                else:
                    a = r.uniform(0, 1, size=3) * box
                    b = a + np.array([0, 0, r.uniform(*tail_rng) *
                                      (1 if r.rand() < 0.5 else -1)])
                    if free(a, i) and free(b, i):
                        pos[i], pos[i + 1] = a, b
                        i += 2
                        break
            else:
                return None
        return pos

    @staticmethod
    def excluded(c, i, j):
        for name, tl in c["tuples"].items():
            for t in tl:
                if i in t and j in t:
                    return True
        return False


def fm_topology_xml(c):
    out = ["<topology>", "  <molecules>"]
    types = bead_types(c)
    if c["family"] == "nonbonded" and c.get("cross"):
        # two molecule types of single beads: A (anchors) and B (partners)
        na = (c["nmol"] + 1) // 2
        out.append('    <molecule name="MA" nmols="%d" nbeads="1">' % na)
        out.append('      <bead name="a0" type="A" mass="1.0" q="0" />')
        out.append("    </molecule>")
        out.append('    <molecule name="MB" nmols="%d" nbeads="1">' % (c["nmol"] - na))
        out.append('      <bead name="a0" type="B" mass="1.0" q="0" />')
        out.append("    </molecule>")
    else:
        out.append('    <molecule name="M" nmols="%d" nbeads="%d">' %
                   (c["nmol"], c["chain"]))
        for b in range(c["chain"]):
            out.append('      <bead name="a%d" type="A" mass="1.0" q="0" />' % b)
        out.append("    </molecule>")
    out.append("  </molecules>")
    if c["tuples"] and not c["mapping"]:
        out += bonded_xml(c, "  ", lambda i: "M:a%d" % i, "bonded")
    out.append("</topology>")
    return "\n".join(out) + "\n"


def bonded_xml(c, ind, nm, tag):
    out = [ind + "<%s>" % tag]
    byname = {it["name"]: it for it in c["interactions"]}
    order = c.get("bonded_order") or [it["name"] for it in c["interactions"]
                                      if it["class"] == "bonded"]
    for nm_ in order:
        it = byname[nm_]
        out.append(ind + "  <%s>" % it["kind"])
        out.append(ind + "    <name>%s</name>" % it["name"])
        out.append(ind + "    <beads>")
        for t in c["tuples"][it["name"]]:
            out.append(ind + "      " + " ".join(nm(i) for i in t))
        out.append(ind + "    </beads>")
        out.append(ind + "  </%s>" % it["kind"])
    out.append(ind + "</%s>" % tag)
    return out


def fm_mapping_xml(c, molname, btype):
    """1:1 mapping (one atom per CG bead, weight 1)"""
    nb = c["chain"] if molname == "M" else 1
    out = ["<cg_molecule>", "  <name>%s</name>" % molname,
           "  <ident>%s</ident>" % molname, "  <topology>", "    <cg_beads>"]
    for b in range(nb):
        out += ["      <cg_bead>", "        <name>a%d</name>" % b,
                "        <type>%s</type>" % btype,
                "        <mapping>U</mapping>",
                "        <beads>1:%s:a%d</beads>" % (molname, b),
                "      </cg_bead>"]
    out.append("    </cg_beads>")
    if c["tuples"] and molname == "M":
        out += bonded_xml(c, "    ", lambda i: "a%d" % i, "cg_bonded")
    out += ["  </topology>", "  <maps>", "    <map>", "      <name>U</name>",
            "      <weights>1</weights>", "    </map>", "  </maps>",
            "</cg_molecule>"]
    return "\n".join(out) + "\n"


def bead_types(c):
    n = c["nmol"] * c["chain"]
    if c["family"] == "nonbonded" and c.get("cross"):
        na = (c["nmol"] + 1) // 2
        return np.array(["A"] * na + ["B"] * (c["nmol"] - na))
    return np.array(["A"] * n)


def frame_order(c, pos):
    """cross-type systems list all A molecules first: reorder the alternating
    anchor/partner placement accordingly"""
    if c["family"] == "nonbonded" and c.get("cross"):
        idx = list(range(0, len(pos), 2)) + list(range(1, len(pos), 2))
        return pos[idx]
    return pos


def fm_options_xml(c):
    out = ["<cg>", "  <fmatch>",
           "    <constrainedLS>%s</constrainedLS>" %
           ("true" if c["constrained"] else "false"),
           "    <frames_per_block>%d</frames_per_block>" %
           (c["fpb"] * (1 + c["nblocks"]) + 7 if c.get("too_few") else c["fpb"])] + \
        (["    <dist>%s</dist>" % c["dist_opt"]] if c.get("dist_opt") else []) + \
        ["  </fmatch>"]
    if c["nbsearch"]:
        out.append("  <nbsearch>%s</nbsearch>" % c["nbsearch"])
    for it in c["interactions"]:
        tag = "bonded" if it["class"] == "bonded" else "non-bonded"
        out.append("  <%s>" % tag)
        out.append("    <name>%s</name>" % it["name"])
        if it["class"] == "pair":
            out.append("    <type1>%s</type1>" % it["type1"])
            out.append("    <type2>%s</type2>" % it["type2"])
        out += ["    <fmatch>", "      <min>%s</min>" % dec(it["min"], 9),
                "      <max>%s</max>" % dec(it["max"], 9),
                "      <step>%s</step>" % dec(it["step"], 9),
                "      <out_step>%s</out_step>" % dec(it["out_step"], 9)] + \
            (["      <periodic>true</periodic>"] if it.get("periodic") else []) + \
            ["    </fmatch>", "  </%s>" % tag]
    out.append("</cg>")
    return "\n".join(out) + "\n"


NOBOX = np.array([1e9, 1e9, 1e9])


def fm_forces(c, box, pos, upos=None):
    """reference forces (kJ/mol/nm) from the generating functions, plus the
    sampled values per interaction (for the sampling rule) and the smallest
    distance of a non-bonded pair to the cutoff/core"""
    n = len(pos)
    F = np.zeros((n, 3))
    types = bead_types(c)
    chain = c["chain"]
    samples = {}
    info = {"below_min": 0, "near_cut": 1e9, "fd_worst": 0.0, "dih": 0,
            "dih_far": 0, "bond_max_over_half_edge": 0.0}
    molof = np.arange(n) // chain
    # bonded terms: from the unwrapped chains, without any image convention
    bpos, bbox = (pos, box) if upos is None else (upos, NOBOX)
    for it in c["interactions"]:
        f = func_of(it)
        vals = []
        if it["class"] == "pair":
            d = min_image(pos[None, :, :] - pos[:, None, :], box)  # r_j - r_i
            dist = np.sqrt((d * d).sum(axis=2))
            cand = np.argwhere(np.triu(dist < it["max"] + 0.05, 1))
            for i, j in cand:
                if True:
                    if it["type1"] != "*":
                        ti, tj = types[i], types[j]
                        if it["type1"] == it["type2"]:
                            if not (ti == it["type1"] and tj == it["type1"]):
                                continue
                        elif not ((ti == it["type1"] and tj == it["type2"]) or
                                  (ti == it["type2"] and tj == it["type1"])):
                            continue
                    if molof[i] == molof[j] and chain > 1 and \
                            FGen.excluded(c, i % chain, j % chain):
                        continue
                    rr = dist[i, j]
                    info["near_cut"] = min(info["near_cut"], abs(rr - it["max"]))
                    if rr >= it["max"]:
                        continue
                    if rr < it["min"]:
                        info["below_min"] += 1
                    g = float(f(rr))
                    u = d[i, j] / rr
                    F[i] += -g * u          # g * grad_i r
                    F[j] += g * u
                    vals.append(rr)
        else:
            for m in range(c["nmol"]):
                for t in c["tuples"][it["name"]]:
                    idx = [m * chain + k for k in t]
                    p = bpos[idx]
                    v = ic_value(it["kind"], p, bbox)
                    g = float(f(v))
                    G = ic_grad(it["kind"], p, bbox)
                    if upos is not None:
                        for a_ in range(len(p) - 1):
                            info["bond_max_over_half_edge"] = max(
                                info["bond_max_over_half_edge"], float(
                                    (np.abs(p[a_ + 1] - p[a_]) / (0.5 * box)).max()))
                        if it["kind"] == "dihedral":
                            info["dih"] += 1
                            if (np.abs(p[2] - p[0]) > 0.5 * box).any() or \
                                    (np.abs(p[3] - p[1]) > 0.5 * box).any():
                                info["dih_far"] += 1
                    for k, ii in enumerate(idx):
                        F[ii] += g * G[k]
                    vals.append(v)
                    if m == 0:
                        w, gm = fd_check(it["kind"], p, bbox)
                        info["fd_worst"] = max(info["fd_worst"], w / max(gm, 1.0))
        samples[it["name"]] = np.array(vals)
    return F, samples, info


def own_least_squares(c, box, parsed, unwrapped, forces):
    """independent solution of the force-matching problem: unknowns are the
    knot values of natural cubic splines (the same function space as the
    constrained (f, f'') parametrisation), design matrix from the basis
    splines and the oracle's own internal-coordinate gradients"""
    off, basis, ntot = {}, {}, 0
    for it in c["interactions"]:
        nk = len(it["grid"])
        off[it["name"]] = ntot
        basis[it["name"]] = [NaturalSpline(it["grid"], np.eye(nk)[k])
                             for k in range(nk)]
        ntot += nk
    nb = len(parsed[0])
    Phi = np.zeros((len(parsed) * nb * 3, ntot))
    rhs = np.concatenate([F.reshape(-1) for F in forces])
    chain = c["chain"]
    for f, pos in enumerate(parsed):
        base = f * nb * 3
        upos = unwrapped[f]
        bpos, bbox = (pos, box) if upos is None else (upos, NOBOX)
        for it in c["interactions"]:
            o = off[it["name"]]
            B = basis[it["name"]]
            if it["class"] == "pair":
                d = min_image(pos[None, :, :] - pos[:, None, :], box)
                dist = np.sqrt((d * d).sum(axis=2))
                for i, j in np.argwhere(np.triu(dist < it["max"], 1)):
                    if i // chain == j // chain and chain > 1 and \
                            FGen.excluded(c, i % chain, j % chain):
                        continue
                    phi = np.array([float(b(dist[i, j])) for b in B])
                    u = d[i, j] / dist[i, j]
                    for cc in range(3):
                        Phi[base + 3 * i + cc, o:o + len(B)] += -u[cc] * phi
                        Phi[base + 3 * j + cc, o:o + len(B)] += u[cc] * phi
            else:
                for m in range(c["nmol"]):
                    for t in c["tuples"][it["name"]]:
                        idx = [m * chain + k for k in t]
                        p = bpos[idx]
                        v = ic_value(it["kind"], p, bbox)
                        G = ic_grad(it["kind"], p, bbox)
                        phi = np.array([float(b(v)) for b in B])
                        for k, ii in enumerate(idx):
                            for cc in range(3):
                                Phi[base + 3 * ii + cc, o:o + len(B)] += G[k, cc] * phi
    y, res, rank, sv = np.linalg.lstsq(Phi, rhs, rcond=None)
    c["own_ls_cond"] = float(sv[0] / sv[-1])
    return {it["name"]: y[off[it["name"]]:off[it["name"]] + len(it["grid"])]
            for it in c["interactions"]}


def fm_dump(c, frames_pos, forces_kj, box, conv):
    d = c["decimals"]
    out = []
    for k, (pos, F) in enumerate(zip(frames_pos, forces_kj)):
        n = len(pos)
        out += ["ITEM: TIMESTEP", str(k), "ITEM: NUMBER OF ATOMS", str(n),
                "ITEM: BOX BOUNDS pp pp pp"]
        for b in box:
            out.append("0 %.3f" % (b * 10))
        out.append("ITEM: ATOMS id type x y z fx fy fz")
        for i in range(n):
            f = F[i] / conv
            out.append("%d 1 %s %s %s %r %r %r" % (
                i + 1, pos[i][0], pos[i][1], pos[i][2],
                float(f[0]), float(f[1]), float(f[2])))
    return "\n".join(out) + "\n"


def build_fmatch_case(c):
    """write coordinates with the chosen number of decimals, recompute the
    forces from the *written* coordinates, apply the sampling rule"""
    box = np.array(c["box"])
    d = c["decimals"]
    txtpos, parsed = [], []
    unwrapped = []
    for pos in c["frames_pos"]:
        pos = frame_order(c, pos)
        nimg = np.zeros_like(pos)
        if c.get("wrap"):
            # every bead individually into the cell; the image numbers are
            # kept so that the oracle works on the unwrapped chains
            nimg = np.floor(pos / box)
            pos = pos - nimg * box
        t = [["%.*f" % (d, v * 10) for v in p] for p in pos]
        txtpos.append(t)
        parsed.append(np.array([[float(v) * 0.1 for v in p] for p in t]))
        unwrapped.append(parsed[-1] + nimg * box if c.get("wrap") else None)
    forces, samples, infos = [], [], []
    for pos, upos in zip(parsed, unwrapped):
        F, s, info = fm_forces(c, box, pos, upos)
        forces.append(F)
        samples.append(s)
        infos.append(info)
    c["below_min"] = sum(i["below_min"] for i in infos)
    c["near_cut"] = min(i["near_cut"] for i in infos)
    c["fd_worst"] = max(i["fd_worst"] for i in infos)
    c["dih_total"] = sum(i["dih"] for i in infos)
    c["dih_far"] = sum(i["dih_far"] for i in infos)
    c["bond_max_over_half_edge"] = max(i["bond_max_over_half_edge"] for i in infos)
    # sampling rule, per complete block and spline interval
    fpb = c["fpb"]
    under = []
    cover = {}
    for it in c["interactions"]:
        g = np.array(it["grid"])
        worst = 10 ** 9
        for b in range(c["nblocks"]):
            v = np.concatenate([samples[f][it["name"]]
                                for f in range(b * fpb, (b + 1) * fpb)])
            for k in range(len(g) - 1):
                sel = v[(v >= g[k]) & (v < g[k + 1])]
                cnt = len(sel)
                spread = (sel.max() - sel.min()) if cnt else 0.0
                worst = min(worst, cnt)
                if cnt < MIN_SAMPLES or spread < 0.5 * (g[k + 1] - g[k]):
                    under.append((it["name"], b, k, cnt))
            if ((v < g[0]) | (v > g[-1])).any():
                under.append((it["name"], b, -1, int(((v < g[0]) | (v > g[-1])).sum())))
        cover[it["name"]] = worst
    c["undersampled"] = under
    c["min_samples_per_interval"] = cover
    c["forces_max"] = float(max(np.abs(F).max() for F in forces))
    jr = np.random.RandomState(c.get("junk_seed", 1))
    if c.get("many"):
        # the tail-only intervals must be sampled by the last frame only,
        # >= MIN_SAMPLES times each
        it = c["interactions"][0]
        g = np.array(it["grid"])
        for k in c["many"]["tail_only_intervals"]:
            for f in range(len(samples)):
                v = samples[f][it["name"]]
                cnt_ = int(((v >= g[k]) & (v < g[k + 1])).sum())
                if (f < len(samples) - 1 and cnt_ > 0) or \
                        (f == len(samples) - 1 and cnt_ < MIN_SAMPLES):
                    under.append((it["name"], 0, k, cnt_))
        c["undersampled"] = under
    if c.get("noise"):
        # noisy reference forces; expected = minimiser of |Phi y - F| over the
        # natural-spline space (own design matrix from the basis splines)
        sig = c["noise"] * c["forces_max"]
        forces = [F + jr.standard_normal(F.shape) * sig for F in forces]
        c["true_knots"] = {it["name"]: it["knots"] for it in c["interactions"]}
        ls_knots = own_least_squares(c, box, parsed, unwrapped, forces)
        for it in c["interactions"]:
            it["knots"] = [float(v) for v in ls_knots[it["name"]]]
    nj = c.get("junk_before", 0) + c.get("junk_after", 0)
    if nj:
        # the last nj generated frames are junk: random forces, placed before
        # and after the frames selected by --first-frame / --nframes
        nuse = len(txtpos) - nj
        for k in range(nuse, len(txtpos)):
            forces[k] = jr.standard_normal(forces[k].shape) * c["forces_max"]
        order = list(range(nuse, nuse + c["junk_before"])) + \
            list(range(nuse)) + list(range(nuse + c["junk_before"], len(txtpos)))
        txtpos = [txtpos[k] for k in order]
        forces = [forces[k] for k in order]
    c["trj_force_text"] = None
    if c.get("trj_force"):
        known = [np.round(jr.standard_normal(F.shape) * 0.3 * c["forces_max"], 3)
                 for F in forces]
        c["trj_force_text"] = fm_dump(c, txtpos, known, box, KCAL_IT * 10.0)
        forces = [F + K for F, K in zip(forces, known)]
    c["trj_text"] = fm_dump(c, txtpos, forces, box, KCAL_IT * 10.0)
    return c


def fm_files(c):
    files = {"topol.xml": fm_topology_xml(c), "settings.xml": fm_options_xml(c),
             "traj.dump": c["trj_text"]}
    if c.get("trj_force_text"):
        files["known.dump"] = c["trj_force_text"]
    if c["mapping"]:
        if c["family"] == "nonbonded" and c.get("cross"):
            files["map_MA.xml"] = fm_mapping_xml(c, "MA", "A")
            files["map_MB.xml"] = fm_mapping_xml(c, "MB", "B")
        else:
            files["map_M.xml"] = fm_mapping_xml(c, "M", "A")
    return files


def fm_command(c, exe):
    cmd = [exe, "--top", "topol.xml", "--trj", "traj.dump", "--options",
           "settings.xml"]
    if c["mapping"]:
        maps = "map_MA.xml;map_MB.xml" if (c["family"] == "nonbonded" and
                                           c.get("cross")) else "map_M.xml"
        cmd += ["--cg", maps]
    else:
        cmd.append("--no-map")
    if c.get("trj_force_text"):
        cmd += ["--trj-force", "known.dump"]
    if c.get("junk_before", 0) or c.get("junk_after", 0):
        cmd += ["--first-frame", str(c["junk_before"] + 1), "--nframes",
                str(c["fpb"] * c["nblocks"])]
    return cmd


def read_table(path):
    xs, ys = [], []
    for ln in open(path):
        f = ln.split("#")[0].split()
        if len(f) >= 2:
            xs.append(float(f[0]))
            ys.append(float(f[1]))
    return np.array(xs), np.array(ys)


def judge_fmatch(c, wd):
    """-> list of (key, what, detail), dict of table errors"""
    fails, errs = [], {}
    fam = c["family"]
    if c.get("sub"):
        fam = "%s/%s" % (fam, c["sub"])
    ls = "constrained" if c["constrained"] else "plain"
    got = {}
    for it in c["interactions"]:
        fn = os.path.join(wd, it["name"] + ".force")
        if not os.path.exists(fn):
            fails.append(("fmatch/%s/file-missing" % fam, "no .force table "
                          "written", {"file": it["name"] + ".force"}))
            continue
        got[it["name"]] = read_table(fn)
    if fails:
        return fails, errs
    for it in c["interactions"]:
        x, y = got[it["name"]]
        if not (np.isfinite(x).all() and np.isfinite(y).all()) or len(x) == 0:
            fails.append(("fmatch/%s/%s-ls/non-finite-output" % (fam, ls),
                          "force table contains nan/inf or is empty",
                          {"interaction": it["name"],
                           "y": [str(v) for v in y[:6]]}))
    if fails:
        return fails, errs
    # the dump reader's calorie is not judged here (C20): one common factor
    # between the thermochemical (4.184) and the IT calorie (4.1868) is
    # fitted for the whole case and must lie in that band
    num = den = 0.0
    for it in c["interactions"]:
        x, y = got[it["name"]]
        e = func_of(it)(x)
        num += float(np.dot(y, e))
        den += float(np.dot(e, e))
    scale = num / den if den > 0 else 1.0
    lo, hi = KCAL_TH / KCAL_IT - 1e-6, 1.0 + 1e-6
    errs["unit_factor"] = scale
    bad = []
    if not (lo <= scale <= hi):
        # a genuine common factor (sign, factor 2, ...) reproduces every
        # table after rescaling; otherwise judge the tables as they are
        common = True
        for it in c["interactions"]:
            x, y = got[it["name"]]
            e = func_of(it)(x) * scale
            ref = max(float(np.abs(np.array(it["knots"])).max()) * abs(scale),
                      1e-3 * c["forces_max"])
            if (np.abs(y - e) > 1e-5 * ref + 1.1 * print_tol(e, 10)).any():
                common = False
        if common:
            return [("fmatch/%s/%s-ls/overall-factor" % (fam, ls),
                     "force tables are off by a common factor (sign / factor "
                     "of the row assembly or of the output)",
                     {"fitted_common_factor": scale,
                      "accepted_band": [lo, hi]})], errs
        scale = 1.0
    for it in c["interactions"]:
        x, y = got[it["name"]]
        f = func_of(it)
        exp = f(x) * scale
        ref = float(np.abs(np.array(it["knots"])).max()) * scale
        ref = max(ref, 1e-3 * c["forces_max"])
        tol = 1e-5 * ref + 1.1 * print_tol(exp, 10)
        err = np.abs(y - exp)
        k = int(np.argmax(err - tol))
        errs[it["name"]] = float((err / ref).max())
        nexp = int(math.floor((it["max"] - it["min"]) / it["out_step"] + 1e-6)) + 1
        gx = it["min"] + it["out_step"] * np.arange(len(x))
        if len(x) not in (nexp, nexp - 1) or \
                np.abs(x - gx).max() > 1e-9 * (1 + abs(it["max"])):
            bad.append((it["name"], "grid", {"points": len(x),
                                             "expected_points": nexp,
                                             "x": x.tolist()[:5]}))
        if (err > tol).any():
            bad.append((it["name"], "table", {
                "interaction": it["name"], "kind": it.get("kind", "pair"),
                "x": float(x[k]), "got": float(y[k]),
                "expected": float(exp[k]), "tolerance": float(tol[k]),
                "max_rel_err": float((err / ref).max()),
                "n_bad": int((err > tol).sum()), "n": len(x),
                "fitted_unit_factor": scale}))
    best = (bad, 0.0)
    for (name, what, det) in best[0]:
        if what == "grid":
            fails.append(("fmatch/%s/output-grid" % fam,
                          "output grid is not min + i*out_step", det))

        else:
            kfam = fam
            if fam == "mixed-order":
                # interaction kind and its position in the options file
                pos = [i["name"] for i in c["interactions"]].index(name)
                it_ = c["interactions"][pos]
                kfam = "mixed-order/%s%s-%s" % (
                    it_.get("kind", "pair"),
                    "-periodic" if it_.get("periodic") else "",
                    "first" if pos == 0 else "later")
            fails.append(("fmatch/%s/%s-ls/table-mismatch" % (kfam, ls),
                          "fitted force table differs from the generating "
                          "force function (inside the spline space, every "
                          "interval sampled >= %d times per block)" % MIN_SAMPLES,
                          det))
    return fails, errs


def run_exe(cmd, wd, timeout=900):
    try:
        p = subprocess.run(cmd, cwd=wd, stdout=subprocess.PIPE,
                           stderr=subprocess.PIPE, timeout=timeout)
        return p.returncode, p.stdout.decode("utf-8", "replace"), \
            p.stderr.decode("utf-8", "replace"), False
    except subprocess.TimeoutExpired as e:
        return -9, "", (e.stderr or b"").decode("utf-8", "replace"), True


def fm_witness(c, files, cmd):
    w = {k: c[k] for k in ("family", "constrained", "nblocks", "replicate",
                           "fpb", "extra_frames", "nbsearch", "mapping", "box",
                           "chain", "nmol", "tuples", "min_samples_per_interval",
                           "cseed")}
    for k in ("trj_force", "junk_before", "junk_after", "too_few",
              "bonded_order", "dist_opt", "sub", "wrap", "many", "noise",
              "true_knots", "own_ls_cond"):
        w[k] = c.get(k)
    w["interactions"] = c["interactions"]
    w["cmd"] = " ".join(["csg_fmatch"] + cmd[1:])
    w["files"] = files
    return w


def fmatch_worker(a):
    seed, shard, n = int(a["seed"]), int(a["shard"]), int(a["n"])
    exe, scratch = a["exe"], a["scratch"]
    evals, fams, counters, samples, distinct = 0, {}, {}, [], set()
    vcount = {}
    many_list = []

    def cnt(k, v=1):
        counters[k] = counters.get(k, 0) + v
    for ci in range(n):
        family = FAMILIES[(ci + shard) % len(FAMILIES)]
        cseed = (seed * 1000003 + shard * 7919 + ci * 104729 + 606) % (2 ** 32)
        g = FGen(cseed)
        c = None
        many = None
        if ci % 14 == 0:
            # blocks with more than 4096 equations: one case in 14, the
            # target sizes and variants in turn over shards and cases
            family = "many-equations"
            mi_ = shard + 16 * (ci // 14)
            many = (MANY_TARGETS[mi_ % len(MANY_TARGETS)],
                    "noisy" if mi_ % 3 == 2 else "tail")
            if isinstance(many[0], tuple):
                many = (int(g.r.randint(many[0][0], many[0][1] + 1)), many[1])
        for attempt in range(6):
            c = g.make_many(*many) if many else g.make(family)
            if c is None:
                cnt("generator_retries")
                continue
            c = build_fmatch_case(c)
            if c["undersampled"] or c["below_min"] or c["near_cut"] < 1e-7 \
                    or c["bond_max_over_half_edge"] > 0.98:
                cnt("generator_retries")
                last = c
                c = None
                continue
            break
        if c is None:
            cnt("skipped_inconclusive_undersampled")
            cnt("skipped_inconclusive_undersampled/" + family)
            continue
        if c["fd_worst"] > 1e-5:
            emit({"t": "inconclusive", "what": "oracle self-check failed: "
                  "internal-coordinate gradient differs from finite "
                  "differences (%g), case seed %d" % (c["fd_worst"], cseed)})
            continue
        cnt("gradients_validated_by_finite_differences")
        c["cseed"] = cseed
        # frames_per_block larger than the trajectory: documented error exit
        c["too_few"] = bool(g.r.rand() < 0.04) and not many
        wd = os.path.join(scratch, "f%d_%d" % (shard, ci))
        os.makedirs(wd, exist_ok=True)
        files = fm_files(c)
        for nme, t in files.items():
            open(os.path.join(wd, nme), "w").write(t)
        cmd = fm_command(c, exe)
        rc, out, err, to = run_exe(cmd, wd)
        cnt("csg_fmatch_runs")
        if c["too_few"] and not to:
            import vfcore
            fam = "fmatch/too-few-frames/" + \
                ("constrained" if c["constrained"] else "plain")
            if rc != 0 and vfcore.sanitizer_key(err) is None and \
                    "No blocks have been" in err:
                fams[fam] = fams.get(fam, 0) + 1
                evals += 1
            elif rc == 0:
                fams[fam] = fams.get(fam, 0) + 1
                evals += 1
                emit({"t": "violation", "key": "fmatch/too-few-frames/no-error",
                      "what": "frames_per_block exceeds the trajectory but "
                      "csg_fmatch reports success",
                      "witness": fm_witness(c, files, cmd)})
            else:
                emit({"t": "abnormal", "what": "csg_fmatch (too few frames) "
                      "case seed %d" % cseed, "rc": rc, "timed_out": to,
                      "err": err[-6000:], "witness": fm_witness(c, files, cmd)})
            shutil.rmtree(wd, ignore_errors=True)
            continue
        if c["trj_force"]:
            cnt("cases_trj_force")
        if c["junk_before"] or c["junk_after"]:
            cnt("cases_first_frame_nframes")
        if c.get("wrap"):
            cnt("cases_coordinates_wrapped")
        if family == "many-equations":
            mm = c["many"]
            N_ = mm["N"]
            cnt("many_eq/variant_" + mm["variant"])
            cnt("many_eq/kind_" + mm["kind"])
            cnt("many_eq/" + ("N_le_4096_control" if N_ <= 4096 else
                              "N_multiple_of_4096_control" if N_ % 4096 == 0 else
                              "N_4097_to_4200" if N_ <= 4200 else
                              "N_4201_to_8192" if N_ <= 8192 else "N_gt_8192"))
            cnt("many_eq/equations_total", N_)
            cnt("many_eq/equations_beyond_last_multiple_of_4096",
                N_ % 4096 if N_ > 4096 else 0)
            cnt("many_eq/equations_carrying_tail_only_samples",
                mm["equations_carrying_tail_only_samples"])
            many_list.append("N=%d mod=%d %s %s %s tail_eq=%d" % (
                N_, N_ % 4096 if N_ > 4096 else 0, mm["kind"], mm["variant"],
                "constrained" if c["constrained"] else "plain",
                mm["equations_carrying_tail_only_samples"]))
        if family == "irregular-grid":
            for it in c["interactions"]:
                kd = "nonbonded" if it["class"] == "pair" else \
                    ("periodic-" if it.get("periodic") else "") + it["kind"]
                ratio = it["last_interval_ratio"]
                cnt("irregular_grid/%s/%s" % (
                    kd, "dividing" if abs(ratio - 1) < 1e-6 else "non-dividing"))
                if ratio >= 1.5:
                    cnt("irregular_grid/last_interval_ratio_ge_1.5")
                elif ratio > 1 + 1e-6:
                    cnt("irregular_grid/last_interval_ratio_1_to_1.5")
                if len(it["grid"]) > 40:
                    cnt("irregular_grid/grids_with_more_than_40_nodes")
        if family == "small-box":
            cnt("small_box/dihedrals", c["dih_total"])
            cnt("small_box/dihedrals_r13_or_r24_beyond_half_edge", c["dih_far"])
            cnt("small_box/cases_with_nonbonded",
                int(any(it["class"] == "pair" for it in c["interactions"])))
        if family == "mixed-order":
            bonded = [it for it in c["interactions"] if it["class"] == "bonded"]
            nper = sum(1 for it in bonded if it.get("periodic"))
            cnt("mixed_order/periodic_dihedrals_%d" % nper)
            cnt("mixed_order/interactions_%d" % len(c["interactions"]))
            if any(it.get("periodic") for it in bonded[1:]):
                cnt("mixed_order/periodic_not_first_bonded")
            if any(it.get("periodic") for it in c["interactions"][1:]):
                cnt("mixed_order/periodic_not_first_in_file")
        if to or rc != 0:
            emit({"t": "abnormal", "what": "csg_fmatch case seed %d" % cseed,
                  "rc": rc, "timed_out": to, "err": err[-6000:],
                  "witness": fm_witness(c, files, cmd)})
            shutil.rmtree(wd, ignore_errors=True)
            continue
        try:
            fails, errs = judge_fmatch(c, wd)
        except Exception as e:
            import traceback
            emit({"t": "inconclusive", "what": "fmatch oracle failed on case "
                  "seed %d: %s" % (cseed, traceback.format_exc()[-600:])})
            shutil.rmtree(wd, ignore_errors=True)
            continue
        fam = "fmatch/%s/%s/%dblock%s" % (
            family + ("/" + c["sub"] if c.get("sub") else ""),
            "constrained" if c["constrained"] else "plain",
            c["nblocks"], "-replicated" if c["replicate"] else "")
        fams[fam] = fams.get(fam, 0) + 1
        evals += 1
        cnt("tables_compared", len(c["interactions"]))
        distinct.add(hashlib.sha1(c["trj_text"].encode()).hexdigest())
        tab_errs = [v for n_, v in errs.items() if n_ != "unit_factor"]
        if tab_errs:
            k = "max_rel_err_e12/" + family
            counters[k] = max(counters.get(k, 0),
                              int(min(max(tab_errs), 1e6) * 1e12))
        for (key, what, det) in fails:
            vcount[key] = vcount.get(key, 0) + 1
            cnt("violations_" + key)
            if vcount[key] <= 2:
                emit({"t": "violation", "key": key, "what": what,
                      "witness": dict(fm_witness(c, files, cmd), detail=det)})
        if len(samples) < 2 and not fails:
            it = c["interactions"][0]
            x, y = read_table(os.path.join(wd, it["name"] + ".force"))
            f = func_of(it)
            samples.append({"cmd": " ".join(["csg_fmatch"] + cmd[1:]),
                            "family": fam, "seed": cseed,
                            "interaction": {k: it[k] for k in it if k != "grid"},
                            "x": float(x[len(x) // 2]),
                            "observed": float(y[len(x) // 2]),
                            "expected": float(f(x[len(x) // 2]))})
        shutil.rmtree(wd, ignore_errors=True)
    # max-type counters must not be summed over shards: report as strings
    if many_list:
        counters["many_eq/cases/shard%d" % shard] = "; ".join(many_list[:40])
    for k in list(counters):
        if k.startswith("max_rel_err_e12/"):
            counters[k.replace("_e12", "") + "/shard%d" % shard] = \
                "%.3g" % (counters.pop(k) * 1e-12)
    emit({"t": "summary", "evaluations": evals,
          "distinct_nontrivial": len(distinct), "families": fams,
          "counters": counters, "samples": samples})


# ----------------------------------------------------------------------------
# csg_imc_solve
# ----------------------------------------------------------------------------

# spellings of the ranges in the index file (RangeParser strips blanks; tabs
# are not blanks for it and imcio_read_index needs a blank after the name, so
# tabs are not generated)
IDX_SPELLINGS = ["plain", "multi-block", "strided", "blanks-after-commas",
                 "blanks-around-colons", "several-blanks-after-name",
                 "trailing-blanks", "strided-blanks-around-colons",
                 "descending-stride"]


def expand_range(text):
    """rows named by a range string: blocks a | a:b | a:s:b separated by
    commas, blanks anywhere (independent of tools::RangeParser)"""
    rows = []
    for bl in text.replace(" ", "").split(","):
        t = [int(v) for v in bl.split(":")]
        if len(t) == 1:
            rows.append(t[0])
        else:
            a, st, b = (t[0], 1, t[1]) if len(t) == 2 else t
            v = a
            while (v <= b) if st > 0 else (v >= b):
                rows.append(v)
                v += st
    return rows


def idx_sets(r, n, spelling):
    """-> list of (name, range text); the expanded row sets partition 1..n"""
    comma = ", " if spelling == "blanks-after-commas" else ","
    colon = " : " if "around-colons" in spelling else ":"
    gap = "     " if spelling == "several-blanks-after-name" else " "
    trail = "   " if spelling == "trailing-blanks" else ""
    if spelling in ("blanks-after-commas", "trailing-blanks",
                    "several-blanks-after-name"):
        base = "multi-block" if r.rand() < 0.7 else "strided"
    elif spelling == "blanks-around-colons":
        base = "multi-block" if r.rand() < 0.5 else "plain"
    elif spelling == "strided-blanks-around-colons":
        base = "strided"
    else:
        base = spelling
    sets = []
    if base == "plain":
        nint = min(int(r.randint(1, 4)), n)
        cuts = sorted(r.choice(np.arange(1, n), size=nint - 1, replace=False)) \
            if nint > 1 else []
        bd = [0] + [int(c) for c in cuts] + [n]
        for k in range(nint):
            sets.append(["%d%s%d" % (bd[k] + 1, colon, bd[k + 1])])
    elif base == "multi-block":
        nch = int(r.randint(3, 6))
        cuts = sorted(r.choice(np.arange(1, n), size=nch - 1, replace=False))
        bd = [0] + [int(c) for c in cuts] + [n]
        nint = 2
        sets = [[] for _ in range(nint)]
        for k in range(nch):
            a, b = bd[k] + 1, bd[k + 1]
            sets[k % nint].append("%d" % a if a == b and r.rand() < 0.5
                                  else "%d%s%d" % (a, colon, b))
    else:   # strided / descending-stride
        st = int(r.randint(2, 4))
        for k in range(st):
            a = k + 1
            b = a + ((n - a) // st) * st
            if base == "descending-stride" and k == 0:
                sets.append(["%d%s%d%s%d" % (b, colon, -st, colon, a)])
            else:
                sets.append(["%d%s%d%s%d" % (a, colon, st, colon, b)])
    out = []
    for k, blocks in enumerate(sets):
        out.append(("I%d-X" % k, gap, comma.join(blocks) + trail))
    order = list(range(len(out)))
    r.shuffle(order)
    return [out[k] for k in order]


def imc_case(r, spelling="plain"):
    n = int(r.randint(2, 41))
    if spelling != "plain":
        n = int(r.randint(8, 41))
    kind = r.rand()
    scale = 10 ** r.uniform(-2, 3)
    if kind < 0.4:
        sym = True
        Q, _ = np.linalg.qr(r.standard_normal((n, n)))
        ev = r.uniform(-1, 1, size=n) * 10 ** r.uniform(-3, 0, size=n)
        A = (Q * ev) @ Q.T
        A = 0.5 * (A + A.T)
    else:
        sym = False
        A = r.standard_normal((n, n))
        if r.rand() < 0.4:      # strongly non-normal: triangular-ish / banded
            A = np.triu(A) + 0.05 * np.tril(A, -1)
        if r.rand() < 0.3:
            U, _ = np.linalg.qr(r.standard_normal((n, n)))
            V, _ = np.linalg.qr(r.standard_normal((n, n)))
            sv = 10 ** r.uniform(-4, 0, size=n)
            A = (U * sv) @ V.T
    A *= scale
    b = r.standard_normal(n) * 10 ** r.uniform(-2, 2)
    # r > 0, chosen relative to ||A||^2 so that the problem is well posed
    s = np.linalg.svd(A, compute_uv=False)
    reg = float(s[0] ** 2 * 10 ** r.uniform(-6, 1))
    noreg = False
    if r.rand() < 0.1:
        # -r omitted (default 0): only with a well-conditioned A
        U, _ = np.linalg.qr(r.standard_normal((n, n)))
        V, _ = np.linalg.qr(r.standard_normal((n, n)))
        A = ((U * 10 ** r.uniform(-1.5, 0, size=n)) @ V.T) * scale
        sym, reg, noreg = False, 0.0, True
    digits = int(r.randint(6, 12))
    idx = idx_sets(r, n, spelling)
    names = [t[0] for t in idx]
    sets = [(t[0], expand_range(t[2])) for t in idx]
    x = np.round(0.1 + 0.01 * np.arange(n), 6)    # every row identifiable
    return {"n": n, "sym": sym, "A": A, "b": b, "reg": reg, "digits": digits,
            "noreg": noreg,
            "idx": idx, "sets": sets, "names": names, "spelling": spelling,
            "x": x}


def imc_files(c):
    d = c["digits"]
    gmc = "".join(" ".join("%.*g" % (d, v) for v in row) + " \n" for row in c["A"])
    imc = "".join("%.10g %.*g\n" % (xx, d, v) for xx, v in zip(c["x"], c["b"]))
    idx = "".join("%s%s%s\n" % t for t in c["idx"])
    regtxt = "0" if c.get("noreg") else "%.*g" % (d, c["reg"])
    return {"in.gmc": gmc, "in.imc": imc, "in.idx": idx}, regtxt


def judge_imc(c, files, regtxt, wd):
    fails = []
    A = np.array([[float(v) for v in ln.split()] for ln in
                  files["in.gmc"].split("\n") if ln.strip()])
    b = np.array([float(ln.split()[1]) for ln in files["in.imc"].split("\n")
                  if ln.strip()])
    xin = np.array([float(ln.split()[0]) for ln in files["in.imc"].split("\n")
                    if ln.strip()])
    reg = float(regtxt)
    n = c["n"]
    M = A.T @ A + reg * np.eye(n)
    rhs = -A.T @ b
    xs = np.zeros(n)
    seen = np.zeros(n, dtype=bool)
    fam = "symmetric-A" if c["sym"] else "nonsymmetric-A"
    if c.get("noreg"):
        fam = "r-omitted"
    xref = np.linalg.solve(M, rhs)
    vtol = 1e-7 * (np.abs(xref).max() + 1e-300) * max(1.0, np.linalg.cond(M) * 1e-6)
    for name, rows in c["sets"]:
        fn = os.path.join(wd, name + ".dpot.imc")
        ix = np.array(rows, dtype=int) - 1      # rows named by the index set
        if not os.path.exists(fn):
            fails.append(("imc_solve/%s/file-missing" % fam,
                          "table named in the index file was not written",
                          {"file": name + ".dpot.imc"}))
            continue
        gx, gy = read_table(fn)
        det = {"file": name + ".dpot.imc", "spelling": c.get("spelling"),
               "index_line": [t for t in c.get("idx", []) if t[0] == name],
               "rows_named": rows[:12], "rows_expected": len(rows),
               "rows_got": len(gx), "got_r": gx.tolist()[:8],
               "expected_r": xin[ix].tolist()[:8]}
        if len(gx) != len(ix):
            fails.append(("imc_solve/index-spelling/row-count",
                          "per-interaction table does not have one row per "
                          "member of the index set", det))
            continue
        if np.abs(gx - xin[ix]).max() > 1e-9 * (1 + np.abs(xin).max()) or \
                np.abs(gy - xref[ix]).max() > vtol + 1.1 * print_tol(xref[ix], 10).max():
            det["got_y"] = gy.tolist()[:8]
            det["expected_y"] = xref[ix].tolist()[:8]
            fails.append(("imc_solve/index-spelling/values",
                          "rows of the per-interaction table are not the rows "
                          "the index set names (r column / solution values)",
                          det))
            continue
        xs[ix] = gy
        seen[ix] = True
    if fails or not seen.all():
        return fails, None
    res = M @ xs - rhs
    normM = np.linalg.norm(M, 2)
    scale = normM * np.linalg.norm(xs) + np.linalg.norm(rhs)
    # printed precision of x (10 significant digits) propagates through M
    tol = 1e-8 * scale + normM * np.linalg.norm(1.1 * print_tol(xs, 10))
    rel = float(np.linalg.norm(res) / max(scale, 1e-300))
    if not np.linalg.norm(res) <= tol:
        # which equation does the output solve instead? (diagnosis only)
        alt = {}
        for nm, (M2, r2) in {
                "A read transposed: (A A^T + rI) x = -A b":
                    (A @ A.T + reg * np.eye(n), -A @ b),
                "sign of r flipped": (A.T @ A - reg * np.eye(n), rhs),
                "sign of rhs flipped": (M, -rhs)}.items():
            alt[nm] = float(np.linalg.norm(M2 @ xs - r2) /
                            (np.linalg.norm(M2, 2) * np.linalg.norm(xs) +
                             np.linalg.norm(r2) + 1e-300))
        tname = "A read transposed: (A A^T + rI) x = -A b"
        sub, what = "normal-equations-residual", \
            "(A^T A + r I) x + A^T b is not ~0 for the written x"
        if alt[tname] <= 10 * float(tol / scale):
            # own structural key: the output is the exact solution for the
            # transposed matrix (matrix file read column-major)
            sub = "solves-transposed-system"
            what += "; x solves (A A^T + r I) x = -A b instead"
        fails.append(("imc_solve/%s/%s" % (fam, sub), what,
                      {"n": n, "r": regtxt, "residual_rel": rel,
                       "tolerance_rel": float(tol / scale),
                       "x_got": xs.tolist()[:6], "x_numpy": xref.tolist()[:6],
                       "cond": float(np.linalg.cond(M)),
                       "residual_rel_of_alternative_equations": alt}))
    return fails, rel


def imc_worker(a):
    seed, shard, n = int(a["seed"]), int(a["shard"]), int(a["n"])
    exe, scratch = a["exe"], a["scratch"]
    evals, fams, counters, samples, distinct = 0, {}, {}, [], set()
    vcount = {}
    r = np.random.RandomState((seed * 1000003 + shard * 7919 + 4242) % 2 ** 32)

    def cnt(k, v=1):
        counters[k] = counters.get(k, 0) + v
    worst = {}
    for ci in range(n):
        spelling = IDX_SPELLINGS[(shard + ci) % len(IDX_SPELLINGS)]
        c = imc_case(r, spelling)
        cnt("imc_index_spelling/" + spelling)
        files, regtxt = imc_files(c)
        wd = os.path.join(scratch, "i%d_%d" % (shard, ci))
        os.makedirs(wd, exist_ok=True)
        for nme, t in files.items():
            open(os.path.join(wd, nme), "w").write(t)
        cmd = [exe, "-i", "in.imc", "-g", "in.gmc", "-n", "in.idx"]
        if not c["noreg"]:
            cmd += ["-r", regtxt]
        rc, out, err, to = run_exe(cmd, wd, 300)
        wit = {"cmd": " ".join(["csg_imc_solve"] + cmd[1:]), "files": files,
               "n": c["n"], "symmetric": c["sym"], "r": regtxt,
               "index_spelling": c["spelling"]}
        if to or rc != 0:
            emit({"t": "abnormal", "what": "csg_imc_solve n=%d" % c["n"],
                  "rc": rc, "timed_out": to, "err": err[-6000:], "witness": wit})
            shutil.rmtree(wd, ignore_errors=True)
            continue
        try:
            fails, rel = judge_imc(c, files, regtxt, wd)
        except Exception as e:
            import traceback
            emit({"t": "violation", "key": "imc_solve/output-unreadable",
                  "what": "output tables could not be read/compared: %s" %
                  traceback.format_exc()[-600:], "witness": wit})
            shutil.rmtree(wd, ignore_errors=True)
            continue
        fam = "imc_solve/%s/%d-interactions" % (
            "symmetric-A" if c["sym"] else "nonsymmetric-A", len(c["names"]))
        if c["noreg"]:
            fam = "imc_solve/r-omitted/%d-interactions" % len(c["names"])
        fams[fam] = fams.get(fam, 0) + 1
        evals += 1
        if c["n"] >= 2:
            distinct.add(hashlib.sha1(files["in.gmc"].encode()).hexdigest())
        if "pseudo inverse" in out:
            cnt("pseudo_inverse_message_seen")
        if rel is not None:
            k = "sym" if c["sym"] else "nonsym"
            worst[k] = max(worst.get(k, 0.0), rel)
        for (key, what, det) in fails:
            vcount[key] = vcount.get(key, 0) + 1
            cnt("violations_" + key)
            if vcount[key] <= 2:
                emit({"t": "violation", "key": key, "what": what,
                      "witness": dict(wit, detail=det)})
        if len(samples) < 1 and not fails:
            samples.append({"cmd": wit["cmd"], "n": c["n"], "symmetric": c["sym"],
                            "observed_residual_rel": rel})
        shutil.rmtree(wd, ignore_errors=True)
    for k, v in worst.items():
        counters["imc_max_residual_rel/%s/shard%d" % (k, shard)] = "%.3g" % v
    emit({"t": "summary", "evaluations": evals,
          "distinct_nontrivial": len(distinct), "families": fams,
          "counters": counters, "samples": samples})


# ----------------------------------------------------------------------------

def replay(path, a):
    w = json.load(open(path))["witness"]
    if "files" not in w and "case" in w:      # sanitizer / crash witness
        w = w["case"]
    if "files" not in w:
        print("library-level witness (qrsolve): the matrices A, b, B are in "
              "the witness file; re-run harness c06 with the recorded seed")
        return 2
    wd = os.path.join(a["scratch"], "replay")
    shutil.rmtree(wd, ignore_errors=True)
    os.makedirs(wd)
    for nme, t in w["files"].items():
        open(os.path.join(wd, nme), "w").write(t)
    args = w["cmd"].split()[1:]
    if w["cmd"].startswith("csg_fmatch"):
        rc, out, err, to = run_exe([a["fmatch"]] + args, wd)
        print("csg_fmatch rc=%s" % rc)
        c = dict(w)
        c["forces_max"] = 0.0
        fails, errs = judge_fmatch(c, wd) if rc == 0 else ([("crash", err[-2000:], {})], {})
    else:
        rc, out, err, to = run_exe([a["imc"]] + args, wd)
        print("csg_imc_solve rc=%s" % rc)
        sets = []
        for ln in w["files"]["in.idx"].split("\n"):
            if ln.strip():
                nm_, rest = ln.strip().split(" ", 1)
                sets.append((nm_, expand_range(rest)))
        c = {"n": w["n"], "sym": w["symmetric"], "sets": sets,
             "names": [t[0] for t in sets], "noreg": "-r" not in args}
        fails, rel = judge_imc(c, w["files"], w["r"], wd) if rc == 0 else \
            ([("crash", err[-2000:], {})], None)
        print("residual_rel", rel)
    for (key, what, det) in fails:
        print("VIOLATION", key, what, json.dumps(det))
    shutil.rmtree(wd, ignore_errors=True)
    return 1 if fails else 0


def parse_args(argv):
    a, pos, i = {}, [], 0
    while i < len(argv):
        if argv[i].startswith("--"):
            a[argv[i][2:]] = argv[i + 1]
            i += 2
        else:
            pos.append(argv[i])
            i += 1
    return a, pos


if __name__ == "__main__":
    a, pos = parse_args(sys.argv[2:])
    if sys.argv[1] == "fmatch":
        fmatch_worker(a)
    elif sys.argv[1] == "imc":
        imc_worker(a)
    elif sys.argv[1] == "replay":
        sys.exit(replay(pos[0], a))
