#!/usr/bin/env python3
"""Regenerates /verif/MANIFEST.json from the table below (kept valid at all
times; run after adding a check)."""
import json
import os
import subprocess

VERIF = os.path.dirname(os.path.dirname(os.path.abspath(__file__)))
ALL = ["C%02d" % i for i in range(1, 21)]

# id -> (category, technique, level text, level note, design ref)
CHECKS = {
 "C02": ("exploration",
         "runtime monitoring: reference-model oracle (long-double brute-force image search) + metamorphic monitors over generated inputs, real library under ASan/UBSan",
         "Real Topology/BoundaryCondition code is executed on ~2e6 (quick) generated box/point-pair cases per run; every result is judged by an independent long-double brute-force minimum-image oracle plus lattice-congruence, antisymmetry and lattice-shift-invariance monitors, with sanitizers watching each execution. Held-on-observed, not a proof.",
         "Trusted: the brute-force oracle (125 images after fractional reduction), gcc sanitizers, generated inputs cover the quantifier only by sampling; ties/decision surfaces are don't-care.",
         "DESIGN.md §5 C02"),
 "C01": ("exploration",
         "runtime monitoring: long-double reference-model oracle (brute-force image unwrapping) + metamorphic monitors (lattice shift, rigid translation, convex hull, half-box threshold probes) on the real CGEngine/TopologyMap under ASan/UBSan; executable-level oracle re-computing csg_map outputs from the parsed input files",
         "Real mapping code (library API and the csg_map executable over four format pairs, per-frame varying boxes) runs on ~3e5 (quick) generated bead-frames; each CG bead's position/velocity/force/mass is compared with an independent recomputation, metamorphic relations are observed on the real outputs, oversize beads must be rejected; sanitizers watch every run. Held-on-observed.",
         "Trusted: the oracle's 125-image search and weight/force-weight reading recorded in DESIGN.md §5 C01; don't-care band around half the box height; written files compared on the box diagonal only (tilt factors are C08's subject).",
         "DESIGN.md §5 C01"),
 "C03": ("exploration",
         "runtime monitoring: O(N^2)/O(N^3) brute-force reference (independent image search) vs the real NBListGrid/NBList/3-body searches with a counting match callback, exclusions through the real RebuildExclusions, under ASan/UBSan",
         "The four neighbour-search classes run on generated configurations (0..300 beads, orthorhombic and reduced triclinic boxes, cutoffs giving 1,2,3..20 cells per direction, one/two/three-list variants, exclusions on/off); delivered pairs (multiset), stored pairs/triples, connection vectors and distances are compared with brute force; grid result = simple result. Held-on-observed.",
         "Trusted: brute-force oracle; pairs within 1e-9*cutoff of the cutoff are don't-care; callback multiplicity judged for pairs only (DESIGN §5 C03).",
         "DESIGN.md §5 C03"),
 "C04": ("exploration",
         "runtime monitoring: the real csg_stat executable (ASan/UBSan build) on generated topologies/trajectories/mappings/options, every written file compared with an independent numpy re-implementation of the documented formulas",
         "csg_stat runs (128 quick / 4000 thorough) over 1..12 frames with per-frame box volumes, 1..3 bead types, bonded groups, --include-intra, --do-imc, --block-length, --first-frame/--nframes, --nt; *.dist.new, *.imc, *.gmc, *.idx and block files are compared bin by bin with a reference recomputation from the parsed input files. Held-on-observed.",
         "Trusted: the numpy reference (V/N^2 normalisation reading recorded in DESIGN.md §5 C04); frames with a pair within 1e-6 of a bin edge or the cutoff are re-drawn; orthorhombic boxes only (the readers used are orthorhombic).",
         "DESIGN.md §5 C04"),
 "C06": ("exploration",
         "runtime monitoring: csg_fmatch on systems whose reference forces are generated inside the spline space (oracle = the generating functions; internal-coordinate gradients self-checked by finite differences), csg_imc_solve judged by the independently computed normal-equation residual, KKT monitors for linalg_constrained_qrsolve; ASan/UBSan builds",
         "224/480/4000 (quick) fmatch systems / (A,b,r) problems / constrained problems: fitted force tables vs generating functions for pair, bond, angle, dihedral (incl. periodic) interactions, constrained and plain least squares, 1..3 blocks; (A^T A + rI)x = -A^T b residual incl. non-symmetric A and multi-interaction index files; constraint satisfaction and null-space orthogonality. Held-on-observed.",
         "Trusted: numpy reference; under-sampled spline intervals are skipped and counted; one common kcal/kJ unit factor per fmatch case is fitted within [4.184/4.1868, 1] (C20 judges the constant itself).",
         "DESIGN.md §5 C06"),
 "C07": ("exploration",
         "runtime monitoring: Richardson-extrapolated central differences of the reported value, gradient-sum, rigid-motion and periodic-image invariance monitors, D2F symmetry, tabulated-potential comparison; real library under ASan/UBSan; concurrent part: 2..8 threads on private objects compared bit for bit with the serial run (ASan/UBSan build) and the same part under ThreadSanitizer",
         "IBond/IAngle/IDihedral gradients, LJ126/LJG/CBSPL parameter derivatives and Cubic/Akima/Lin spline derivatives are evaluated on ~6e4 (quick) / 3e6 (thorough) generated geometries, parameter vectors and data sets and compared with numerical derivatives of the value the same object reports. Held-on-observed. A concurrent part (private objects per thread, results bit-identical to the serial call sequences; asan and tsan flavours) covers hidden shared state.",
         "Trusted: finite-difference oracle with its own error estimate (cases whose estimate is too large are skipped and counted); singular geometries excluded by the margins in DESIGN §5 C07.",
         "DESIGN.md §5 C07"),
 "C08": ("exploration",
         "runtime monitoring: write->read round-trip monitors through the real TrjWriterFactory/TrjReaderFactory/TopReaderFactory, Table and imcio code (oracle = the original in-memory data within half a unit of the format's last printed digit), file-level parsers where a reader rejects its writer, atom-count-mismatch frames must raise; csg_map --no-map conversion chains; ASan/UBSan, one process per DL_POLY case",
         "gro, xyz, pdb, LAMMPS dump, DL_POLY, xml topology, tables and IMC matrices/index files are round-tripped for ~4e3 (quick) / 1e5 (thorough) generated configurations (1..200 beads, both signs within field widths, orthorhombic and triclinic boxes, 1..6 frames, with/without velocities and forces); every format x aspect has its own structural key (format_matrix in the evidence). Held-on-observed, with the recorded known findings.",
         "Trusted: per-format precision model; names compared as far as the format stores them; time stamps not judged; known findings listed in known_findings.json (LAMMPS tilt factors, pdb triclinic box, table error column).",
         "DESIGN.md §5 C08"),
 "C09": ("exploration",
         "runtime monitoring: the real DavidsonSolver (xtp TU compiled stand-alone, ASan for sizes <= 200, -O2 above) on generated symmetric / BSE-form matrices and matrix-free operators, judged against dense Eigen diagonalisation (order, normalisation, orthogonality, recomputed residual, lowest roots, status honesty, bounded progress in iterations); omp-env family: the same oracles under OpenMP environments that deliver fewer threads than omp_get_max_threads() (thread limit, dynamic adjustment, solve() inside parallel regions)",
         "559 (quick) / 6255 (thorough) solves over sizes 2..1000, neigen 1..size/4, all 24 combinations of correction x update size x tolerance, search-space limits forcing restarts, clustered/degenerate/negative/wide spectra, HAM mode; a fixed deterministic set of adversarial instances runs on every invocation under its own keys (known findings). Held-on-observed on the randomised families. Matrix-free operators are additionally solved under seven OpenMP environments.",
         "Trusted: Eigen dense solvers as oracle; the progress clause is judged only with the default search-space limit; randomised families are those for which the 'lowest roots' clause held over a multi-seed soak, adversarial instances are fixed (DESIGN §5 C09).",
         "DESIGN.md §5 C09"),
 "C14": ("exploration",
         "runtime monitoring: exact-measure monitor of the real GNode/huffmanTree lookup (evaluated at every internal threshold +-1 ulp, 0, 1 and interval mid-points; no sampling), Marcus-rate relations (positivity, J^2 scaling, detailed balance incl. field and outer-sphere terms) on constructed QMPair objects, waiting-time law through the real KMCCalculator::Promotetime; ASan/UBSan",
         "17e3 (quick) / 1.2e6 (thorough) evaluations: event lists of length 1..100 with rates over 12 orders of magnitude; the total length of the set of random numbers selecting each event equals rate/escape rate, every p in [0,1] selects an event; rate relations over energies, reorganisation energies, couplings, fields, temperatures, carrier types. Held-on-observed.",
         "Trusted: private tree thresholds read in the harness TU only; sign convention of the field term recorded in DESIGN §5 C14; QMCalculator pieces needing libint2 are stubbed in the harness for kmccalculator.cc.",
         "DESIGN.md §5 C14"),
 "C15": ("exploration",
         "runtime monitoring: symmetry / rigid-motion invariance monitors and an explicit point-charge-cluster Coulomb oracle (Richardson-extrapolated cluster size) for the real eeInteractor on generated Static/PolarSite objects; field = dE/dmu by finite differences; Thole tensor relations; ASan/UBSan; sites restored from checkpoints, already polarised sites, segment-level rotations, the matrix-free dipole-dipole operator under 2..8 OpenMP threads",
         "2.4e4 (quick) / 1e6 (thorough) site pairs over separations 0.5..100 bohr, all rank combinations 0/1/2 x 0/1/2, moments over 4 orders of magnitude. Held-on-observed. Restored, polarised and segment-level variants of the clauses are included.",
         "Trusted: the point-charge cluster construction of dipoles and traceless quadrupoles; tolerances from the measured extrapolation error (worst 3e-9 x scale vs 5e-7 allowed).",
         "DESIGN.md §5 C15"),
 "C17": ("exploration",
         "runtime monitoring: write/close/reopen/read histories on real HDF5 checkpoint files through CheckpointFile/Writer/Reader (bit-identity by memcmp incl. -0.0, denormals, inf, NaN payloads; shapes; overwrite sequences; unwritten names; READ-level files byte-identical after refused writes); ASan/UBSan, one process per edge family; second writable handle on a READ-level file, padded row types, compact layout, sessions through symbolic links",
         "3.4e4 (quick) / 1e6 (thorough) evaluations over all supported kinds, nested group paths and overwrite histories; edge families (different-shape / different-kind overwrite, empty shapes, pre-filled destinations) have their own keys (known findings for the missing delete-then-create). Held-on-observed. Handle combinations, table layouts and symbolic links are part of the histories.",
         "Trusted: system HDF5 1.10; a read into a fresh destination from a fresh handle is what 'bit-identical' is judged on.",
         "DESIGN.md §5 C17"),
 "C20": ("exploration",
         "runtime monitoring, exhaustive enumeration: UnitConverter::convert over all ordered pairs and triples of every enum, all tools::conv constants vs embedded CODATA 2018 / SI values, cross-table agreement (conv vs UnitConverter vs factors applied by the I/O modules, observed through one-bead round trips), Elements getters vs an embedded periodic table; ASan/UBSan",
         "2286 evaluations, the finite space is enumerated completely (exhaustive: true): 212 unit pairs, 1128 triples, derived-unit quotients, 14 constants, 29 I/O factors, 71 element symbols x 9 checks. UnitConverter identities to 1e-12, everything else to four significant digits as the statement says.",
         "Trusted: the embedded reference values (CODATA 2018, IUPAC masses); either calorie definition is accepted against the reference, only the disagreement between two places in the library is flagged.",
         "DESIGN.md §5 C20"),
 "C11": ("exploration",
         "runtime monitoring: independent Python (ElementTree) model of the documented option merge compared with the real OptionsHandler on every shipped calculator description; fault-injected negative inputs; XML print/load round-trip and as<T> literal-table monitors in-process under ASan/UBSan; votca_property executable",
         "The real OptionsHandler::ProcessUserInput/CalculatorOptions run on all 27 shipped xtp calculators (9 linked sub-packages) x generated user inputs (random leaf subsets, list multiplicities, one injected fault per negative case) and the resolved trees / error texts are compared with the model; random property trees over a metacharacter alphabet are printed and re-loaded. Held-on-observed.",
         "Trusted: the ElementTree merge model (names, per-name order and multiplicity, trimmed leaf values; cross-name sibling order and section text are not judged).",
         "DESIGN.md §5 C11"),
 "C12": ("exploration",
         "runtime monitoring: relational spline/table monitors (knot values, continuity of value and slope, straight-line reproduction, linearity in ordinates, natural/periodic end conditions, fit reproduces in-space functions + normal-equation orthogonality, smoothing, save/load) on the real library under ASan/UBSan; csg_resample executable on generated tables",
         "Lin/Cubic/Akima splines, Table and the csg_resample executable run on ~2.5e5 (quick) generated data sets and grids; every verdict is a relation between outputs of the real code (no stored numbers). Held-on-observed.",
         "Trusted: tolerances scaled by data magnitude and grid spacing; periodic end conditions judged for interpolating splines (for fits only observed).",
         "DESIGN.md §5 C12"),
 "C13": ("exploration",
         "runtime monitoring: shadow-histogram reference model updated per processed value (nearest centre, half-step acceptance, modulo wrap), weight conservation and normalisation monitors; the memory half is decided by ASan + Eigen index assertions + UBSan float-cast-overflow on the real code (own build of the two TUs with -fno-builtin-floor); csg_density on unwrapped coordinates; abort-prone families run in their own processes; csg_boltzmann sessions (sequences of hist/tab set commands, option listings parsed after every command) judged by an independent model of the legacy histogram",
         "1.7e6 (quick) / 1.1e7 (thorough) processed values over (min,max,nbins) incl. nbins=1, values on bin edges (either outcome accepted), far outside the range up to +-1e300, exact negative multiples of the period, negative weights, periodic and not; legacy Histogram auto-range and bond/angle scalings on all-sign data. Held-on-observed. csg_boltzmann is driven with random command sequences.",
         "Trusted: the shadow model; values within the rounding band of a bin edge are don't-care; normalisation judged for non-negative contents.",
         "DESIGN.md §5 C13"),
 "C16": ("exploration",
         "runtime monitoring: reference BFS / union-find oracles and random relabelling (sparse large ids, random bead and edge insertion orders) against the real BeadStructure / graph algorithms; exhaustive enumeration of all simple graphs up to 6 vertices; ASan/UBSan; interleaved explorations through the public stepping API and concurrent explorations on private objects (ASan/UBSan and ThreadSanitizer builds) compared with sequential runs",
         "All 208 isomorphism classes up to 6 vertices x relabellings, structured classes up to 12 vertices, random graphs up to 60 vertices (2.8e3 quick / 4.6e4 thorough graph x relabelling cases): equivalence under relabelling, inequivalence after a name/mass change, shortest-path distances, components as partitions, reduce+expand lossless, single-network detection. Exhaustive for <= 6 vertices, sampled above. Interleaved and concurrent explorations must equal the sequential ones.",
         "Trusted: the reference BFS/union-find; fresh BeadStructure per monitor (the library leaves exploration labels in the graph it returns).",
         "DESIGN.md §5 C16"),
 "C18": ("exploration",
         "runtime monitoring: dynamic-programming glob matcher as reference for tools::wildcmp (exhaustive over {a,b,*,?} x {a,b} up to length 6/7, random longer), direct enumeration oracle for RangeParser with a 1e6-step budget (non-termination is a verdict), print->parse round trip, malformed inputs, xtp IndexParser and BeadList selection; ASan/UBSan; registered and reader-built topologies with wildcard characters in bead types, Topology::RenameMolecules and the xml <rename range> against an independent range expansion",
         "2e6 (quick) / 9.4e7 (thorough) evaluations; the [-6,6]^3 begin:stride:end window and the small-alphabet pattern space are enumerated completely; forms whose status the statement leaves open (1::5, empty blocks) are observation counters only. Bead selection also runs on reader-built topologies; RenameMolecules is driven with the range generator.",
         "Trusted: the DP matcher and the enumeration oracle; budget-limited iteration runs in a way that a hang cannot take the run down.",
         "DESIGN.md §5 C18"),
 "C19": ("exploration",
         "runtime monitoring: the real Perl/shell post-processing scripts run (perl -w, csg_call/csg_table for part of the runs) on generated tables, outputs compared with closed-form reference formulas; integrate/differentiate inverse pair through csg_resample",
         "640 (quick) / 16000 (thorough) script runs over update_ibi_pot, dist_boltzmann_invert, table_integrate/linearop/combine/scale/smooth/extrapolate, potential_shift with generated tables (zeros, undefined regions, all flags, kT range); point-wise formulas, flag semantics and discretisation bounds are judged. No sanitizer applies to the interpreters.",
         "Trusted: closed-form oracle in python; values within the scripts' positivity-threshold band are don't-care; table_smooth judged by local-average relations (its help gives no formula).",
         "DESIGN.md §5 C19"),
 "C05": ("exploration",
         "runtime monitoring: controlled scheduler over hook events (context-bounded exhaustive DFS enumeration for small configurations + seeded uniform/PCT/run-to-block/starve schedules) with online monitors (exclusion, exactly-once frames, merge order, real-deadlock verdict) + free-running csg_stat/csg_reupdate under ThreadSanitizer and ASan with seeded delays and offline event-log checker; outputs compared with --nt 1; executables include H5MD trajectories and the shipped threaded template; the real pthread mutex behind tools::Mutex is probed after every Lock/Unlock",
         "The real CsgApplication (test subclass in-process; csg_stat, csg_partial_rdf, csg_reupdate and csg_orientcorr as executables) is run under thousands of distinct thread interleavings chosen by a scheduler that owns every lock/unlock/start/join/reader/merge hook point, plus a systematic part: every interleaving with at most k preemptions of 16 (quick) / 20 (thorough) small configurations is enumerated by depth-first search over the scheduler decisions; monitors over the event stream decide reader/merge exclusion, each-frame-once-in-order, merge order, join-before-EndEvaluate and deadlock (no enabled thread = verdict, not timeout); merged logs / output files are compared with the single-thread run; TSan watches the free-running executables. Beyond the context-bounded small configurations interleavings are sampled, not enumerated. Executable families: csg_stat (dump, H5MD), csg_reupdate, csg_orientcorr, csg_partial_rdf and the shipped template_threaded.cc.",
         "Trusted: hook placement (guarded by VOTCA_VERIF, commits in hooks.source_commits), the scheduler's mirror of mutex state, TSan with token-ring hand-over annotated as release/acquire and mutex-misuse reports off (the lock-in-one-thread/unlock-in-another idiom is not forbidden by the property). --begin not exercised.",
         "DESIGN.md §5 C05"),
 "C10": ("fault_enumeration",
         "runtime monitoring: offline exactly-once/no-loss/no-overwrite checker over per-execution ledgers (unique nonces) of multi-process x multi-thread runs of the real ProgObserver; pause points inside the critical section via hooks; crash-at-byte-N enumeration by an interposed write(); restart-pattern waves; ThreadSanitizer for thread-only runs; the thread pool and worker loop are the real ParallelXJobCalc (parallelxjobcalc.cc compiled unchanged, libint2 initialise/finalise stubbed)",
         "Histories of the real ProgObserver<std::vector<Job>>/Job I/O code driven by a stub calculator from 1..6 processes x 1..4 threads on one job file are recorded at the client boundary (start/done events with unique nonces) and judged offline against the parsed final job file; a process is held at hook points inside the load-merge-assign-write section while another synchronises; the process is killed after every byte offset of job-file and backup writes (exhaustive for the small configurations, sampled in the quick tier), also in its second synchronisation after a peer process has reported results in between (crash_peer), and job-file-or-backup completeness plus recovery are judged; restart patterns are run as a second wave and concurrently with a live worker. Sampled interleavings, enumerated crash points. The workers are started and joined by the real ParallelXJobCalc::Evaluate.",
         "Trusted: the stub replicates the 12-line worker loop of ParallelXJobCalc::JobOperator::Run (that TU needs libint2); crash model is process kill at write() granularity; ledger written with O_APPEND single writes; Python ElementTree as the parseability oracle.",
         "DESIGN.md §5 C10"),
}

NOT_YET = "check not built yet in this session (planned, see DESIGN.md §5); not claimed"


def hook_commits():
    try:
        out = subprocess.run(["git", "-C", "/repo", "log", "--format=%H %s"],
                             capture_output=True, text=True).stdout
        return [l.split()[0] for l in out.splitlines()
                if l.split(" ", 1)[1].startswith("verif hooks:")]
    except Exception:
        return []


def main():
    m = {
     "version": 1,
     "setup_cmd": "./vf setup",
     "hooks": {
      "guard": "VOTCA_VERIF",
      "enable": "checks build /repo into /verif/.build/<flavour> with -DVOTCA_VERIF in CMAKE_CXX_FLAGS (lib/vfcore.py build_flavour); hook run-times define votca_verif_event (harness/hookrt)",
      "baseline_off_cmd": "cmake --build /repo/_build -j16 && ctest --test-dir /repo/_build -j8 --timeout 900",
      "source_commits": hook_commits(),
      "add_only": False,
     },
     "engines": [
      {"name": "vf", "path": "vf", "serves_properties": sorted(CHECKS),
       "kind_free_text": "python driver: incremental sanitizer builds of /repo, monitor programs (harness/*.cc) linked against them, JSON-lines verdict aggregation, known-finding matching, evidence writer"}],
     "checks": [],
     "notes": "Technique family: runtime monitoring and sanitizers. Exit 0 held on what was observed / 1 VIOLATION / 2 inconclusive (harness failure). hooks.add_only is false only because two one-line function bodies (Mutex::Lock/Unlock) were reflowed to take the event lines; no statement was removed.",
     "not_applicable": [],
    }
    for pid in ALL:
        if pid in CHECKS:
            cat, tech, text, note, ref = CHECKS[pid]
            m["checks"].append({
             "property_id": pid,
             "quick_cmd": "./vf check %s --tier quick" % pid,
             "thorough_cmd": "./vf check %s --tier thorough" % pid,
             "evidence_file": "evidence/%s.json" % pid,
             "replay_cmd_template": "./vf replay %s {path}" % pid,
             "engine": "vf",
             "level_claimed": {"category": cat, "text": text,
                               "design_ref": ref},
             "level_note": note,
             "technique": tech})
        else:
            m["not_applicable"].append({"property_id": pid, "reason": NOT_YET})
    json.dump(m, open(os.path.join(VERIF, "MANIFEST.json"), "w"), indent=1)
    print("MANIFEST.json written:", len(m["checks"]), "checks")


if __name__ == "__main__":
    main()
