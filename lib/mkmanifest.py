#!/usr/bin/env python3
"""Regenerates /verif/MANIFEST.json from the table below (kept valid at all
times; run after adding a check)."""
import json
import os
import subprocess

VERIF = os.path.dirname(os.path.dirname(os.path.abspath(__file__)))
ALL = ["C%02d" % i for i in range(1, 21)]

# id -> (category, technique, level text, level note, design ref)
CHECKS = {
 "C02": ("exploration",
         "runtime monitoring: reference-model oracle (long-double brute-force image search) + metamorphic monitors over generated inputs, real library under ASan/UBSan",
         "Real Topology/BoundaryCondition code is executed on ~2e6 (quick) generated box/point-pair cases per run; every result is judged by an independent long-double brute-force minimum-image oracle plus lattice-congruence, antisymmetry and lattice-shift-invariance monitors, with sanitizers watching each execution. Held-on-observed, not a proof.",
         "Trusted: the brute-force oracle (125 images after fractional reduction), gcc sanitizers, generated inputs cover the quantifier only by sampling; ties/decision surfaces are don't-care.",
         "DESIGN.md §5 C02"),
 "C05": ("exploration",
         "runtime monitoring: controlled scheduler over hook events (seeded uniform/PCT/run-to-block/starve schedules) with online monitors (exclusion, exactly-once frames, merge order, real-deadlock verdict) + free-running csg_stat/csg_reupdate under ThreadSanitizer and ASan with seeded delays and offline event-log checker; outputs compared with --nt 1",
         "The real CsgApplication (test subclass in-process; csg_stat and csg_reupdate as executables) is run under thousands of distinct thread interleavings chosen by a scheduler that owns every lock/unlock/start/join/reader/merge hook point; monitors over the event stream decide reader/merge exclusion, each-frame-once-in-order, merge order, join-before-EndEvaluate and deadlock (no enabled thread = verdict, not timeout); merged logs / output files are compared with the single-thread run; TSan watches the free-running executables. Interleavings are sampled, not enumerated.",
         "Trusted: hook placement (guarded by VOTCA_VERIF, commits in hooks.source_commits), the scheduler's mirror of mutex state, TSan with token-ring hand-over annotated as release/acquire and mutex-misuse reports off (the lock-in-one-thread/unlock-in-another idiom is not forbidden by the property). --begin not exercised.",
         "DESIGN.md §5 C05"),
 "C10": ("fault_enumeration",
         "runtime monitoring: offline exactly-once/no-loss/no-overwrite checker over per-execution ledgers (unique nonces) of multi-process x multi-thread runs of the real ProgObserver; pause points inside the critical section via hooks; crash-at-byte-N enumeration by an interposed write(); restart-pattern waves; ThreadSanitizer for thread-only runs",
         "Histories of the real ProgObserver<std::vector<Job>>/Job I/O code driven by a stub calculator from 1..6 processes x 1..4 threads on one job file are recorded at the client boundary (start/done events with unique nonces) and judged offline against the parsed final job file; a process is held at hook points inside the load-merge-assign-write section while another synchronises; the process is killed after every byte offset of job-file and backup writes (exhaustive for the small configurations, sampled in the quick tier) and job-file-or-backup completeness plus recovery are judged. Sampled interleavings, enumerated crash points.",
         "Trusted: the stub replicates the 12-line worker loop of ParallelXJobCalc::JobOperator::Run (that TU needs libint2); crash model is process kill at write() granularity; ledger written with O_APPEND single writes; Python ElementTree as the parseability oracle.",
         "DESIGN.md §5 C10"),
}

NOT_YET = "check not built yet in this session (planned, see DESIGN.md §5); not claimed"


def hook_commits():
    try:
        out = subprocess.run(["git", "-C", "/repo", "log", "--format=%H %s"],
                             capture_output=True, text=True).stdout
        return [l.split()[0] for l in out.splitlines()
                if l.split(" ", 1)[1].startswith("verif hooks:")]
    except Exception:
        return []


def main():
    m = {
     "version": 1,
     "setup_cmd": "./vf setup",
     "hooks": {
      "guard": "VOTCA_VERIF",
      "enable": "checks build /repo into /verif/.build/<flavour> with -DVOTCA_VERIF in CMAKE_CXX_FLAGS (lib/vfcore.py build_flavour); hook run-times define votca_verif_event (harness/hookrt)",
      "baseline_off_cmd": "cmake --build /repo/_build -j16 && ctest --test-dir /repo/_build -j8 --timeout 900",
      "source_commits": hook_commits(),
      "add_only": False,
     },
     "engines": [
      {"name": "vf", "path": "vf", "serves_properties": sorted(CHECKS),
       "kind_free_text": "python driver: incremental sanitizer builds of /repo, monitor programs (harness/*.cc) linked against them, JSON-lines verdict aggregation, known-finding matching, evidence writer"}],
     "checks": [],
     "notes": "Technique family: runtime monitoring and sanitizers. Exit 0 held on what was observed / 1 VIOLATION / 2 inconclusive (harness failure). hooks.add_only is false only because two one-line function bodies (Mutex::Lock/Unlock) were reflowed to take the event lines; no statement was removed.",
     "not_applicable": [],
    }
    for pid in ALL:
        if pid in CHECKS:
            cat, tech, text, note, ref = CHECKS[pid]
            m["checks"].append({
             "property_id": pid,
             "quick_cmd": "./vf check %s --tier quick" % pid,
             "thorough_cmd": "./vf check %s --tier thorough" % pid,
             "evidence_file": "evidence/%s.json" % pid,
             "replay_cmd_template": "./vf replay %s {path}" % pid,
             "engine": "vf",
             "level_claimed": {"category": cat, "text": text,
                               "design_ref": ref},
             "level_note": note,
             "technique": tech})
        else:
            m["not_applicable"].append({"property_id": pid, "reason": NOT_YET})
    json.dump(m, open(os.path.join(VERIF, "MANIFEST.json"), "w"), indent=1)
    print("MANIFEST.json written:", len(m["checks"]), "checks")


if __name__ == "__main__":
    main()
