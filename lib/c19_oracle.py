"""C19 reference model: closed forms of the table post-processing scripts
(DESIGN.md §5 C19). Plain python3, no numpy.

Each generator returns a Case: input files (text), the script + arguments, and a
judge(case, run) that compares the parsed output with what the property
statement and the script's own help text say. Values the statement leaves open
(positivity-threshold band, points whose potential flag is 'u', which side a
continued value comes from) are accepted either way and counted.
"""
import math

TH = 1e-10          # positivity threshold of update_ibi_pot.pl / default --min


# ---------------------------------------------------------------------------
# tables
# ---------------------------------------------------------------------------

def fmt(v):
    return "%.10g" % v


def table_text(xs, ys, flags, errs=None, comment=None):
    out = []
    if comment:
        out.append(comment)
    for i in range(len(xs)):
        if errs is None:
            out.append("%s %s %s" % (xs[i], ys[i], flags[i]))
        else:
            out.append("%s %s %s %s" % (xs[i], ys[i], errs[i], flags[i]))
    return "\n".join(out) + "\n"


class Parsed:
    def __init__(self):
        self.x, self.y, self.err, self.flag = [], [], [], []
        self.malformed = []      # (line number, text)
        self.comments = []


def parse_table(text, with_err=False):
    p = Parsed()
    need = 4 if with_err else 3
    for ln, line in enumerate(text.splitlines(), 1):
        s = line.strip()
        if not s:
            continue
        if s[0] in "#@":
            p.comments.append(line)
            continue
        parts = s.split()
        if len(parts) < need:
            p.malformed.append((ln, line))
            p.x.append(parts[0] if parts else "")
            p.y.append(None)
            p.err.append(None)
            p.flag.append(parts[-1] if parts else "")
            continue
        p.x.append(parts[0])
        p.y.append(parts[1])
        p.err.append(parts[2] if with_err else None)
        p.flag.append(parts[-1])
    return p


def num(s):
    try:
        return float(s)
    except (TypeError, ValueError):
        return None


def close(a, b, scale, rel=1e-11):
    if a is None or b is None:
        return False
    if math.isnan(a) or math.isnan(b):
        # an expected nan only ever comes from a nan entry of the input
        return math.isnan(a) and math.isnan(b)
    if scale != scale:
        scale = 0.0
    if math.isinf(a) or math.isinf(b):
        return a == b
    return abs(a - b) <= rel * max(abs(a), abs(b), scale) + 1e-300


def gen_grid(rng, nmin=3, nmax=1000, positive=False, long_ok=False):
    r = rng.random()
    if long_ok and r > 0.985:
        # very long tables (beyond the 3..1000 of the statement's quantifier)
        n = rng.choice([5000, 12000, 20000])
        h = rng.choice([0.0005, 0.001])
        x0 = 0.05 if positive else rng.choice([0.0, 0.05])
        xs = [fmt(x0 + i * h) for i in range(n)]
        return xs, [float(t) for t in xs], h
    if r < 0.25:
        n = rng.randint(nmin, max(nmin, 12))
    elif r < 0.8:
        n = rng.randint(max(nmin, 13), 200)
    else:
        n = rng.randint(201, nmax)
    n = max(nmin, min(nmax, n))
    h = rng.choice([0.001, 0.002, 0.005, 0.01, 0.02, 0.025, 0.05, 0.1])
    x0 = rng.choice([0.05, 0.1, 0.2, 1.0]) if positive else \
        rng.choice([0.0, 0.0, 0.05, 0.1, 1.0, -0.5])
    xs = [fmt(x0 + i * h) for i in range(n)]
    return xs, [float(s) for s in xs], h



def inject_nan(rng, ys, flags, prob=0.25):
    """undefined entries spelled nan / -nan / NaN at rows that are not flagged
    i (what VOTCA's own tools write for 0/0 in undefined regions)"""
    if rng.random() > prob:
        return False
    hit = False
    for i in range(len(ys)):
        if flags[i] != "i" and rng.random() < 0.5:
            ys[i] = rng.choice(["nan", "-nan", "nan", "NaN"])
            hit = True
    return hit


def finite(vals):
    return [v for v in vals if v == v and not math.isinf(v)]


def vary_table_text(rng, text, counters=None):
    """another spelling of the same table: comment lines (# and @) at the top
    and between rows, blank lines, tabs / several blanks / leading and trailing
    blanks as separators, scientific notation for the numbers. Numbers keep
    their exact decimal value (they carry <= 10 significant digits)."""
    style = {"comments": rng.random() < 0.4, "blank": rng.random() < 0.4,
             "sep": rng.random() < 0.4, "sci": rng.random() < 0.35,
             "sci_x": rng.random() < 0.15}
    if counters is not None:
        for k, on in style.items():
            if on:
                counters["input_variant_" + k] = counters.get("input_variant_" + k, 0) + 1
    scif = rng.choice(["%.9e", "%.9E", "%.12e"])

    def renum(tok):
        try:
            v = float(tok)
        except ValueError:
            return tok
        if v != v or v in (float("inf"), float("-inf")):
            return tok
        return scif % v
    out = []
    if style["comments"]:
        out.append(rng.choice(["# generated table", "@    title \"g(r)\"",
                               "#r y flag", "# a # b @ c"]))
        if rng.random() < 0.5:
            out.append("@ xaxis label \"r\"")
    if style["blank"] and rng.random() < 0.5:
        out.append("")
    rows = text.splitlines()
    for ln in rows:
        if not ln.strip() or ln[0] in "#@":
            out.append(ln)
            continue
        parts = ln.split()
        if style["sci"]:
            parts[1:-1] = [renum(t) for t in parts[1:-1]]
        if style["sci_x"]:
            parts[0] = renum(parts[0])
        if style["sep"]:
            sep = rng.choice(["\t", "  ", "   ", " \t ", " "])
            ln = rng.choice(["", " ", "  ", "\t"]) + sep.join(parts) + \
                rng.choice(["", " ", "  "])
        else:
            ln = " ".join(parts)
        out.append(ln)
        if style["comments"] and rng.random() < 0.03:
            out.append("# comment between the rows")
        if style["blank"] and rng.random() < 0.03:
            out.append(rng.choice(["", "   "]))
    if style["blank"] and rng.random() < 0.5:
        out.append("")
    return "\n".join(out) + "\n"


def vary_inputs(rng, case, counters=None):
    """apply vary_table_text to every input table of a case (half of the cases)"""
    if rng.random() < 0.5:
        return
    for name in list(case.inputs):
        case.inputs[name] = vary_table_text(rng, case.inputs[name], counters)
    case.info["input_spelling_varied"] = True


class Case:
    def __init__(self, family, script, args, inputs, outputs, judge,
                 csg_call_keys=None, info=None):
        self.family = family
        self.script = script            # file name below scripts/inverse
        self.args = args                # list; file names are relative
        self.inputs = inputs            # {name: text}
        self.outputs = outputs          # [names]
        self.judge = judge
        self.csg_call_keys = csg_call_keys   # e.g. ("table", "linearop")
        self.info = info or {}
        self.via_csg_call = False
        self.second = None              # optional follow-up stage (pairs)
        self.env = {}                   # extra environment (sloppy tables)
        self.csg_call_opts = []         # options for csg_call itself
        self.stages = None              # pipelines: [(script, args, keys)]
        self.expect_rc_nonzero = False


class Verdict:
    def __init__(self):
        self.violations = []     # (key, what, extra dict)
        self.counters = {}
        self.nontrivial = False
        self.sample = None
        self.evals = 1
        self.maxes = {}

    def bad(self, key, what, **extra):
        self.violations.append((key, what, extra))

    def count(self, k, n=1):
        self.counters[k] = self.counters.get(k, 0) + n


def basic_output_checks(v, fam, case, run, name, xs, with_err=False,
                        expect_flags=None, x_exact=True):
    """rc 0, output exists, well formed, same grid, (optionally) same flags.
    Returns the parsed table or None."""
    if run.rc != 0:
        v.bad(fam + "/script-failed", "the script exits with an error on a "
              "valid input", rc=run.rc, stderr=run.err[-1500:])
        return None
    text = run.files.get(name)
    if text is None:
        v.bad(fam + "/no-output", "no output table written", stderr=run.err[-800:])
        return None
    p = parse_table(text, with_err)
    if p.malformed:
        v.bad(fam + "/malformed-row", "output rows with a missing column",
              first_bad_rows=p.malformed[:3])
        return None
    if len(p.x) != len(xs):
        v.bad(fam + "/grid-changed", "number of rows changed",
              rows_out=len(p.x), rows_in=len(xs))
        return None
    if x_exact:
        for i in range(len(xs)):
            if p.x[i] != xs[i] and not close(num(p.x[i]), float(xs[i]), 1e-30, 1e-13):
                v.bad(fam + "/grid-changed", "x column changed", row=i,
                      got=p.x[i], expected=xs[i])
                return None
    for i, f in enumerate(p.flag):
        if f not in ("i", "o", "u"):
            v.bad(fam + "/flag-invalid", "flag column is not one of i/o/u",
                  row=i, got=f)
            return None
    if expect_flags is not None and p.flag != list(expect_flags):
        i = [k for k in range(len(xs)) if p.flag[k] != expect_flags[k]][0]
        v.bad(fam + "/flags-changed", "flag column not preserved", row=i,
              got=p.flag[i], expected=expect_flags[i])
        return None
    for i, y in enumerate(p.y):
        if num(y) is None:
            v.bad(fam + "/value-not-a-number", "y column is not numeric",
                  row=i, got=y)
            return None
    return p


def rand_flags(rng, n, mixed=True):
    """flag column: a defined interval in the middle, o/u outside, sometimes holes"""
    if not mixed:
        return ["i"] * n
    r0 = rng.random()
    if r0 < 0.3:
        # all three flags in all positions, first and last row included
        w = rng.choice([(6, 2, 2), (1, 1, 1), (2, 5, 3), (8, 1, 1)])
        fl = [rng.choice("i" * w[0] + "o" * w[1] + "u" * w[2]) for _ in range(n)]
        fl[0] = rng.choice("iou")
        fl[-1] = rng.choice("iou")
        if "i" not in fl:
            fl[rng.randrange(n)] = "i"
        return fl
    if n < 6 or r0 < 0.6:
        return ["i"] * n
    a = rng.randint(0, n // 3)
    b = rng.randint(n - 1 - n // 3, n - 1)
    fl = []
    for i in range(n):
        if i < a:
            fl.append(rng.choice("uo") if rng.random() < 0.3 else "u")
        elif i > b:
            fl.append("o")
        else:
            fl.append("i")
    if rng.random() < 0.3 and b - a > 4:
        k = rng.randint(a + 1, b - 1)
        fl[k] = rng.choice("ou")
    return fl


def smooth_values(rng, xv):
    kind = rng.randint(0, 3)
    A = rng.uniform(0.1, 50) * rng.choice([1, -1])
    x0, L = xv[0], max(xv[-1] - xv[0], 1e-9)
    if kind == 0:
        k = rng.uniform(0.5, 6) / L
        return [A * math.sin(k * (x - x0) * 6.283 + 0.3) + rng.uniform(-2, 2)
                for x in xv]
    if kind == 1:
        k = rng.uniform(0.5, 5) / L
        return [A * math.exp(-k * (x - x0)) + rng.uniform(-1, 1) for x in xv]
    if kind == 2:
        c = [rng.uniform(-3, 3) for _ in range(4)]
        return [A * (c[0] + c[1] * t + c[2] * t * t + c[3] * t ** 3)
                for t in ((x - x0) / L for x in xv)]
    return [A * rng.uniform(-1, 1) for _ in xv]      # noisy


# ---------------------------------------------------------------------------
# update_ibi_pot.pl
# ---------------------------------------------------------------------------

def rdf_like(rng, xv, core, amp):
    out = []
    for x in xv:
        if x < core:
            out.append(0.0)
        else:
            t = x - core
            g = 1.0 + amp * math.exp(-3 * t) * math.cos(12 * t) - math.exp(-25 * t)
            out.append(max(g, 0.0))
    return out


def gen_ibi(rng):
    xs, xv, h = gen_grid(rng)
    n = len(xs)
    L = xv[-1] - xv[0]
    core = xv[0] + rng.uniform(0.0, 0.35) * L
    tgt = rdf_like(rng, xv, core, rng.uniform(0.2, 1.5))
    mode = rng.choice(["identical", "perturbed", "perturbed", "perturbed",
                       "shifted_core"])
    if mode == "identical":
        cur = list(tgt)
    else:
        k = rng.uniform(1, 8) / max(L, 1e-9)
        a = rng.uniform(0.02, 0.8)
        cur = [g * math.exp(a * math.sin(k * (x - xv[0]))) for g, x in zip(tgt, xv)]
        if mode == "shifted_core":
            c2 = core + rng.uniform(-0.1, 0.1) * L
            cur = [0.0 if x < c2 else (c if c > 0 else 0.3) for c, x in zip(cur, xv)]
    # zeros / undefined regions, negative noise, threshold-band values
    for arr in (tgt, cur):
        if rng.random() < 0.4:
            for _ in range(rng.randint(1, 3)):
                k0 = rng.randrange(n)
                for j in range(k0, min(n, k0 + rng.randint(1, 3))):
                    arr[j] = rng.choice([0.0, 0.0, -1e-3, 5e-11, 1e-10, 3e-12])
        if rng.random() < 0.3:
            for j in range(n - rng.randint(1, max(1, n // 6)), n):
                arr[j] = 0.0
    # undefined entries written as nan / -nan (what csg_stat and other tools
    # print for 0/0): not positive, hence "elsewhere" in the statement
    with_nan = rng.random() < 0.3
    if with_nan:
        for arr in ((tgt, cur) if mode != "identical" else (tgt,)):
            if rng.random() < 0.7:
                for _ in range(rng.randint(1, 2)):
                    k0 = rng.randrange(n)
                    for j in range(k0, min(n, k0 + rng.randint(1, 2))):
                        arr[j] = float("nan")

    def ftxt(g):
        if math.isnan(g):
            return rng.choice(["nan", "-nan", "nan"])
        return fmt(g)
    stgt = [ftxt(g) for g in tgt]
    scur = stgt[:] if mode == "identical" else [ftxt(g) for g in cur]
    pot = smooth_values(rng, xv)
    pflags = ["i"] * n
    with_u = rng.random() < 0.25
    if with_u and rng.random() < 0.4:
        pflags = [rng.choice("iiiouu") for _ in range(n)]   # all positions
        pflags[0] = rng.choice("iou")
        pflags[-1] = rng.choice("iou")
    elif with_u:
        for j in range(rng.randint(1, max(1, n // 4))):
            pflags[j] = "u"
        if rng.random() < 0.3:
            pflags[rng.randrange(n)] = "u"
    kbt = fmt(rng.choice([rng.uniform(0.1, 10), 2.49435, 0.1, 10.0]))
    rflags = rand_flags(rng, n, mixed=False)
    inputs = {"tgt.dist": table_text(xs, stgt, rflags),
              "cur.dist": table_text(xs, scur, rflags),
              "cur.pot": table_text(xs, [fmt(p) for p in pot], pflags)}
    info = {"kBT": kbt, "n": n, "mode": mode, "pot_flags_with_u": with_u,
            "with_nan_entries": with_nan}

    def judge(case, run):
        v = Verdict()
        fam = "ibi"
        p = basic_output_checks(v, fam, case, run, "out.dpot", xs)
        if p is None:
            return v
        kT = float(kbt)
        T = [float(s) for s in stgt]
        C = [float(s) for s in scur]

        def state(i):          # 'valid' / 'invalid' / 'dontcare'
            st = "valid"
            for val in (T[i], C[i]):
                if math.isnan(val) or val <= 0.0:
                    return "invalid" if pflags[i] != "u" else "dontcare"
                if val <= TH * (1 + 1e-6):
                    st = "dontcare"
            if pflags[i] == "u":
                st = "dontcare"
            return st

        st = [state(i) for i in range(n)]

        def formula(i):
            if T[i] > 0 and C[i] > 0:
                return kT * math.log(C[i] / T[i])
            return None
        nvalid = ninvalid = 0
        for i in range(n):
            y = num(p.y[i])
            if st[i] == "valid":
                nvalid += 1
                e = formula(i)
                if stgt[i] == scur[i]:
                    if y != 0.0:
                        v.bad("ibi/identical-not-zero", "dU is not exactly 0 "
                              "where current and target rdf coincide", row=i,
                              got=p.y[i])
                        return v
                elif not close(y, e, kT * 1e-3, 1e-10):
                    v.bad("ibi/formula", "dU != kT ln(g_cur/g_tgt) where both "
                          "rdfs are positive", row=i, r=xs[i], g_tgt=stgt[i],
                          g_cur=scur[i], kBT=kbt, got=p.y[i], expected=e)
                    return v
                if p.flag[i] != "i":
                    v.bad("ibi/flag", "a point with both rdfs positive is not "
                          "flagged i", row=i, got=p.flag[i])
                    return v
            elif st[i] == "invalid":
                ninvalid += 1
                cands = [0.0]
                for rng_ in (range(i - 1, -1, -1), range(i + 1, n)):
                    for j in rng_:
                        if st[j] == "valid":
                            cands.append(formula(j))
                            break
                        f = formula(j)
                        if f is not None:
                            cands.append(f)
                if p.flag[i] != "o":
                    v.bad("ibi/flag", "a point where an rdf is not positive is "
                          "not flagged o", row=i, got=p.flag[i], g_tgt=stgt[i],
                          g_cur=scur[i])
                    return v
                if not any(close(y, c, kT * 1e-3, 1e-10) for c in cands):
                    v.bad("ibi/continuation", "the value at a point without a "
                          "defined update is not a continued neighbouring valid "
                          "value (nor 0)", row=i, got=p.y[i],
                          accepted=cands[:6])
                    return v
            else:
                v.count("ibi_dontcare_points")
        v.nontrivial = nvalid >= 1 and ninvalid >= 1 and mode != "identical" \
            or (mode == "identical" and nvalid >= 2)
        v.sample = {"family": fam, "n": n, "kBT": kbt, "mode": mode,
                    "valid_points": nvalid, "continued_points": ninvalid}
        return v
    return Case("ibi", "update_ibi_pot.pl",
                ["tgt.dist", "cur.dist", "cur.pot", "out.dpot", kbt],
                inputs, ["out.dpot"], judge, ("update", "ibi_pot"), info)


# ---------------------------------------------------------------------------
# dist_boltzmann_invert.pl
# ---------------------------------------------------------------------------

def gen_boltzmann(rng):
    typ = rng.choice(["non-bonded", "non-bonded", "bond", "angle", "dihedral",
                      None])
    if typ == "angle":
        n = rng.randint(14, 300)
        h = 3.0 / (n + 1)
        xs = [fmt(0.05 + i * h) for i in range(n)]
        xv = [float(s) for s in xs]
    else:
        xs, xv, h = gen_grid(rng, nmin=3, positive=True)
        n = len(xs)
    L = xv[-1] - xv[0]
    mn = rng.choice([None, None, "0.001", "1e-6", "0.05"])
    mval = float(mn) if mn else TH
    a = rng.randint(0, n // 4)
    b = n - 1 - rng.randint(0, n // 4)
    mu, sg = xv[0] + rng.uniform(0.3, 0.7) * L, rng.uniform(0.1, 0.5) * L + 1e-9
    A = 10 ** rng.uniform(-1, 4)
    ys = []
    for i, x in enumerate(xv):
        if i < a or i > b:
            ys.append(0.0)
        else:
            val = A * (math.exp(-0.5 * ((x - mu) / sg) ** 2) + 0.05)
            ys.append(val)
    if rng.random() < 0.25 and b - a > 6:
        ys[rng.randint(a + 1, b - 1)] = 0.0          # interior hole
    sy = []
    for y in ys:
        # keep away from the decision surface y == min
        if abs(y - mval) <= 1e-6 * mval:
            y = mval * 2
        sy.append(fmt(y))
    kbt = fmt(rng.choice([rng.uniform(0.1, 10), 2.49435]))
    args = ["--kbT", kbt]
    if typ:
        args += ["--type", typ]
    if mn:
        args += ["--min", mn]
    args += ["in.dist", "out.pot"]
    inflags = ["i"] * n
    mixed_in = rng.random() < 0.25
    if mixed_in:
        # the input's own flag column mixes i/o/u in all positions (the help
        # text says nothing about it: only rows flagged i in the input are
        # judged by the formula then)
        inflags = [rng.choice("iiiiou") for _ in range(n)]
        inflags[0] = rng.choice("iou")
        inflags[-1] = rng.choice("iou")
    with_nan = rng.random() < 0.25
    if with_nan:
        for i in range(n):
            if float(sy[i]) == 0.0 and rng.random() < 0.5:
                sy[i] = rng.choice(["nan", "-nan", "NaN"])
    inputs = {"in.dist": table_text(xs, sy, inflags)}
    info = {"kBT": kbt, "type": typ, "min": mn, "n": n,
            "input_flags_mixed": mixed_in, "with_nan_entries": with_nan}

    def judge(case, run):
        v = Verdict()
        fam = "boltzmann"
        Y = [float(s) for s in sy]
        valid = [y > mval for y in Y]
        first = valid.index(True) if True in valid else -1
        runlen = 0
        if first >= 0:
            j = first
            while j < n and valid[j]:
                runlen += 1
                j += 1
        if run.rc != 0:
            if ("Only" in run.err or "All data points" in run.err) and \
                    (runlen < 12 or mixed_in):
                v.count("boltzmann_dontcare_too_few_valid_points")
                return v
            v.bad("boltzmann/valid-input-rejected", "the script fails although "
                  "the distribution has a run of >= 12 valid points", rc=run.rc,
                  stderr=run.err[-800:], first_valid_run=runlen)
            return v
        p = basic_output_checks(v, fam, case, run, "out.pot", xs)
        if p is None:
            return v
        kT = float(kbt)
        consts = []
        for i in range(n):
            y = num(p.y[i])
            if valid[i] and inflags[i] != "i":
                v.count("boltzmann_dontcare_valid_point_flagged_ou_in_input")
                continue
            if valid[i]:
                norm = 1.0
                if typ == "bond":
                    norm = xv[i] * xv[i]
                elif typ == "angle":
                    norm = math.sin(xv[i])
                e = -kT * math.log(Y[i] / norm)
                if p.flag[i] != "i":
                    v.bad("boltzmann/flag", "a valid point is not flagged i",
                          row=i, got=p.flag[i])
                    return v
                consts.append((y - e, i, e))
            else:
                if p.flag[i] == "i":
                    v.bad("boltzmann/flag", "a point with P <= min is flagged "
                          "i", row=i, P=sy[i])
                    return v
                if math.isnan(y) or math.isinf(y):
                    v.bad("boltzmann/log-of-zero", "nan/inf written for a point "
                          "with P <= min", row=i, got=p.y[i])
                    return v
        if not consts:
            v.count("boltzmann_dontcare_no_valid_point")
            return v
        c0 = consts[0][0]
        for c, i, e in consts:
            if not close(c, c0, kT * (abs(e) + 1.0), 1e-10):
                v.bad("boltzmann/formula", "U(r) + kT ln(P(r)/norm) is not a "
                      "constant over the valid points", row=i, r=xs[i], P=sy[i],
                      kBT=kbt, type=typ, got=p.y[i], expected_up_to_const=e,
                      const_at_first_valid=c0, const_here=c)
                return v
        v.nontrivial = len(consts) >= 3 and (n - len(consts)) >= 1
        v.sample = {"family": fam, "n": n, "kBT": kbt, "type": typ,
                    "valid_points": len(consts), "constant": c0}
        return v
    return Case("boltzmann", "dist_boltzmann_invert.pl", args, inputs,
                ["out.pot"], judge, ("dist", "invert"), info)


# ---------------------------------------------------------------------------
# table_linearop.pl
# ---------------------------------------------------------------------------

def linearop_rows(xv, ys, errs, flags, A, B, wf, onx):
    """closed form of the help text: rows selected by --withflag get
    y' = a*y + b (x' = a*x + b with --on-x, err' = |a|*err), others are kept"""
    ox, oy, oe = [], [], []
    for i in range(len(xv)):
        sel = wf is None or flags[i] in wf
        y = float(ys[i])
        e = float(errs[i]) if errs is not None else None
        x = xv[i]
        if sel and onx:
            x = A * x + B
        elif sel:
            y = A * y + B
            if e is not None:
                e = abs(A) * e
        ox.append(x)
        oy.append(y)
        oe.append(e)
    return ox, oy, oe


def gen_linearop(rng):
    xs, xv, h = gen_grid(rng, long_ok=True)
    n = len(xs)
    ys = [fmt(y) for y in smooth_values(rng, xv)]
    flags = rand_flags(rng, n)
    a = fmt(rng.choice([rng.uniform(-5, 5), -1.0, 0.0, 1.0, 1e-3, 250.0]))
    b = fmt(rng.choice([rng.uniform(-10, 10), 0.0, 0.0, 1.5]))
    # every option alone and in every combination
    use_wf = rng.random() < 0.4
    onx = rng.random() < 0.2
    werr = rng.random() < 0.25
    sloppy = (not use_wf) and (not werr) and rng.random() < 0.12
    args = []
    wf = None
    errs = None
    if use_wf:
        wf = rng.choice(["i", "o", "u", "io", "ou", "iou"])
        args += ["--withflag", wf]
    if onx:
        args += ["--on-x"]
    if werr:
        args += ["--with-errors"]
        errs = [fmt(abs(rng.gauss(0, 0.1))) for _ in range(n)]
    with_nan = (not onx) and inject_nan(rng, ys, flags)
    args += ["in.tab", "out.tab", a, b]
    if sloppy:
        # tables without a flag column (csg_call --sloppy-tables /
        # VOTCA_TABLES_WITHOUT_FLAG=yes): every row counts as flag i
        flags = ["i"] * n
        text = "".join("%s %s\n" % (xs[i], ys[i]) for i in range(n))
    else:
        text = table_text(xs, ys, flags, errs,
                          "# a comment line" if rng.random() < 0.3 else None)
    inputs = {"in.tab": text}
    opt = "+".join([k for k, on in (("withflag", use_wf), ("onx", onx),
                                    ("errors", werr), ("sloppy", sloppy)) if on])
    info = {"a": a, "b": b, "option": opt, "withflag": wf, "n": n,
            "with_nan_entries": with_nan}

    def judge(case, run):
        v = Verdict()
        fam = "linearop"
        p = basic_output_checks(v, fam, case, run, "out.tab", xs,
                                with_err=werr, expect_flags=flags,
                                x_exact=not onx)
        if p is None:
            return v
        A, B = float(a), float(b)
        ex_x, ex_y, ex_e = linearop_rows(xv, ys, errs, flags, A, B, wf, onx)
        changed = 0
        for i in range(n):
            sel = wf is None or flags[i] in wf
            changed += sel
            if not close(num(p.x[i]), ex_x[i], abs(A * xv[i]) + abs(B)):
                v.bad("linearop/formula", "x_new != a*x_old + b (--on-x)" if sel
                      else "--on-x changed the x of a row not selected by "
                      "--withflag", row=i, got=p.x[i], expected=ex_x[i], a=a,
                      b=b, option=opt, withflag=wf)
                return v
            if not close(num(p.y[i]), ex_y[i],
                         abs(A * float(ys[i])) + abs(B)):
                v.bad("linearop/formula", ("--on-x changed the y column" if onx
                      else "y_new != a*y_old + b") if sel else
                      "an entry whose flag is not selected by --withflag was "
                      "changed", row=i, flag=flags[i], got=p.y[i],
                      expected=ex_y[i], a=a, b=b, withflag=wf, option=opt)
                return v
            if werr:
                e = num(p.err[i])
                if e is None or not close(abs(e), ex_e[i], 0):
                    v.bad("linearop/errors", "error column is not |a|*err "
                          "(selected rows) / unchanged (others)",
                          row=i, got=p.err[i], err_in=errs[i], a=a, option=opt)
                    return v
        v.nontrivial = changed >= 1 and (A != 1.0 or B != 0.0)
        v.sample = {"family": fam, "n": n, "a": a, "b": b, "option": opt}
        return v
    c = Case("linearop", "table_linearop.pl", args, inputs, ["out.tab"],
             judge, ("table", "linearop"), info)
    if sloppy:
        c.env = {"VOTCA_TABLES_WITHOUT_FLAG": "yes"}
        c.csg_call_opts = ["--sloppy-tables"]
    return c


# ---------------------------------------------------------------------------
# table_combine.pl
# ---------------------------------------------------------------------------

def gen_combine(rng):
    xs, xv, h = gen_grid(rng, long_ok=True)
    n = len(xs)
    y1 = [fmt(y) for y in smooth_values(rng, xv)]
    y2 = [fmt(y) for y in smooth_values(rng, xv)]
    flags = rand_flags(rng, n)
    op = rng.choice(["+", "-", "*", "/", "x", "d", "d2", "=", "+", "-"])
    if op == "/":
        y2 = [s if abs(float(s)) > 1e-3 else "0.5" for s in y2]
    if op == "=":
        # rows either identical or clearly different
        y2 = [y1[i] if rng.random() < 0.5 else
              fmt(float(y1[i]) * 1.5 + (1.0 if abs(float(y1[i])) < 1 else 0.0) + 0.25)
              for i in range(n)]
    scale = rng.choice([None, None, fmt(rng.uniform(-3, 3)), "0.5"])
    mode = rng.choice(["table", "table", "table", "sum", "withflag", "noflags",
                       "flagdiff", "sum_withflag"])
    args = ["--op", op]
    if scale:
        args += ["--scale", scale]
    flags2 = list(flags)
    wf = None
    if mode == "sum":
        args += ["--sum"]
    elif mode == "sum_withflag":
        # the combination the framework itself uses (postadd_convergence.sh)
        wf = rng.choice(["i", "o", "io"])
        args += ["--sum", "--withflag", wf]
    elif mode == "withflag":
        wf = rng.choice(["i", "o", "io"])
        args += ["--withflag", wf]
    elif mode in ("noflags", "flagdiff"):
        k = rng.randrange(n)
        flags2[k] = {"i": "o", "o": "u", "u": "i"}[flags[k]]
        if mode == "noflags":
            args += ["--no-flags"]
    args += ["a.tab", "b.tab"] + ([] if mode.startswith("sum") else ["out.tab"])
    inputs = {"a.tab": table_text(xs, y1, flags), "b.tab": table_text(xs, y2, flags2)}
    info = {"op": op, "scale": scale, "mode": mode, "withflag": wf, "n": n}

    def value(i):
        a, b = float(y1[i]), float(y2[i])
        if op == "+":
            r, sc = a + b, abs(a) + abs(b)
        elif op == "-":
            r, sc = a - b, abs(a) + abs(b)
        elif op in ("*", "x"):
            r, sc = a * b, abs(a * b)
        elif op == "/":
            r, sc = a / b, abs(a / b)
        elif op == "d":
            r, sc = abs(a - b), abs(a) + abs(b)
        elif op == "d2":
            r, sc = (a - b) ** 2, (abs(a) + abs(b)) ** 2
        else:
            r, sc = (0.0 if y1[i] == y2[i] else 1.0), 1.0
        s = float(scale) if scale else 1.0
        return r * s, sc * abs(s)

    def judge(case, run):
        v = Verdict()
        fam = "combine"
        if mode == "flagdiff":
            # the help: --no-flags = "Do not check for the flags" -> by default
            # differing flags are an error
            if run.rc == 0:
                v.bad("combine/flag-mismatch-accepted", "tables with different "
                      "flags are combined without --no-flags", stderr=run.err[-400:])
            else:
                v.count("combine_flag_mismatch_rejected")
                v.nontrivial = True
            return v
        if mode.startswith("sum"):
            if run.rc != 0:
                v.bad("combine/script-failed", "--sum fails", rc=run.rc,
                      stderr=run.err[-800:])
                return v
            toks = run.out.strip().split()
            got = num(toks[-1]) if toks else None
            rows = [i for i in range(n) if wf is None or flags[i] in wf]
            ex = sum(value(i)[0] for i in rows)
            sc = sum(value(i)[1] for i in rows)
            if got is None or not close(got, ex, sc, 1e-9):
                v.bad("combine/sum", "--sum does not print the scaled sum of the "
                      "combined values", got=run.out.strip()[-200:], expected=ex)
                return v
            v.nontrivial = True
            v.sample = {"family": fam, "op": op, "mode": mode, "n": n, "sum": ex}
            return v
        if mode == "withflag":
            # rows whose flag is not selected: "only operate on entries with
            # specific flag" - the row must still be a complete table row
            if run.rc == 0 and "out.tab" in run.files:
                pp = parse_table(run.files["out.tab"])
                if pp.malformed:
                    v.bad("combine/withflag-unselected-rows-blank",
                          "with --withflag the rows whose flag is not selected "
                          "are written without a y value (the output is not a "
                          "readable table)", first_bad_rows=pp.malformed[:3],
                          perl_warnings=run.err[:300])
                    return v
        p = basic_output_checks(v, fam, case, run, "out.tab", xs,
                                expect_flags=flags)
        if p is None:
            return v
        ops = 0
        for i in range(n):
            if wf is not None and flags[i] not in wf:
                # unselected: either input value is acceptable
                y = num(p.y[i])
                if not (close(y, float(y1[i]), 0) or close(y, float(y2[i]), 0)):
                    v.count("combine_withflag_unselected_value_other")
                continue
            ex, sc = value(i)
            ops += 1
            if not close(num(p.y[i]), ex, sc):
                v.bad("combine/formula", "y != (y1 op y2)*scale", row=i, op=op,
                      y1=y1[i], y2=y2[i], scale=scale, got=p.y[i], expected=ex)
                return v
        v.nontrivial = ops >= 1
        v.sample = {"family": fam, "op": op, "mode": mode, "n": n}
        return v
    c = Case("combine", "table_combine.pl", args, inputs,
             [] if mode.startswith("sum") else ["out.tab"], judge, ("table", "combine"),
             info)
    if mode in ("flagdiff",):
        c.csg_call_keys = None
    return c


# ---------------------------------------------------------------------------
# table_scale.pl
# ---------------------------------------------------------------------------

def gen_scale(rng):
    xs, xv, h = gen_grid(rng, long_ok=True)
    n = len(xs)
    ys = [fmt(y) for y in smooth_values(rng, xv)]
    flags = rand_flags(rng, n)
    p1 = fmt(rng.choice([rng.uniform(-3, 3), 1.0, 0.0]))
    p2 = fmt(rng.choice([rng.uniform(-3, 3), 1.0, 2.0]))
    sloppy = rng.random() < 0.12
    with_nan = inject_nan(rng, ys, flags)
    if sloppy:
        flags = ["i"] * n
        inputs = {"in.tab": "".join("%s\t%s\n" % (xs[i], ys[i]) for i in range(n))}
    else:
        inputs = {"in.tab": table_text(xs, ys, flags)}

    def judge(case, run):
        v = Verdict()
        fam = "scale"
        p = basic_output_checks(v, fam, case, run, "out.tab", xs,
                                expect_flags=flags)
        if p is None:
            return v
        P1, P2 = float(p1), float(p2)
        for i in range(n):
            t = i / (n - 1.0)
            y = float(ys[i])
            ex = y * (P1 + (P2 - P1) * t)
            if not close(num(p.y[i]), ex, abs(y) * (abs(P1) + abs(P2))):
                v.bad("scale/formula", "y_new != y*(p1 + (p2-p1)*i/(n-1))",
                      row=i, y=ys[i], p1=p1, p2=p2, got=p.y[i], expected=ex)
                return v
        v.nontrivial = P1 != P2
        v.sample = {"family": fam, "n": n, "p1": p1, "p2": p2}
        return v
    c = Case("scale", "table_scale.pl", ["in.tab", "out.tab", p1, p2], inputs,
             ["out.tab"], judge, ("table", "scale"),
             {"p1": p1, "p2": p2, "n": n, "sloppy": sloppy,
              "with_nan_entries": with_nan})
    if sloppy:
        c.env = {"VOTCA_TABLES_WITHOUT_FLAG": "yes"}
        c.csg_call_opts = ["--sloppy-tables"]
    return c


# ---------------------------------------------------------------------------
# generating functions for integration / differentiation
# ---------------------------------------------------------------------------

class Fn:
    """smooth f with derivatives, resolved by the grid (k*h small)"""

    def __init__(self, rng, x0, L, h):
        self.kind = rng.randint(0, 3)
        self.A = rng.uniform(0.5, 20) * rng.choice([1, -1])
        self.B = rng.uniform(-2, 2)
        self.x0 = x0
        kmax = 0.25 / h
        if self.kind == 0:        # sine
            self.k = min(rng.uniform(1, 12) / max(L, 1e-9), kmax)
            self.ph = rng.uniform(0, 6.28)
        elif self.kind == 1:      # exponential decay
            self.k = min(rng.uniform(0.5, 6) / max(L, 1e-9), kmax)
        elif self.kind == 2:      # cubic polynomial in t=(x-x0)/L
            self.c = [rng.uniform(-2, 2) for _ in range(4)]
            self.L = max(L, 1e-9)
        else:                     # rational
            self.s = rng.uniform(0.3, 2.0) + 6 * h

    def d(self, x, order=0):
        A, B = self.A, self.B
        if self.kind == 0:
            a = self.k * (x - self.x0) + self.ph
            return [A * math.sin(a) + B, A * self.k * math.cos(a),
                    -A * self.k ** 2 * math.sin(a),
                    -A * self.k ** 3 * math.cos(a)][order]
        if self.kind == 1:
            e = A * math.exp(-self.k * (x - self.x0))
            return [e + B, -self.k * e, self.k ** 2 * e, -self.k ** 3 * e][order]
        if self.kind == 2:
            t = (x - self.x0) / self.L
            c = self.c
            return [A * (c[0] + c[1] * t + c[2] * t * t + c[3] * t ** 3) + B,
                    A * (c[1] + 2 * c[2] * t + 3 * c[3] * t * t) / self.L,
                    A * (2 * c[2] + 6 * c[3] * t) / self.L ** 2,
                    A * 6 * c[3] / self.L ** 3][order]
        u = x - self.x0 + self.s
        return [A / u ** 2 + B, -2 * A / u ** 3, 6 * A / u ** 4,
                -24 * A / u ** 5][order]

    def describe(self):
        return {"kind": ["sin", "exp", "cubic", "rational"][self.kind],
                "A": self.A, "B": self.B}


def simpson(g, a, b, m=8):
    hh = (b - a) / (2 * m)
    s = g(a) + g(b)
    for j in range(1, 2 * m):
        s += (4 if j % 2 else 2) * g(a + j * hh)
    return s * hh / 3


def max_abs(g, a, b, m=400):
    return max(abs(g(a + (b - a) * j / m)) for j in range(m + 1))


# ---------------------------------------------------------------------------
# table_integrate.pl (against the exact integral of the generating function)
# ---------------------------------------------------------------------------

def gen_integrate(rng):
    opt = rng.choice(["", "", "S", "sphere", "S+sphere", "errors"])
    xs, xv, h = gen_grid(rng, positive=("S" in opt))
    n = len(xs)
    x0, L = xv[0], xv[-1] - xv[0]
    f = Fn(rng, x0, L, h)
    ys = [fmt(f.d(x)) for x in xv]
    flags = rand_flags(rng, n)
    frm = rng.choice(["right", "right", "left", None])
    kbt = fmt(rng.uniform(0.1, 10))
    args = []
    errs = None
    if "S" in opt:
        args += ["--with-S", "--kbT", kbt]
    if "sphere" in opt:
        args += ["--sphere"]
    if opt == "errors":
        args += ["--with-errors"]
        errs = [fmt(abs(rng.gauss(0, 0.1)) + 0.01) for _ in range(n)]
    if frm:
        args += ["--from", frm]
    args += ["in.tab", "out.tab"]
    inputs = {"in.tab": table_text(xs, ys, flags, errs)}
    info = {"option": opt, "from": frm, "kBT": kbt, "n": n, "h": h,
            "function": f.describe()}
    kT = float(kbt)

    def g(x):                       # the integrand the help text describes
        val = f.d(x)
        if "S" in opt:
            val += 2 * kT / x
        if "sphere" in opt:
            val *= x * x
        return val

    def judge(case, run):
        v = Verdict()
        fam = "integrate"
        p = basic_output_checks(v, fam, case, run, "out.tab", xs,
                                with_err=(opt == "errors"), expect_flags=flags)
        if p is None:
            return v
        # exact cumulative integral from the left end
        cum = [0.0]
        for i in range(1, n):
            cum.append(cum[-1] + simpson(g, xv[i - 1], xv[i]))
        # second derivative bound by finite differences on a fine grid
        eps = h / 8
        m2 = 0.0
        gmax = 0.0
        for j in range(8 * (n - 1) + 1):
            x = xv[0] + j * eps
            lo, hi = max(x - eps, xv[0]), min(x + eps, xv[-1])
            mid = 0.5 * (lo + hi)
            dd = (g(hi) - 2 * g(mid) + g(lo)) / ((hi - lo) / 2) ** 2
            m2 = max(m2, abs(dd))
            gmax = max(gmax, abs(g(x)))
        tol = 1.5 * L * h * h / 12 * m2 + 2e-9 * L * gmax + 1e-12
        right = (frm != "left")
        worst = 0.0
        big = 0.0
        for i in range(n):
            ex = cum[i] - cum[-1] if right else cum[i]
            big = max(big, abs(ex))
            err = abs(num(p.y[i]) - ex)
            worst = max(worst, err)
            if not err <= tol:
                v.bad("integrate/value", "the integrated table differs from the "
                      "integral of the tabulated function (zero at the %s end) "
                      "by more than the trapezoid discretisation bound"
                      % ("right" if right else "left"), row=i, r=xs[i],
                      got=p.y[i], expected=ex, bound=tol, option=opt,
                      function=f.describe())
                return v
        zero_row = n - 1 if right else 0
        if num(p.y[zero_row]) != 0.0:
            v.bad("integrate/zero-point", "the integral is not 0 at the end it "
                  "is integrated from", row=zero_row, got=p.y[zero_row])
            return v
        if opt == "errors":
            for i in range(n):
                e = num(p.err[i])
                if e is None or math.isnan(e) or e < 0:
                    v.bad("integrate/errors", "error column is not a non-"
                          "negative number", row=i, got=p.err[i])
                    return v
        v.nontrivial = big > 10 * tol
        v.maxes["integrate_max_error_over_bound_permille"] = int(1000 * worst / tol)
        v.sample = {"family": fam, "n": n, "h": h, "option": opt, "from": frm,
                    "max_error": worst, "bound": tol, "max_integral": big}
        return v
    return Case("integrate", "table_integrate.pl", args, inputs, ["out.tab"],
                judge, ("table", "integrate"), info)


# ---------------------------------------------------------------------------
# integrate <-> csg_resample --derivative
# ---------------------------------------------------------------------------

PAIR_C_INT_DER = 3.0      # |d/dr(trapezoid integral) - f| <= C * h^2 * max|f''|
PAIR_C_DER_INT = 3.0      # |integral(akima derivative) - (f - f_end)| <= C * L * h^2 * max|f'''|


def gen_pair(rng):
    order = rng.choice(["integrate_then_derive", "derive_then_integrate"])
    xs, xv, h = gen_grid(rng, nmin=8, nmax=600)
    n = len(xs)
    x0, L = xv[0], xv[-1] - xv[0]
    f = Fn(rng, x0, L, h)
    ys = [fmt(f.d(x)) for x in xv]
    flags = ["i"] * n
    frm = rng.choice(["right", "left"])
    grid = "%s:%s:%s" % (xs[0], fmt(h), xs[-1])
    inputs = {"in.tab": table_text(xs, ys, flags)}
    info = {"order": order, "from": frm, "n": n, "h": h,
            "function": f.describe(), "grid": grid}
    m2 = max_abs(lambda x: f.d(x, 2), xv[0], xv[-1])
    m3 = max_abs(lambda x: f.d(x, 3), xv[0], xv[-1])
    fmax = max_abs(lambda x: f.d(x, 0), xv[0], xv[-1])

    def judge(case, run):
        v = Verdict()
        fam = "pair_" + order
        if run.rc != 0 or run.rc2 != 0:
            v.bad(fam + "/stage-failed", "table_integrate.pl or csg_resample "
                  "fails on a smooth table", rc=[run.rc, run.rc2],
                  stderr=(run.err + run.err2)[-1200:])
            return v
        text = run.files.get("final.tab")
        if text is None:
            v.bad(fam + "/no-output", "no final table")
            return v
        p = parse_table(text)
        if p.malformed or len(p.x) != n or any(
                abs(num(p.x[i]) - xv[i]) > 1e-9 * (1 + abs(xv[i])) for i in range(n)):
            # "return tables on the same grid": never observed on the unchanged
            # tree over 16000 thorough cases, so it is judged
            v.bad("pair/grid-differs", "integration + differentiation through "
                  "csg_resample does not return a table on the input grid",
                  rows_got=len(p.x), rows_expected=n, grid=grid)
            return v
        worst = 0.0
        if order == "integrate_then_derive":
            tol = PAIR_C_INT_DER * h * h * m2 + 1e-7 * fmax / h * 1e-2 + 1e-9
            for i in range(n):
                err = abs(num(p.y[i]) - f.d(xv[i]))
                worst = max(worst, err)
                if not err <= tol:
                    v.bad("pair/integrate-then-differentiate", "table_integrate "
                          "followed by csg_resample --derivative does not "
                          "return the input within the discretisation bound "
                          "C*h^2*max|f''|", row=i, r=xs[i], got=p.y[i],
                          expected=f.d(xv[i]), bound=tol, h=h,
                          function=f.describe())
                    return v
            v.nontrivial = max_abs(lambda x: f.d(x, 0), xv[0], xv[-1]) > 10 * tol
        else:
            tol = PAIR_C_DER_INT * L * h * h * m3 + 1e-8 * fmax + 1e-9
            ref = f.d(xv[-1]) if frm == "right" else f.d(xv[0])
            for i in range(n):
                err = abs(num(p.y[i]) - (f.d(xv[i]) - ref))
                worst = max(worst, err)
                if not err <= tol:
                    v.bad("pair/differentiate-then-integrate", "csg_resample "
                          "--derivative followed by table_integrate does not "
                          "return the input (up to its value at the zero "
                          "point) within C*L*h^2*max|f'''|", row=i, r=xs[i],
                          got=p.y[i], expected=f.d(xv[i]) - ref, bound=tol,
                          h=h, function=f.describe())
                    return v
            span = max(abs(f.d(x) - ref) for x in xv)
            v.nontrivial = span > 10 * tol
        v.maxes[fam + "_max_error_over_bound_permille"] = int(1000 * worst / tol)
        v.sample = {"family": fam, "n": n, "h": h, "from": frm,
                    "max_error": worst, "bound": tol}
        return v
    c = Case("pair", "table_integrate.pl", ["--from", frm], inputs,
             ["final.tab"], judge, None, info)
    c.pair = {"order": order, "grid": grid, "from": frm}
    return c


# ---------------------------------------------------------------------------
# potential_shift.pl
# ---------------------------------------------------------------------------

def gen_shift(rng):
    xs, xv, h = gen_grid(rng, long_ok=True)
    n = len(xs)
    yv = smooth_values(rng, xv)
    flags = rand_flags(rng, n)
    typ = rng.choice([None, "non-bonded", "bond", "angle", "dihedral", "bonded"])
    if typ in ("bond", "angle", "dihedral", "bonded") and n >= 6 and rng.random() < 0.5:
        # out-of-range head and tail (flags o / u) whose values lie below the
        # valid region, the head lowest: every reading of "the minimum" that
        # mixes valid and invalid points differently gives a different shift
        a = rng.randint(1, max(1, n // 4))
        b = rng.randint(1, max(1, n // 4))
        lo = min(yv) - rng.uniform(0.5, 3.0) * (1.0 + max(abs(y) for y in yv))
        flags = [rng.choice("ou")] * a + ["i"] * (n - a - b) + [rng.choice("ou")] * b
        for j in range(a):
            yv[j] = 2 * lo - rng.uniform(0, 1)
        for j in range(n - b, n):
            yv[j] = lo + rng.uniform(0, 0.3)
        if rng.random() < 0.3 and n - a - b >= 3:   # an interior gap as well
            g = rng.randint(a + 1, n - b - 2)
            flags[g] = "u"
            yv[g] = lo - rng.uniform(0, 0.2)
    ys = [fmt(y) for y in yv]
    with_nan = inject_nan(rng, ys, flags, 0.2)
    args = (["--type", typ] if typ else []) + ["in.pot", "out.pot"]
    inputs = {"in.pot": table_text(xs, ys, flags)}

    def judge(case, run):
        v = Verdict()
        fam = "shift"
        Y = [float(s) for s in ys]
        bonded = typ in ("bond", "angle", "dihedral", "bonded")
        if bonded and "i" not in flags:
            v.count("shift_dontcare_no_valid_point")
            return v
        p = basic_output_checks(v, fam, case, run, "out.pot", xs,
                                expect_flags=flags)
        if p is None:
            return v
        if bonded:
            zeros = {min(Y[i] for i in range(n) if flags[i] == "i"),
                     min(finite(Y))}
        else:
            zeros = {Y[-1]}
        if len(zeros) > 1:
            v.count("shift_minimum_outside_valid_region_either_accepted")
        sc = max(abs(y) for y in finite(Y))
        ok = False
        for z in zeros:
            if all(close(num(p.y[i]), Y[i] - z, sc) for i in range(n)):
                ok = True
        if not ok:
            z = sorted(zeros, key=str)[0]
            i = [k for k in range(n) if not close(num(p.y[k]), Y[k] - z, sc)][0]
            v.bad("shift/formula", "the table is not the input shifted by its "
                  "%s" % ("minimum" if bonded else "last value"), row=i,
                  got=p.y[i], expected=Y[i] - z, type=typ)
            return v
        v.nontrivial = any(z != 0.0 for z in zeros)
        v.sample = {"family": fam, "n": n, "type": typ,
                    "shift": sorted(zeros, key=str)[0], "nan_entries": with_nan}
        return v
    return Case("shift", "potential_shift.pl", args, inputs, ["out.pot"], judge,
                ("potential", "shift"), {"type": typ, "n": n})


# ---------------------------------------------------------------------------
# table_smooth.pl
# ---------------------------------------------------------------------------

def smooth_step_check(v, Y, out, flags, expect_smoothing, step=None):
    """what every 3-point smoother satisfies (table_smooth.pl documents no
    formula): each value within the range of the input at the point and its
    two neighbours; for all-i tables the total variation does not grow.
    Rows whose neighbourhood holds a nan entry are not judged."""
    n = len(Y)
    sc = max([abs(y) for y in finite(Y)] + [0.0]) + 1e-300
    for i in range(n):
        nb = Y[max(0, i - 1):i + 2]
        if any(y != y for y in nb):
            continue
        lo, hi = min(nb), max(nb)
        if out[i] is None or not (lo - 1e-11 * sc <= out[i] <= hi + 1e-11 * sc):
            v.bad("smooth/not-a-local-average", "a smoothed value lies "
                  "outside the range of the input at the point and its two "
                  "neighbours", row=i, got=out[i], neighbourhood=nb,
                  smoothing_pass=step)
            return False
    if all(f == "i" for f in flags):
        tv_in = sum(abs(Y[i + 1] - Y[i]) for i in range(n - 1))
        tv_out = sum(abs(out[i + 1] - out[i]) for i in range(n - 1))
        if tv_out > tv_in * (1 + 1e-9) + 1e-11 * sc:
            v.bad("smooth/variation-increased", "total variation of the "
                  "smoothed table exceeds that of the input",
                  tv_in=tv_in, tv_out=tv_out, smoothing_pass=step)
            return False
        v.nontrivial = tv_in > 0 and tv_out < tv_in * (1 - 1e-9)
        if expect_smoothing and n >= 5 and not tv_out < tv_in:
            v.bad("smooth/no-smoothing", "a noisy table is returned "
                  "unsmoothed", tv_in=tv_in, tv_out=tv_out, smoothing_pass=step)
            return False
    else:
        v.nontrivial = any(not close(out[i], Y[i], sc) for i in range(n))
    return True


def gen_smooth(rng):
    xs, xv, h = gen_grid(rng, long_ok=True)
    n = len(xs)
    kind = rng.choice(["noisy", "constant", "smooth"])
    if kind == "constant":
        c = rng.uniform(-5, 5)
        yv = [c] * n
    elif kind == "noisy":
        base = smooth_values(rng, xv)
        yv = [b + rng.gauss(0, 0.3) for b in base]
    else:
        yv = smooth_values(rng, xv)
    ys = [fmt(y) for y in yv]
    flags = rand_flags(rng, n)
    inject_nan(rng, ys, flags, 0.2)
    inputs = {"in.tab": table_text(xs, ys, flags)}

    def judge(case, run):
        v = Verdict()
        fam = "smooth"
        p = basic_output_checks(v, fam, case, run, "out.tab", xs,
                                expect_flags=flags)
        if p is None:
            return v
        Y = [float(s) for s in ys]
        out = [num(s) for s in p.y]
        if not smooth_step_check(v, Y, out, flags, kind == "noisy"):
            return v
        v.sample = {"family": fam, "n": n, "kind": kind}
        return v
    return Case("smooth", "table_smooth.pl", ["in.tab", "out.tab"], inputs,
                ["out.tab"], judge, ("table", "smooth"), {"kind": kind, "n": n})


# ---------------------------------------------------------------------------
# table_extrapolate.pl
# ---------------------------------------------------------------------------

def extrap_expected(xv, Y, flags, a, b, func, A, C, region, noflag):
    """table_extrapolate.pl by its help text: [a, b] = first/last row flagged
    i; rows left of a / right of b follow the named function through
    (x0, y0) = the border point with slope m = (y[i+A]-y[i])/(x[i+A]-x[i]);
    their flag becomes i unless --no-flagupdate; everything else is kept."""
    n = len(xv)
    do_l = region in (None, "left", "leftright")
    do_r = region in (None, "right", "leftright")
    eflags = list(flags)
    if not noflag:
        for i in range(n):
            if (i < a and do_l) or (i > b and do_r):
                eflags[i] = "i"

    def ext(x0, y0, m, x):
        if func == "constant":
            return y0
        if func in ("linear", "periodic"):
            return m * (x - x0) + y0
        if func == "quadratic":
            aa = m / (2 * C) - x0
            bb = y0 - m * m / (4 * C)
            return C * (x + aa) ** 2 + bb
        if func == "exponential":
            return y0 * math.exp(-m * x0 / y0) * math.exp(m / y0 * x)
        bb = x0 - 2 * y0 / m                      # sasha
        return m * m / (4 * y0) * (x - bb) ** 2
    exp_y = list(Y)
    if do_l and a > 0:
        m = 0.0 if func == "constant" else \
            (Y[a + A] - Y[a]) / (xv[a + A] - xv[a])
        for i in range(a):
            exp_y[i] = ext(xv[a], Y[a], m, xv[i])
    if do_r and b < n - 1:
        if func == "constant":
            m = 0.0
        elif func == "periodic":
            m = (exp_y[0] - Y[b]) / (xv[-1] - xv[b])
        else:
            m = (Y[b] - Y[b - A]) / (xv[b] - xv[b - A])
        for i in range(b + 1, n):
            exp_y[i] = ext(xv[b], Y[b], m, xv[i])
    inner = [a <= i <= b or (i < a and not do_l) or (i > b and not do_r)
             for i in range(n)]
    return exp_y, eflags, inner


def extrap_table(rng, nmin=14, nmax=400):
    """a table for extrapolation: rows a..b flagged i (sometimes a = 0 or
    b = n-1: nothing to do on that side; sometimes o/u holes inside), o/u
    flanks holding arbitrary numbers or nan"""
    xs, xv, h = gen_grid(rng, nmin=nmin, nmax=nmax, positive=True)
    n = len(xs)
    A = rng.randint(1, 5)
    a = rng.randint(1, max(1, n // 4))
    b = n - 1 - rng.randint(1, max(1, n // 4))
    if rng.random() < 0.12:
        a = 0                      # first row already valid
    if rng.random() < 0.12:
        b = n - 1                  # last row already valid
    if b - a < A + 2:
        a, b = 2, n - 3
    L = xv[-1] - xv[0]
    # positive, strictly monotone inner data (exponential/sasha need y0 != 0, m != 0)
    k = rng.uniform(0.5, 3) / L
    amp = rng.uniform(0.5, 20)
    sgn = rng.choice([1, -1])
    yv = [amp * math.exp(-sgn * k * (x - xv[0])) + 0.1 for x in xv]
    flags = ["i" if a <= i <= b else rng.choice("ou") for i in range(n)]
    holes = 0
    if rng.random() < 0.3 and b - a > 6:
        for _ in range(rng.randint(1, 3)):
            flags[rng.randint(a + 1, b - 1)] = rng.choice("ou")
            holes += 1
    ys = [fmt(yv[i]) if a <= i <= b else fmt(rng.uniform(-99, 99))
          for i in range(n)]
    nan_flanks = rng.random() < 0.3
    if nan_flanks:
        for i in list(range(a)) + list(range(b + 1, n)):
            if rng.random() < 0.6:
                ys[i] = rng.choice(["nan", "-nan", "NaN"])
    return xs, xv, ys, flags, a, b, A, L, {"holes": holes, "nan_flanks": nan_flanks}


def extrap_options(rng):
    fn = rng.choice(["constant", "linear", "quadratic", "quadratic",
                     "exponential", "sasha", "periodic", None])
    region = rng.choice(["left", "right", "leftright", None])
    curv = rng.choice([None, None, fmt(rng.uniform(10, 5000))])
    noflag = rng.random() < 0.25
    return fn, region, curv, noflag


def extrap_args(A, fn, region, curv, noflag):
    args = ["--avgpoints", str(A)]
    if fn:
        args += ["--function", fn]
    if region:
        args += ["--region", region]
    if curv:
        args += ["--curvature", curv]
    if noflag:
        args += ["--no-flagupdate"]
    return args


def gen_extrapolate(rng):
    xs, xv, ys, flags, a, b, A, L, extra = extrap_table(rng)
    n = len(xs)
    fn, region, curv, noflag = extrap_options(rng)
    args = extrap_args(A, fn, region, curv, noflag) + ["in.tab", "out.tab"]
    inputs = {"in.tab": table_text(xs, ys, flags)}
    info = {"function": fn, "region": region, "avgpoints": A, "curvature": curv,
            "no_flagupdate": noflag, "n": n, "valid": [a, b]}
    info.update(extra)

    def judge(case, run):
        v = Verdict()
        fam = "extrapolate"
        Y = [float(s) for s in ys]
        C = float(curv) if curv else 10000.0
        func = fn or "quadratic"
        exp_y, eflags, inner = extrap_expected(xv, Y, flags, a, b, func, A, C,
                                               region, noflag)
        p = basic_output_checks(v, fam, case, run, "out.tab", xs,
                                expect_flags=eflags)
        if p is None:
            return v
        nex = 0
        for i in range(n):
            if not inner[i]:
                nex += 1
            sc = abs(exp_y[i]) + (0 if inner[i] else abs(Y[a]) + abs(Y[b]) +
                                  C * L * L * (func == "quadratic"))
            if not close(num(p.y[i]), exp_y[i], sc, 1e-11 if inner[i] else 1e-7):
                v.bad("extrapolate/" + ("inner-values-changed" if inner[i] else
                                        "formula"),
                      "values outside the extrapolated region changed" if inner[i]
                      else "extrapolated value differs from the formula of the "
                      "help text (%s)" % func, row=i, r=xs[i], got=p.y[i],
                      expected=exp_y[i], function=func, avgpoints=A,
                      region=region)
                return v
        if func == "periodic" and region in (None, "right", "leftright") \
                and b < n - 1:
            if not close(num(p.y[-1]), num(p.y[0]), abs(Y[a]) + abs(Y[b]), 1e-7):
                v.bad("extrapolate/periodic-end", "periodic: the right end does "
                      "not end at the first point of the left side",
                      first=p.y[0], last=p.y[-1])
                return v
        v.nontrivial = nex >= 1
        v.sample = {"family": fam, "n": n, "function": func, "region": region,
                    "avgpoints": A, "extrapolated_points": nex}
        return v
    return Case("extrapolate", "table_extrapolate.pl", args, inputs,
                ["out.tab"], judge, ("table", "extrapolate"), info)



# ---------------------------------------------------------------------------
# table compare = table_combine.pl --die --op = [--error ERR]
# ---------------------------------------------------------------------------

def gen_compare(rng):
    xs, xv, h = gen_grid(rng)
    n = len(xs)
    yv = [y if abs(y) > 0.1 else 0.5 for y in smooth_values(rng, xv)]
    y1 = [fmt(y) for y in yv]
    flags = rand_flags(rng, n)
    kind = rng.choice(["identical", "rel1e-3", "rel1e-3_loose", "one_row"])
    eps = None
    y2 = list(y1)
    k = rng.randrange(n)
    if kind in ("rel1e-3", "rel1e-3_loose"):
        y2 = [fmt(float(t) * 1.001) for t in y1]
        if kind == "rel1e-3_loose":
            eps = "0.01"           # 10x above the deviation -> equal
    elif kind == "one_row":
        y2[k] = fmt(float(y1[k]) * 1.5 + 1.0)
        eps = rng.choice([None, "1e-7"])
    expect_equal = kind in ("identical", "rel1e-3_loose")
    args = (["--error", eps] if eps else []) + ["a.tab", "b.tab"]
    inputs = {"a.tab": table_text(xs, y1, flags), "b.tab": table_text(xs, y2, flags)}
    info = {"kind": kind, "error": eps, "n": n, "expect_equal": expect_equal}

    def judge(case, run):
        v = Verdict()
        if expect_equal and run.rc != 0:
            v.bad("compare/equal-tables-reported-different", "table compare "
                  "(table_combine.pl --die --op =) dies for tables that agree "
                  "within the relative error", kind=kind, error=eps,
                  stderr=run.err[-500:])
        elif not expect_equal and run.rc == 0:
            v.bad("compare/different-tables-accepted", "table compare does not "
                  "die although the tables differ by more than the relative "
                  "error", kind=kind, error=eps, row=k)
        v.nontrivial = kind != "identical"
        v.sample = {"family": "compare", "kind": kind, "error": eps, "n": n,
                    "rc": run.rc}
        return v
    c = Case("compare", "table_combine.pl", ["--die", "--op", "="] + args,
             inputs, [], judge, ("table", "compare"), info)
    c.csg_call_args = args          # csg_table supplies "--die --op ="
    c.expect_rc_nonzero = not expect_equal
    return c


# ---------------------------------------------------------------------------
# table_combine.pl on tables with nan entries in undefined (o/u) rows
# ---------------------------------------------------------------------------

def gen_combine_nan(rng):
    xs, xv, h = gen_grid(rng, nmin=6)
    n = len(xs)
    y1 = [fmt(y) for y in smooth_values(rng, xv)]
    y2 = [fmt(y) if abs(y) > 1e-3 else "0.5" for y in smooth_values(rng, xv)]
    a = rng.randint(1, max(1, n // 3))
    flags = ["u"] * a + ["i"] * (n - a)
    for i in range(a):
        if rng.random() < 0.7 or i == 0:
            y1[i] = rng.choice(["nan", "-nan", "NaN"])
        if rng.random() < 0.5:
            y2[i] = rng.choice(["nan", "-nan"])
    op = rng.choice(["+", "-", "x", "/", "d", "d2"])
    args = ["--op", op, "a.tab", "b.tab", "out.tab"]
    inputs = {"a.tab": table_text(xs, y1, flags), "b.tab": table_text(xs, y2, flags)}

    def judge(case, run):
        v = Verdict()
        fam = "combine_nan"
        if run.rc != 0 and "Could not calculate" in run.err:
            v.bad("combine/nan-entry-arithmetic-dies", "table_combine.pl --op "
                  "%s dies on tables whose undefined (u) rows hold nan: the "
                  "value is pasted into an eval string as a bareword" % op,
                  op=op, stderr=run.err[-400:])
            return v
        p = basic_output_checks(v, fam, case, run, "out.tab", xs,
                                expect_flags=flags)
        if p is None:
            return v
        for i in range(n):
            u, w = float(y1[i]), float(y2[i])
            ex = {"+": u + w, "-": u - w, "x": u * w, "/": u / w,
                  "d": abs(u - w), "d2": (u - w) ** 2}[op]
            if not close(num(p.y[i]), ex, abs(u) + abs(w)):
                v.bad("combine/formula", "y != y1 op y2 (tables with nan "
                      "entries)", row=i, op=op, y1=y1[i], y2=y2[i], got=p.y[i],
                      expected=ex)
                return v
        v.nontrivial = True
        v.sample = {"family": fam, "op": op, "n": n, "nan_rows": a}
        return v
    return Case("combine_nan", "table_combine.pl", args, inputs, ["out.tab"],
                judge, ("table", "combine"), {"op": op, "n": n, "nan_rows": a})


# ---------------------------------------------------------------------------
# pipelines: the output of one script is the input of the next one
# ---------------------------------------------------------------------------

def gen_pipeline(rng):
    kind = rng.choice(["linearop_combine_scale", "linearop_combine_scale",
                       "extrapolate_shift", "smooth_n", "linearop_twice",
                       "integrate_negate", "scale_twice_same_file"])
    if kind in ("linearop_combine_scale", "linearop_twice",
                "scale_twice_same_file"):
        xs, xv, h = gen_grid(rng)
        n = len(xs)
        y0 = [fmt(y) for y in smooth_values(rng, xv)]
        y2 = [fmt(y) for y in smooth_values(rng, xv)]
        flags = rand_flags(rng, n)
        a = fmt(rng.uniform(-3, 3))
        b = fmt(rng.uniform(-5, 5))
        a2 = fmt(rng.uniform(-3, 3))
        b2 = fmt(rng.uniform(-5, 5))
        wf = rng.choice([None, None, "i", "ou"])
        op = rng.choice(["+", "-", "x", "d"])
        p1 = fmt(rng.uniform(-2, 2))
        p2 = fmt(rng.uniform(-2, 2))
        inputs = {"in.tab": table_text(xs, y0, flags,
                                       comment="# start" if rng.random() < 0.5 else None),
                  "b.tab": table_text(xs, y2, flags)}
        wfa = ["--withflag", wf] if wf else []
        if kind == "linearop_combine_scale":
            stages = [("table_linearop.pl", wfa + ["in.tab", "t1.tab", a, b], ("table", "linearop")),
                      ("table_combine.pl", ["--op", op, "t1.tab", "b.tab", "t2.tab"], ("table", "combine")),
                      ("table_scale.pl", ["t2.tab", "final.tab", p1, p2], ("table", "scale"))]
        elif kind == "linearop_twice":
            stages = [("table_linearop.pl", wfa + ["in.tab", "t1.tab", a, b], ("table", "linearop")),
                      ("table_linearop.pl", ["t1.tab", "final.tab", a2, b2], ("table", "linearop"))]
        else:
            # the same script twice, second run reads the first run's output
            stages = [("table_scale.pl", ["in.tab", "t1.tab", p1, p2], ("table", "scale")),
                      ("table_scale.pl", ["t1.tab", "final.tab", p2, p1], ("table", "scale"))]
        info = {"kind": kind, "n": n, "a": a, "b": b, "a2": a2, "b2": b2,
                "withflag": wf, "op": op, "p1": p1, "p2": p2}

        def judge(case, run):
            v = Verdict()
            fam = "pipeline_" + kind
            p = basic_output_checks(v, fam, case, run, "final.tab", xs,
                                    expect_flags=flags)
            if p is None:
                return v
            A, B, A2, B2 = float(a), float(b), float(a2), float(b2)
            P1, P2 = float(p1), float(p2)
            for i in range(n):
                y = float(y0[i])
                t = i / (n - 1.0)
                if kind == "linearop_combine_scale":
                    sel = wf is None or flags[i] in wf
                    t1 = A * y + B if sel else y
                    w = float(y2[i])
                    t2 = {"+": t1 + w, "-": t1 - w, "x": t1 * w,
                          "d": abs(t1 - w)}[op]
                    ex = t2 * (P1 + (P2 - P1) * t)
                    sc = (abs(A * y) + abs(B) + abs(w) + abs(A * y * w) +
                          abs(B * w)) * (abs(P1) + abs(P2))
                elif kind == "linearop_twice":
                    sel = wf is None or flags[i] in wf
                    t1 = A * y + B if sel else y
                    ex = A2 * t1 + B2
                    sc = abs(A2) * (abs(A * y) + abs(B)) + abs(B2)
                else:
                    ex = y * (P1 + (P2 - P1) * t) * (P2 + (P1 - P2) * t)
                    sc = abs(y) * (abs(P1) + abs(P2)) ** 2
                if not close(num(p.y[i]), ex, sc, 1e-10):
                    v.bad("pipeline/" + kind, "the composed closed form of the "
                          "scripts' help texts does not describe the result of "
                          "running them one after the other", row=i, r=xs[i],
                          got=p.y[i], expected=ex, y_in=y0[i], flag=flags[i],
                          info=info)
                    return v
            v.nontrivial = True
            v.sample = {"family": fam, "n": n, "stages": len(stages)}
            return v
        c = Case("pipeline", stages[0][0], stages[0][1], inputs, ["final.tab"],
                 judge, None, info)
        c.stages = stages
        return c
    if kind == "smooth_n":
        xs, xv, h = gen_grid(rng)
        n = len(xs)
        base = smooth_values(rng, xv)
        ys = [fmt(bv + rng.gauss(0, 0.3)) for bv in base]
        flags = rand_flags(rng, n)
        k = rng.randint(2, 5)
        names = ["in.tab"] + ["s%d.tab" % j for j in range(1, k + 1)]
        stages = [("table_smooth.pl", [names[j], names[j + 1]], ("table", "smooth"))
                  for j in range(k)]
        inputs = {"in.tab": table_text(xs, ys, flags)}
        info = {"kind": kind, "n": n, "passes": k}

        def judge(case, run):
            v = Verdict()
            fam = "pipeline_smooth_n"
            prev = [float(t) for t in ys]
            tv = []
            for j in range(1, k + 1):
                p = basic_output_checks(v, fam, case, run, names[j], xs,
                                        expect_flags=flags)
                if p is None:
                    return v
                out = [num(t) for t in p.y]
                if not smooth_step_check(v, prev, out, flags, False, step=j):
                    return v
                tv.append(sum(abs(out[i + 1] - out[i]) for i in range(n - 1)))
                prev = out
            v.nontrivial = True
            v.sample = {"family": fam, "n": n, "passes": k,
                        "total_variation_per_pass": tv[:5]}
            return v
        c = Case("pipeline", stages[0][0], stages[0][1], inputs, names[1:],
                 judge, None, info)
        c.stages = stages
        return c
    if kind == "extrapolate_shift":
        xs, xv, ys, flags, a, b, A, L, extra = extrap_table(rng, nmax=300)
        n = len(xs)
        fn = rng.choice(["constant", "linear", "quadratic", None])
        region = rng.choice(["leftright", None, "left", "right"])
        curv = rng.choice([None, fmt(rng.uniform(10, 5000))])
        typ = rng.choice([None, "non-bonded", "bond", "bonded", "angle"])
        stages = [("table_extrapolate.pl", extrap_args(A, fn, region, curv, False) +
                   ["in.tab", "t1.tab"], ("table", "extrapolate")),
                  ("potential_shift.pl", (["--type", typ] if typ else []) +
                   ["t1.tab", "final.tab"], ("potential", "shift"))]
        inputs = {"in.tab": table_text(xs, ys, flags)}
        info = {"kind": kind, "n": n, "function": fn, "region": region,
                "avgpoints": A, "curvature": curv, "type": typ, "valid": [a, b]}
        info.update(extra)

        def judge(case, run):
            v = Verdict()
            fam = "pipeline_extrapolate_shift"
            Y = [float(t) for t in ys]
            C = float(curv) if curv else 10000.0
            func = fn or "quadratic"
            e1, eflags, inner = extrap_expected(xv, Y, flags, a, b, func, A, C,
                                                region, False)
            p = basic_output_checks(v, fam, case, run, "final.tab", xs,
                                    expect_flags=eflags)
            if p is None:
                return v
            bonded = typ in ("bond", "bonded", "angle")
            if bonded:
                zi = [e1[i] for i in range(n) if eflags[i] == "i"]
                zeros = {min(zi)} | ({min(finite(e1))} if finite(e1) else set())
            else:
                zeros = {e1[-1]}
            big = max(abs(t) for t in finite(e1))
            ok = False
            for z in zeros:
                if all(close(num(p.y[i]), e1[i] - z, big + abs(z) if z == z else big,
                             1e-7) for i in range(n)):
                    ok = True
            if not ok:
                z = sorted(zeros, key=str)[0]
                i = [j for j in range(n)
                     if not close(num(p.y[j]), e1[j] - z, big, 1e-7)][0]
                v.bad("pipeline/extrapolate_shift", "extrapolation followed by "
                      "potential_shift is not the extrapolated table minus its "
                      "%s" % ("minimum" if bonded else "last value"), row=i,
                      got=p.y[i], expected=e1[i] - z, info=info)
                return v
            v.nontrivial = True
            v.sample = {"family": fam, "n": n, "function": func, "type": typ}
            return v
        c = Case("pipeline", stages[0][0], stages[0][1], inputs, ["final.tab"],
                 judge, None, info)
        c.stages = stages
        return c
    # integrate_negate: "the force is the NEGATIVE integral of the potential
    # (use 'table linearop' and multiply the table with -1)"
    xs, xv, h = gen_grid(rng, nmin=5, nmax=400)
    n = len(xs)
    x0, L = xv[0], xv[-1] - xv[0]
    f = Fn(rng, x0, L, h)
    ys = [fmt(f.d(x)) for x in xv]
    flags = rand_flags(rng, n)
    stages = [("table_integrate.pl", ["in.tab", "t1.tab"], ("table", "integrate")),
              ("table_linearop.pl", ["t1.tab", "final.tab", "-1", "0"], ("table", "linearop"))]
    inputs = {"in.tab": table_text(xs, ys, flags)}
    info = {"kind": kind, "n": n, "h": h, "function": f.describe()}

    def judge(case, run):
        v = Verdict()
        fam = "pipeline_integrate_negate"
        p = basic_output_checks(v, fam, case, run, "final.tab", xs,
                                expect_flags=flags)
        if p is None:
            return v
        cum = [0.0]
        for i in range(1, n):
            cum.append(cum[-1] + simpson(f.d, xv[i - 1], xv[i]))
        m2 = max_abs(lambda x: f.d(x, 2), xv[0], xv[-1])
        gmax = max_abs(lambda x: f.d(x, 0), xv[0], xv[-1])
        tol = 1.5 * L * h * h / 12 * m2 + 2e-9 * L * gmax + 1e-12
        for i in range(n):
            ex = -(cum[i] - cum[-1])
            if not abs(num(p.y[i]) - ex) <= tol:
                v.bad("pipeline/integrate_negate", "table integrate followed by "
                      "table linearop -1 0 is not minus the integral (zero at "
                      "the right end) within the trapezoid bound", row=i,
                      got=p.y[i], expected=ex, bound=tol, info=info)
                return v
        v.nontrivial = True
        v.sample = {"family": fam, "n": n, "h": h}
        return v
    c = Case("pipeline", stages[0][0], stages[0][1], inputs, ["final.tab"],
             judge, None, info)
    c.stages = stages
    return c


GENERATORS = [("ibi", gen_ibi, 4), ("boltzmann", gen_boltzmann, 3),
              ("linearop", gen_linearop, 2), ("combine", gen_combine, 3),
              ("scale", gen_scale, 1), ("integrate", gen_integrate, 3),
              ("pair", gen_pair, 3), ("shift", gen_shift, 1),
              ("smooth", gen_smooth, 1), ("extrapolate", gen_extrapolate, 2),
              ("compare", gen_compare, 1), ("combine_nan", gen_combine_nan, 1),
              ("pipeline", gen_pipeline, 4)]

# key pairs of csg_table that the families above dispatch through csg_call,
# with the script each pair stands for in the manual
DISPATCH = {("update", "ibi_pot"): "update_ibi_pot.pl",
            ("dist", "invert"): "dist_boltzmann_invert.pl",
            ("table", "integrate"): "table_integrate.pl",
            ("table", "extrapolate"): "table_extrapolate.pl",
            ("table", "smooth"): "table_smooth.pl",
            ("table", "linearop"): "table_linearop.pl",
            ("table", "combine"): "table_combine.pl",
            ("table", "compare"): "table_combine.pl --die --op =",
            ("table", "scale"): "table_scale.pl",
            ("potential", "shift"): "potential_shift.pl"}

HELP_SCRIPTS = ["update_ibi_pot.pl", "dist_boltzmann_invert.pl",
                "table_integrate.pl", "table_linearop.pl", "table_combine.pl",
                "table_scale.pl", "potential_shift.pl", "table_smooth.pl",
                "table_extrapolate.pl"]


def schedule():
    order = []
    for name, g, w in GENERATORS:
        order += [(name, g)] * w
    return order
