#!/usr/bin/env python3-vt
"""C04 oracle + workload generator (DESIGN.md §5 C04), run with python3-vt.

  python3-vt c04_oracle.py worker --seed S --shard K --n N --scratch DIR --exe CSG_STAT
  python3-vt c04_oracle.py replay <witness.json> --exe CSG_STAT --scratch DIR

A worker generates N cases (topology xml, optional mapping xml, .dump/.gro
trajectory, options xml, targets), runs the real csg_stat on each, recomputes
every output file with numpy from the *written* input texts (documented
formulas only, nothing is taken from VOTCA), compares to printed precision and
prints JSON lines (violation / abnormal / summary) on stdout.
"""
import hashlib
import json
import math
import os
import shutil
import subprocess
import sys
import time

import numpy as np

HERE = os.path.dirname(os.path.abspath(__file__))
sys.path.insert(0, HERE)

EDGE_BAND = 1e-6          # generator rejects values this close to a bin edge
TYPES = ["A", "B", "C"]
TB_PATTERNS = ["AAA", "ABB", "ABC", "AAB", "ABA"]


# ----------------------------------------------------------------------------
# small helpers
# ----------------------------------------------------------------------------

def dec(x, nd=4):
    """decimal text of a grid parameter (exact in the xml, short)"""
    s = ("%.*f" % (nd, x)).rstrip("0")
    if s.endswith("."):
        s += "0"
    if s == "-0.0":
        s = "0.0"
    return s


def min_image(d, box):
    return d - box * np.round(d / box)


def nbins_of(mn, mx, step):
    return int(round((mx - mn) / step)) + 1


def bin_index(v, mn, step):
    """index of the nearest bin centre mn + i*step"""
    return np.floor((v - mn) / step + 0.5).astype(np.int64)


def edge_distance(v, mn, step):
    """distance of v to the nearest bin edge mn + (k+1/2) step"""
    t = (v - mn) / step + 0.5
    return np.abs(t - np.round(t)) * step


def print_tol(v, digits):
    """half a unit of the last printed digit of v (C++ stream, `digits`
    significant digits)"""
    a = np.abs(np.asarray(v, dtype=float))
    with np.errstate(divide="ignore"):
        e = np.where(a > 0, np.floor(np.log10(np.where(a > 0, a, 1.0))), 0.0)
    return np.where(a > 0, 0.5 * 10.0 ** (e - digits + 1), 0.0)


# ----------------------------------------------------------------------------
# geometry of the internal coordinates (independent re-implementation)
# ----------------------------------------------------------------------------

def bond_value(p, box):
    return np.linalg.norm(min_image(p[1] - p[0], box))


def angle_value(p, box):
    v1 = min_image(p[0] - p[1], box)
    v2 = min_image(p[2] - p[1], box)
    c = np.dot(v1, v2) / (np.linalg.norm(v1) * np.linalg.norm(v2))
    return math.acos(max(-1.0, min(1.0, c))), c


def dihedral_value(p, box):
    v1 = min_image(p[1] - p[0], box)
    v2 = min_image(p[2] - p[1], box)
    v3 = min_image(p[3] - p[2], box)
    n1 = np.cross(v1, v2)
    n2 = np.cross(v2, v3)
    l1, l2 = np.linalg.norm(n1), np.linalg.norm(n2)
    if l1 < 1e-12 or l2 < 1e-12:
        return float("nan"), 0.0
    c = np.dot(n1, n2) / (l1 * l2)
    s = -1.0 if np.dot(v1, n2) < 0 else 1.0
    sinmin = min(l1 / (np.linalg.norm(v1) * np.linalg.norm(v2)),
                 l2 / (np.linalg.norm(v2) * np.linalg.norm(v3)))
    return s * math.acos(max(-1.0, min(1.0, c))), sinmin


# ----------------------------------------------------------------------------
# case description -> file texts
# ----------------------------------------------------------------------------

def topology_xml(case):
    out = ["<topology>", "  <molecules>"]
    for mt in case["moltypes"]:
        out.append('    <molecule name="%s" nmols="%d" nbeads="%d">' %
                   (mt["name"], mt["nmols"], len(mt["atoms"])))
        for a in mt["atoms"]:
            out.append('      <bead name="%s" type="%s" mass="%s" q="0" />' %
                       (a["name"], a["type"], a["mass"]))
        out.append("    </molecule>")
    out.append("  </molecules>")
    if not case["mapped"]:
        bl = []
        for mt in case["moltypes"]:
            for g in mt["bonded"]:
                bl.append("    <%s>" % g["kind"])
                bl.append("      <name>%s</name>" % g["name"])
                bl.append("      <beads>")
                for tup in g["tuples"]:
                    bl.append("        " + " ".join(
                        "%s:%s" % (mt["name"], mt["atoms"][i]["name"])
                        for i in tup))
                bl.append("      </beads>")
                bl.append("    </%s>" % g["kind"])
        if bl:
            out += ["  <bonded>"] + bl + ["  </bonded>"]
    out.append("</topology>")
    return "\n".join(out) + "\n"


def mapping_xml(mt):
    out = ["<cg_molecule>", "  <name>%s</name>" % mt["cgname"],
           "  <ident>%s</ident>" % mt["name"], "  <topology>", "    <cg_beads>"]
    for k, b in enumerate(mt["cgbeads"]):
        out += ["      <cg_bead>", "        <name>%s</name>" % b["name"],
                "        <type>%s</type>" % b["type"],
                "        <mapping>M%d</mapping>" % k,
                "        <beads>" + " ".join(
                    "1:%s:%s" % (mt["name"], mt["atoms"][i]["name"])
                    for i in b["parents"]) + "</beads>",
                "      </cg_bead>"]
    out.append("    </cg_beads>")
    if mt["bonded"]:
        out.append("    <cg_bonded>")
        for g in mt["bonded"]:
            out += ["      <%s>" % g["kind"],
                    "        <name>%s</name>" % g["name"], "        <beads>"]
            for tup in g["tuples"]:
                out.append("          " + " ".join(
                    mt["cgbeads"][i]["name"] for i in tup))
            out += ["        </beads>", "      </%s>" % g["kind"]]
        out.append("    </cg_bonded>")
    out += ["  </topology>", "  <maps>"]
    for k, b in enumerate(mt["cgbeads"]):
        out += ["    <map>", "      <name>M%d</name>" % k,
                "      <weights>" + " ".join(b["weights"]) + "</weights>",
                "    </map>"]
    out += ["  </maps>", "</cg_molecule>"]
    return "\n".join(out) + "\n"


def options_xml(case):
    out = ["<cg>"]
    if case.get("nbsearch"):
        out.append("  <nbsearch>%s</nbsearch>" % case["nbsearch"])
    for it in case["interactions"]:
        tag = "bonded" if it["class"] == "bonded" else "non-bonded"
        out.append("  <%s>" % tag)
        out.append("    <name>%s</name>" % it["name"])
        if it["class"] != "bonded":
            out.append("    <type1>%s</type1>" % it["type1"])
            out.append("    <type2>%s</type2>" % it["type2"])
        if it["class"] == "threebody":
            out.append("    <type3>%s</type3>" % it["type3"])
            out.append("    <threebody>1</threebody>")
            out.append("    <cut>%s</cut>" % it["cut"])
        out.append("    <min>%s</min>" % it["min"])
        out.append("    <max>%s</max>" % it["max"])
        if "max_intra" in it:
            out.append("    <max_intra>%s</max_intra>" % it["max_intra"])
        out.append("    <step>%s</step>" % it["step"])
        if case["do_imc"]:
            out += ["    <inverse><imc><group>%s</group></imc></inverse>" %
                    it.get("group", "none")]
        out.append("  </%s>" % tag)
    out.append("</cg>")
    return "\n".join(out) + "\n"


def frame_text_dump(step, lo, box_nm, pos_nm, decimals):
    """LAMMPS dump (Angstrom)"""
    n = len(pos_nm)
    out = ["ITEM: TIMESTEP", str(step), "ITEM: NUMBER OF ATOMS", str(n),
           "ITEM: BOX BOUNDS pp pp pp"]
    for k in range(3):
        out.append("%.*f %.*f" % (decimals, lo[k], decimals,
                                  lo[k] + box_nm[k] * 10.0))
    out.append("ITEM: ATOMS id type x y z")
    for i in range(n):
        out.append("%d 1 %.*f %.*f %.*f" % (i + 1, decimals, pos_nm[i, 0] * 10,
                                            decimals, pos_nm[i, 1] * 10,
                                            decimals, pos_nm[i, 2] * 10))
    return "\n".join(out) + "\n"


def frame_text_gro(step, box_nm, pos_nm, names):
    n = len(pos_nm)
    out = ["generated t= %d" % step, "%5d" % n]
    for i in range(n):
        out.append("%5d%-5s%5s%5d%8.3f%8.3f%8.3f" %
                   ((i + 1) % 100000, names[i][0][:5], names[i][1][:5],
                    (i + 1) % 100000, pos_nm[i, 0], pos_nm[i, 1], pos_nm[i, 2]))
    out.append("%10.5f%10.5f%10.5f" % tuple(box_nm))
    return "\n".join(out) + "\n"


def parse_dump(text):
    """-> list of (box_nm(3), pos_nm(N,3)); same arithmetic as a plain reader:
    value * 0.1"""
    lines = text.split("\n")
    frames, i = [], 0
    while i < len(lines):
        if not lines[i].startswith("ITEM: TIMESTEP"):
            i += 1
            continue
        n = int(lines[i + 3])
        box = np.zeros(3)
        for k in range(3):
            lo, hi = lines[i + 5 + k].split()
            box[k] = (float(hi) - float(lo)) * 0.1
        pos = np.zeros((n, 3))
        for a in range(n):
            f = lines[i + 9 + a].split()
            idx = int(f[0]) - 1
            pos[idx] = [float(f[2]) * 0.1, float(f[3]) * 0.1, float(f[4]) * 0.1]
        frames.append((box, pos))
        i += 9 + n
    return frames


def parse_gro(text):
    lines = text.split("\n")
    frames, i = [], 0
    while i + 1 < len(lines) and lines[i + 1].strip():
        n = int(lines[i + 1])
        pos = np.zeros((n, 3))
        for a in range(n):
            ln = lines[i + 2 + a]
            pos[a] = [float(ln[20:28]), float(ln[28:36]), float(ln[36:44])]
        box = np.array([float(x) for x in lines[i + 2 + n].split()[:3]])
        frames.append((box, pos))
        i += 3 + n
    return frames


# ----------------------------------------------------------------------------
# the CG view of a case: bead types, molecule ids, exclusions, bonded tuples,
# mapping of atom coordinates
# ----------------------------------------------------------------------------

class CGView:
    def __init__(self, case):
        self.case = case
        types, molid, groups = [], [], {}
        self.parents = []          # per CG bead: (atom indices, weights)
        atom0 = 0
        bead0 = 0
        mid = 0
        for mt in case["moltypes"]:
            na = len(mt["atoms"])
            for _ in range(mt["nmols"]):
                if case["mapped"]:
                    for b in mt["cgbeads"]:
                        types.append(b["type"])
                        molid.append(mid)
                        self.parents.append((
                            [atom0 + p for p in b["parents"]],
                            [float(w) for w in b["weights"]]))
                    nb = len(mt["cgbeads"])
                else:
                    for a in mt["atoms"]:
                        types.append(a["type"])
                        molid.append(mid)
                    nb = na
                for g in mt["bonded"]:
                    groups.setdefault(g["name"], {"kind": g["kind"],
                                                   "tuples": []})
                    for tup in g["tuples"]:
                        groups[g["name"]]["tuples"].append(
                            [bead0 + i for i in tup])
                atom0 += na
                bead0 += nb
                mid += 1
        self.types = np.array(types)
        self.molid = np.array(molid)
        self.n = len(types)
        self.natoms = atom0
        self.groups = groups
        # exclusions: beads that share one bonded interaction
        ex = np.zeros((self.n, self.n), dtype=bool)
        for g in groups.values():
            for tup in g["tuples"]:
                for a in tup:
                    for b in tup:
                        if a != b:
                            ex[a, b] = True
        self.excl = ex

    def cg_positions(self, box, apos):
        if not self.case["mapped"]:
            return apos
        out = np.zeros((self.n, 3))
        for k, (par, w) in enumerate(self.parents):
            r0 = apos[par[0]]
            acc = np.zeros(3)
            for p, wi in zip(par, w):
                acc += wi * (r0 + min_image(apos[p] - r0, box))
            out[k] = acc / sum(w)
        return out


def select(view, sel):
    if sel == "*":
        return np.ones(view.n, dtype=bool)
    return view.types == sel


def frame_histograms(view, case, box, pos):
    """per-interaction integer histograms of one frame + the smallest distance
    of any judged value to a decision surface (bin edge, 3-body cutoff,
    dihedral branch cut)"""
    n = view.n
    d = pos[None, :, :] - pos[:, None, :]          # d[i,j] = r_j - r_i
    d = min_image(d, box)
    dist = np.sqrt((d * d).sum(axis=2))
    iu = np.triu(np.ones((n, n), dtype=bool), 1)
    hists, margin, offenders = {}, 1e9, set()
    for it in case["interactions"]:
        mn, mx, st = float(it["min"]), float(it["max"]), float(it["step"])
        if it["class"] != "bonded" and case["include_intra"]:
            mx = float(it["max_intra"])
        nb = nbins_of(mn, mx, st)
        h = np.zeros(nb)
        if it["class"] == "pair":
            s1, s2 = select(view, it["type1"]), select(view, it["type2"])
            if it["type1"] == it["type2"]:
                m = s1[:, None] & s1[None, :] & iu
            else:
                m = (s1[:, None] & s2[None, :]) | (s2[:, None] & s1[None, :])
                m &= iu
            if not case["include_intra"]:
                m &= ~view.excl
            ii, jj = np.nonzero(m)
            v = dist[ii, jj]
            idx = bin_index(v, mn, st)
            ok = (idx >= 0) & (idx < nb)
            np.add.at(h, idx[ok], 1.0)
            # edges that matter: all edges from the lower edge of bin 0 to the
            # upper edge of the last bin
            rel = (v > mn - st) & (v < mx + st)
            if rel.any():
                ed = edge_distance(v[rel], mn, st)
                k = int(np.argmin(ed))
                if ed[k] < margin:
                    margin = float(ed[k])
                bad = np.nonzero(ed < EDGE_BAND)[0]
                for b in bad:
                    offenders.add(int(jj[rel][b]))
        elif it["class"] == "threebody":
            cut = float(it["cut"])
            s1, s2, s3 = (select(view, it["type1"]), select(view, it["type2"]),
                          select(view, it["type3"]))
            near = (dist < cut) & ~np.eye(n, dtype=bool)
            cd = np.abs(dist - cut)[~np.eye(n, dtype=bool)]
            if cd.size and cd.min() < margin:
                margin = float(cd.min())
            if cd.size and cd.min() < EDGE_BAND:
                ij = np.argwhere((np.abs(dist - cut) < EDGE_BAND) &
                                 ~np.eye(n, dtype=bool))
                for a, b in ij:
                    offenders.add(int(b))
            same23 = it["type2"] == it["type3"]
            for i in np.nonzero(s1)[0]:
                js = [j for j in np.nonzero(s2 & near[i])[0] if j != i]
                ks = [k for k in np.nonzero(s3 & near[i])[0] if k != i]
                for j in js:
                    for k in ks:
                        if k == j or (same23 and k < j):
                            continue
                        if view.excl[i, j] or view.excl[i, k] or view.excl[j, k]:
                            continue
                        c = np.dot(d[i, j], d[i, k]) / (dist[i, j] * dist[i, k])
                        th = math.acos(max(-1.0, min(1.0, c)))
                        ix = int(math.floor((th - mn) / st + 0.5))
                        ed = float(edge_distance(np.array([th]), mn, st)[0])
                        if abs(c) > 1 - 1e-9:
                            ed = 0.0
                        if ed < margin:
                            margin = ed
                        if ed < EDGE_BAND:
                            offenders.add(int(k))
                        if 0 <= ix < nb:
                            h[ix] += 1.0
        else:  # bonded
            g = view.groups[it["name"]]
            for tup in g["tuples"]:
                p = pos[tup]
                if g["kind"] == "bond":
                    v, extra = bond_value(p, box), 1.0
                elif g["kind"] == "angle":
                    v, c = angle_value(p, box)
                    extra = 1.0 if abs(c) < 1 - 1e-9 else 0.0
                else:
                    v, sinmin = dihedral_value(p, box)
                    extra = 1.0
                    if not np.isfinite(v) or sinmin < 1e-3 or \
                            abs(v) > math.pi - EDGE_BAND:
                        extra = 0.0
                        v = 0.0
                ed = float(edge_distance(np.array([v]), mn, st)[0]) * extra
                if ed < margin:
                    margin = ed
                if ed < EDGE_BAND:
                    offenders.add(int(tup[-1]))
                ix = int(math.floor((v - mn) / st + 0.5))
                if 0 <= ix < nb:
                    h[ix] += 1.0
        hists[it["name"]] = h
    return hists, margin, offenders


# ----------------------------------------------------------------------------
# expected output files (documented formulas)
# ----------------------------------------------------------------------------

def tb_pattern_of(it):
    t1, t2, t3 = it["type1"], it["type2"], it["type3"]
    if t1 == t2 == t3:
        return "AAA"
    if t2 == t3:
        return "ABB"
    if t1 == t2:
        return "AAB"
    if t1 == t3:
        return "ABA"
    return "ABC"


def norm_of(view, it):
    s1, s2 = select(view, it["type1"]), select(view, it["type2"])
    if it["type1"] == it["type2"]:
        return 2.0 / (s1.sum() * s1.sum())
    return 1.0 / (s1.sum() * s2.sum())


def shell_volumes(x, step):
    x1 = x - 0.5 * step
    x2 = x1 + step
    sv = 4.0 / 3.0 * math.pi * (x2 ** 3 - x1 ** 3)
    return sv, x1 < 0


def grid_of(case, it):
    mn, mx, st = float(it["min"]), float(it["max"]), float(it["step"])
    if it["class"] != "bonded" and case["include_intra"]:
        mx = float(it["max_intra"])
    nb = nbins_of(mn, mx, st)
    return mn + st * np.arange(nb), st


def expected_dist(view, case, it, avg_hist, avg_vol):
    """-> (x, y, abs-tolerance beyond print precision)"""
    x, st = grid_of(case, it)
    if it["class"] == "pair":
        sv, neg = shell_volumes(x, st)
        y = avg_vol * norm_of(view, it) * avg_hist / sv
        y = np.where(neg, 0.0, y)
        return x, y
    tot = np.abs(avg_hist).sum()
    if tot > 0:
        return x, avg_hist / (tot * st)
    return x, avg_hist.copy()


def expected_for_frames(view, case, hists_per_frame, vols):
    """averages over the given frames: <S>, <V>, per-group <S S^T>"""
    nf = len(vols)
    avg = {}
    for it in case["interactions"]:
        avg[it["name"]] = sum(h[it["name"]] for h in hists_per_frame) / nf
    res = {"avg": avg, "vol": float(sum(vols) / nf), "groups": {}}
    if case["do_imc"]:
        for gname, members in imc_groups(case).items():
            S = [np.concatenate([h[m["name"]] for m in members])
                 for h in hists_per_frame]
            corr = sum(np.outer(s, s) for s in S) / nf
            mean = sum(S) / nf
            res["groups"][gname] = {"corr": corr, "mean": mean,
                                    "members": members}
    return res


def imc_groups(case):
    groups = {}
    # order inside a group: non-bonded interactions in file order, then bonded
    for cls in (("pair", "threebody"), ("bonded",)):
        for it in case["interactions"]:
            if it["class"] in cls and it.get("group", "none") != "none":
                groups.setdefault(it["group"], []).append(it)
    return groups


def denormalised_target(view, case, it, tgt_y, avg_vol):
    x, st = grid_of(case, it)
    sv, neg = shell_volumes(x, st)
    sv = np.where(neg, 0.0, sv)
    return tgt_y * sv / (avg_vol * norm_of(view, it))


# ----------------------------------------------------------------------------
# reading csg_stat's output
# ----------------------------------------------------------------------------

def read_table(path):
    xs, ys = [], []
    for ln in open(path):
        ln = ln.split("#")[0].split()
        if len(ln) >= 2:
            xs.append(float(ln[0]))
            ys.append(float(ln[1]))
    return np.array(xs), np.array(ys)


def read_matrix(path):
    rows = []
    for ln in open(path):
        f = ln.split()
        if f:
            rows.append([float(v) for v in f])
    return np.array(rows)


# ----------------------------------------------------------------------------
# generator
# ----------------------------------------------------------------------------

class Gen:
    def __init__(self, seed):
        self.r = np.random.RandomState(seed % (2 ** 32))

    def choice(self, seq):
        return seq[self.r.randint(len(seq))]

    def grid(self, lo_choices, step, kmin, kmax, maxmax=None):
        """min, max = min + k step, as exact short decimals"""
        k = int(self.r.randint(kmin, kmax + 1))
        mn = self.choice(lo_choices)
        if maxmax is not None:
            k = max(1, min(k, int(math.floor((maxmax - mn) / step + 1e-9))))
        return mn, round(mn + k * step, 6), k

    def make_case(self, tier, tb_pattern=None):
        """tb_pattern: force an angular three-body interaction with this type
        pattern (AAA ABB ABC AAB ABA) in a system with 2..3 bead types"""
        r = self.r
        case = {}
        case["fmt"] = "dump" if r.rand() < 0.6 else "gro"
        case["mapped"] = bool(r.rand() < 0.35)
        ntypes = int(r.randint(1, 4))
        target_beads = int(self.choice([2, 3, 5, 8, 12, 20, 30, 40, 60, 80,
                                        100, 120]))
        if tb_pattern:
            ntypes = max(3 if tb_pattern == "ABC" else 2, int(r.randint(2, 4)))
            target_beads = int(self.choice([12, 20, 30, 40, 60, 80, 100, 120]))
        types = TYPES[:ntypes]
        nmt = int(r.randint(1, 4))
        moltypes = []
        left = target_beads
        gcount = 0
        for m in range(nmt):
            if left <= 0:
                break
            nb = int(self.choice([1, 1, 1, 2, 3, 4, 5]))
            nb = min(nb, left)
            nm = max(1, int((left if m == nmt - 1 else
                             max(1, left * r.uniform(0.3, 0.8))) // nb))
            left -= nb * nm
            mt = {"name": "M%d" % m, "cgname": "CG%d" % m, "nmols": nm,
                  "bonded": []}
            btypes = [self.choice(types) for _ in range(nb)]
            if case["mapped"]:
                atoms, cgbeads = [], []
                for b in range(nb):
                    npar = int(self.choice([1, 1, 2, 3]))
                    par = list(range(len(atoms), len(atoms) + npar))
                    for p in range(npar):
                        atoms.append({"name": "a%d" % len(atoms),
                                      "type": "X%d" % int(r.randint(3)),
                                      "mass": "1.0"})
                    w = [self.choice(["1", "1", "2", "12", "16", "0.5"])
                         for _ in par]
                    cgbeads.append({"name": "b%d" % b, "type": btypes[b],
                                    "parents": par, "weights": w})
                mt["atoms"], mt["cgbeads"] = atoms, cgbeads
            else:
                mt["atoms"] = [{"name": "a%d" % b, "type": btypes[b],
                                "mass": "1.0"} for b in range(nb)]
            # bonded groups along the chain
            if nb >= 2 and r.rand() < 0.85:
                if r.rand() < 0.5 or nb == 2:
                    mt["bonded"].append({"kind": "bond", "name": "bond%d" % gcount,
                                         "tuples": [[i, i + 1] for i in range(nb - 1)]})
                else:   # two bond groups
                    mt["bonded"].append({"kind": "bond", "name": "bond%d" % gcount,
                                         "tuples": [[i, i + 1] for i in range(0, nb - 1, 2)]})
                    mt["bonded"].append({"kind": "bond", "name": "bondx%d" % gcount,
                                         "tuples": [[i, i + 1] for i in range(1, nb - 1, 2)]})
                if nb >= 3 and r.rand() < 0.7:
                    mt["bonded"].append({"kind": "angle", "name": "ang%d" % gcount,
                                         "tuples": [[i, i + 1, i + 2] for i in range(nb - 2)]})
                if nb >= 4 and r.rand() < 0.7:
                    mt["bonded"].append({"kind": "dihedral", "name": "dih%d" % gcount,
                                         "tuples": [[i, i + 1, i + 2, i + 3] for i in range(nb - 3)]})
                gcount += 1
            moltypes.append(mt)
        case["moltypes"] = moltypes
        view = CGView(case)
        if view.n < 2:
            return None
        present = sorted(set(view.types))

        # ---- options -------------------------------------------------------
        case["include_intra"] = bool(r.rand() < 0.3)
        case["do_imc"] = bool((not case["include_intra"]) and r.rand() < 0.4)
        # box: base edges; all frames keep max + step/2 below half the
        # smallest edge
        dens = r.uniform(2.0, 40.0)               # beads / nm^3
        L = max(1.2, (view.n / dens) ** (1.0 / 3.0))
        L = min(L, 8.0)
        base = np.array([L * r.uniform(0.8, 1.4) for _ in range(3)])
        nfr = int(self.choice([1, 2, 2, 3, 3, 4, 5, 6, 8, 10, 12]))
        vary = r.rand() < 0.8
        scales = []
        for f in range(nfr):
            if not vary:
                scales.append(np.ones(3))
            elif r.rand() < 0.5:
                scales.append(np.ones(3) * r.uniform(0.9, 1.2))
            else:
                scales.append(r.uniform(0.9, 1.2, size=3))
        boxes = [np.round(base * s, 4) for s in scales]
        half = 0.5 * min(b.min() for b in boxes)

        steps = [0.01, 0.02, 0.025, 0.04, 0.05, 0.1, 0.125, 0.2, 0.25, 0.3]
        inter = []
        pairs = []
        for a in range(len(present)):
            for b in range(a, len(present)):
                pairs.append((present[a], present[b]))
        if r.rand() < 0.12:
            pairs.append(("*", "*"))
        r.shuffle(pairs)
        npair = int(r.randint(1, min(3, len(pairs)) + 1))
        if r.rand() < 0.1 and any(mt["bonded"] for mt in moltypes):
            npair = int(r.randint(0, 2))
        for (t1, t2) in pairs[:npair]:
            if r.rand() < 0.5 and t1 != t2:
                t1, t2 = t2, t1
            st = self.choice([s for s in steps if s < half / 2.5] or [0.01])
            tight = r.rand() < 0.15
            lim = half - st / 2 if tight else half - st
            if lim < 2 * st:
                st = 0.01
                lim = half - st
            lo = self.choice([0.0, 0.0, st, 2 * st, 3 * st,
                              round(0.003 * int(r.randint(1, 60)), 3)])
            if abs(lo - st / 2) < 1e-9:
                lo = 0.0
            if lo + 2 * st > lim:
                lo = 0.0
            kmax = int(math.floor((lim - lo) / st + 1e-9))
            k = int(r.randint(max(1, kmax // 3), kmax + 1)) if r.rand() < 0.7 \
                else int(r.randint(1, kmax + 1))
            k = max(1, min(k, 80))
            mx = round(lo + k * st, 6)
            it = {"class": "pair", "name": ("%s-%s" % (t1, t2)).replace("*", "all"),
                  "type1": t1, "type2": t2, "min": dec(lo, 6), "max": dec(mx, 6),
                  "step": dec(st, 6)}
            if case["include_intra"]:
                k2 = k if r.rand() < 0.4 else int(r.randint(1, kmax + 1))
                k2 = max(1, min(k2, 80))
                it["max_intra"] = dec(round(lo + k2 * st, 6), 6)
            inter.append(it)
        # bonded interactions
        for mt in moltypes:
            for g in mt["bonded"]:
                if r.rand() < 0.15:
                    continue
                if g["kind"] == "bond":
                    st = self.choice([0.005, 0.01, 0.02, 0.05])
                    lo = self.choice([0.0, 0.0, 0.05, 0.1, 0.2])
                    k = int(r.randint(2, 60))
                    if r.rand() < 0.6:
                        k = max(k, int(math.ceil((0.45 - lo) / st)))
                elif g["kind"] == "angle":
                    st = self.choice([0.02, 0.05, 0.1, 0.2, 0.25])
                    lo = self.choice([0.0, 0.0, 0.0, 0.5, 1.0])
                    k = int(math.ceil((3.1416 - lo) / st)) if r.rand() < 0.7 \
                        else int(r.randint(2, 30))
                else:
                    st = self.choice([0.05, 0.1, 0.2, 0.25, 0.5])
                    if r.rand() < 0.7:
                        kk = int(math.ceil(3.1416 / st))
                        lo, k = -kk * st, 2 * kk
                    else:
                        lo = self.choice([-3.0, -2.0, -1.0, 0.0])
                        k = int(r.randint(2, 40))
                lo = round(lo, 6)
                inter.append({"class": "bonded", "kind": g["kind"],
                              "name": g["name"], "min": dec(lo, 6),
                              "max": dec(round(lo + k * st, 6), 6),
                              "step": dec(st, 6), "group": "none"})
        # angular three-body distribution: centre of type1, one neighbour of
        # type2 and one of type3; all five type patterns
        if tb_pattern and len(present) < (3 if tb_pattern == "ABC" else 2):
            return None
        if (tb_pattern or r.rand() < 0.25) and view.n >= 3:
            pats = ["AAA"] + (["ABB", "AAB", "ABA"] if len(present) >= 2 else []) \
                + (["ABC"] if len(present) >= 3 else [])
            pat = tb_pattern or self.choice(pats)
            perm = list(present)
            r.shuffle(perm)
            a_, b_, c_ = (perm + perm + perm)[:3]
            t1, t2, t3 = {"AAA": (a_, a_, a_), "ABB": (a_, b_, b_),
                          "ABC": (a_, b_, c_), "AAB": (a_, a_, b_),
                          "ABA": (a_, b_, a_)}[pat]
            st = self.choice([0.05, 0.1, 0.2, 0.25])
            k = int(math.ceil(3.1416 / st)) if r.rand() < 0.8 else \
                int(r.randint(2, 20))
            cut = round(min(half * 0.95, r.uniform(0.3, 0.9)), 3)
            tb = {"class": "threebody", "name": "%s-%s-%s" % (t1, t2, t3),
                  "type1": t1, "type2": t2, "type3": t3,
                  "cut": dec(cut, 6), "min": "0.0",
                  "max": dec(round(k * st, 6), 6), "step": dec(st, 6),
                  "group": "none"}
            if case["include_intra"]:
                k2 = k if r.rand() < 0.5 else int(r.randint(2, k + 3))
                tb["max_intra"] = dec(round(k2 * st, 6), 6)
            inter.append(tb)
        if not inter:
            return None
        # file order: csg_stat keeps non-bonded and bonded lists separately
        r.shuffle(inter)
        if case["do_imc"]:
            prs = [it for it in inter if it["class"] == "pair"]
            if not prs:
                case["do_imc"] = False
            else:
                mode = r.rand()
                for k, it in enumerate(prs):
                    if mode < 0.5:
                        it["group"] = "grp"
                    elif mode < 0.85:
                        it["group"] = "g%d" % (k % 2)
                    else:
                        it["group"] = "grp" if k == 0 else "none"
        case["interactions"] = inter
        case["nbsearch"] = self.choice([None, None, "grid", "simple"])

        # ---- frame selection / blocks -------------------------------------
        case["first_frame"] = None
        case["nframes"] = None
        if nfr >= 2 and r.rand() < 0.35:
            case["first_frame"] = int(r.randint(0, nfr + 1))
        start = max(case["first_frame"] or 0, 1)
        avail = nfr - start + 1
        if avail < 1:
            case["first_frame"] = nfr
            start, avail = nfr, 1
        if r.rand() < 0.35:
            case["nframes"] = int(r.randint(1, avail + 2))
        used = avail if case["nframes"] is None else min(avail, case["nframes"])
        case["block_length"] = None
        if used >= 1 and r.rand() < 0.35:
            case["block_length"] = int(r.randint(1, min(4, used) + 1))
        case["nt"] = int(self.choice([1, 1, 1, 1, 2, 3]))
        case["ext"] = self.choice([None, None, None, "dist.cur", "rdf", "x.y"])
        case["used"] = [start - 1, start - 1 + used]    # 0-based half-open

        # ---- frames --------------------------------------------------------
        decimals = int(self.choice([3, 4, 5, 6]))
        case["decimals"] = decimals
        lo = np.round(r.uniform(-20, 20, size=3), 3) if r.rand() < 0.3 \
            else np.zeros(3)
        case["lo"] = [float(v) for v in lo]
        frames_txt = []
        stats = {"regen": 0}
        for f in range(nfr):
            txt = self.make_frame(case, view, boxes[f], f, stats)
            if txt is None:
                return None
            frames_txt.append(txt)
        case["regen"] = stats["regen"]
        case["trj_text"] = "".join(frames_txt)
        # IMC targets
        case["targets"] = {}
        if case["do_imc"]:
            for it in inter:
                if it.get("group", "none") != "none":
                    x, st = grid_of(case, it)
                    y = np.round(np.clip(1.0 + 0.5 * r.standard_normal(len(x)),
                                         0, None) * (x > 0.15), 6)
                    case["targets"][it["name"]] = "".join(
                        "%.10g %.10g i\n" % (a, b) for a, b in zip(x, y))
        return case

    # one frame: molecules as random walks, beads with parents as small blobs
    def place_molecule(self, case, mt, box):
        r = self.r
        nb = len(mt["cgbeads"]) if case["mapped"] else len(mt["atoms"])
        c = r.uniform(0, 1, size=3) * box
        if r.rand() < 0.2:      # unwrapped coordinates some boxes away
            c = c + box * r.randint(-2, 3, size=3)
        pts = [c]
        for b in range(1, nb):
            dvec = r.standard_normal(3)
            dvec /= np.linalg.norm(dvec)
            pts.append(pts[-1] + dvec * r.uniform(0.08, 0.45))
        pts = np.array(pts)
        if not case["mapped"]:
            return pts
        out = np.zeros((len(mt["atoms"]), 3))
        for b, cb in enumerate(mt["cgbeads"]):
            for p in cb["parents"]:
                out[p] = pts[b] + r.uniform(-0.06, 0.06, size=3)
        return out

    def make_frame(self, case, view, box, fidx, stats):
        r = self.r
        mols = []
        for mt in case["moltypes"]:
            for _ in range(mt["nmols"]):
                mols.append(mt)
        decimals = case["decimals"]
        coords = [self.place_molecule(case, mt, box) for mt in mols]
        # which molecule owns CG bead k
        owner = []
        for mi, mt in enumerate(mols):
            nb = len(mt["cgbeads"]) if case["mapped"] else len(mt["atoms"])
            owner += [mi] * nb
        names = []
        for mi, mt in enumerate(mols):
            for a in mt["atoms"]:
                names.append((mt["name"], a["name"]))
        lo = np.array(case["lo"])
        for attempt in range(400):
            apos = np.concatenate(coords)
            if case["fmt"] == "dump":
                txt = frame_text_dump(fidx * 10, lo, box, apos, decimals)
                (pbox, ppos), = parse_dump(txt)
            else:
                if np.abs(apos).max() > 900:
                    return None
                txt = frame_text_gro(fidx * 10, box, apos, names)
                (pbox, ppos), = parse_gro(txt)
            cg = view.cg_positions(pbox, ppos)
            _, margin, off = frame_histograms(view, case, pbox, cg)
            if not off:
                return txt
            stats["regen"] += 1
            for b in off:
                mi = owner[b]
                coords[mi] = self.place_molecule(case, mols[mi], box)
        return None


# ----------------------------------------------------------------------------
# running and judging one case
# ----------------------------------------------------------------------------

def write_case(case, d):
    os.makedirs(d, exist_ok=True)
    files = {"topol.xml": topology_xml(case), "settings.xml": options_xml(case),
             "traj." + case["fmt"]: case["trj_text"]}
    if case["mapped"]:
        for mt in case["moltypes"]:
            files["map_%s.xml" % mt["name"]] = mapping_xml(mt)
    for n, t in case["targets"].items():
        files[n + ".dist.tgt"] = t
    for n, t in files.items():
        open(os.path.join(d, n), "w").write(t)
    return files


def command(case, exe):
    cmd = [exe, "--top", "topol.xml", "--trj", "traj." + case["fmt"],
           "--options", "settings.xml"]
    if case["mapped"]:
        cmd += ["--cg", ";".join("map_%s.xml" % mt["name"]
                                 for mt in case["moltypes"])]
    if case["include_intra"]:
        cmd.append("--include-intra")
    if case["do_imc"]:
        cmd.append("--do-imc")
    if case["block_length"]:
        cmd += ["--block-length", str(case["block_length"])]
    if case["first_frame"] is not None:
        cmd += ["--first-frame", str(case["first_frame"])]
    if case["nframes"] is not None:
        cmd += ["--nframes", str(case["nframes"])]
    if case["nt"] != 1:
        cmd += ["--nt", str(case["nt"])]
    if case.get("ext"):
        cmd += ["--ext", case["ext"]]
    return cmd


class Judge:
    """collects comparisons of one case"""

    def __init__(self, out):
        self.out = out
        self.fail = []      # (key, what, detail)
        self.evals = {}

    def ev(self, fam, n=1):
        self.evals[fam] = self.evals.get(fam, 0) + n

    def cmp_vec(self, key, what, got, exp, tol, extra=None):
        got, exp, tol = np.asarray(got), np.asarray(exp), np.asarray(tol)
        if got.shape != exp.shape:
            self.fail.append((key + "/shape", what, {
                "got_shape": list(got.shape), "expected_shape": list(exp.shape)}))
            return False
        err = np.abs(got - exp)
        bad = ~(err <= tol)
        if bad.any():
            k = int(np.argmax(np.where(bad, err / np.maximum(tol, 1e-300), 0)))
            idx = np.unravel_index(k, got.shape)
            det = {"index": [int(i) for i in idx], "got": float(got[idx]),
                   "expected": float(exp[idx]), "tolerance": float(tol[idx]),
                   "n_bad": int(bad.sum()), "n": int(bad.size)}
            if extra:
                det.update(extra)
            self.fail.append((key, what, det))
            return False
        return True


def judge_case(case, files, workdir, J):
    view = CGView(case)
    frames = parse_dump(case["trj_text"]) if case["fmt"] == "dump" \
        else parse_gro(case["trj_text"])
    a, b = case["used"]
    used = frames[a:b]
    hists, vols = [], []
    minmargin = 1e9
    for (box, apos) in used:
        cg = view.cg_positions(box, apos)
        h, margin, off = frame_histograms(view, case, box, cg)
        minmargin = min(minmargin, margin)
        hists.append(h)
        vols.append(float(box[0] * box[1] * box[2]))
    info = {"frames_used": len(used), "min_margin": minmargin}
    L = case["block_length"]
    ext = case.get("ext") or "dist.new"
    blocks = []
    if L:
        nblk = len(used) // L
        for k in range(nblk):
            blocks.append(("_%d.%s" % (k + 1, ext), k * L, (k + 1) * L))
    else:
        blocks.append(("." + ext, 0, len(used)))
    nonempty = 0
    volume_varies = len(set(vols)) > 1
    for (suffix, f0, f1) in blocks:
        E = expected_for_frames(view, case, hists[f0:f1], vols[f0:f1])
        # the running mean volume over all frames since the start (what a
        # not-restarted volume average gives)
        run_vol = float(sum(vols[:f1]) / f1)
        isblock = bool(L)
        for it in case["interactions"]:
            name = it["name"]
            fn = os.path.join(workdir, name + suffix)
            fam = it["class"] if it["class"] != "bonded" else it["kind"]
            if it["class"] == "pair":
                fam = "nonbonded-same" if it["type1"] == it["type2"] \
                    else "nonbonded-cross"
            key = ("blocks/" if isblock else "dist/") + fam
            if it["class"] == "threebody":
                # type pattern of (centre, neighbour, neighbour) in family
                # name and key
                fam = "threebody/" + tb_pattern_of(it)
                key = "%s/%s" % (fam, "block-dist-mismatch" if isblock
                                 else "dist-mismatch")
                if E["avg"][name].sum() > 0:
                    info.setdefault("tb_nonempty", set()).add(tb_pattern_of(it))
            if it["class"] == "bonded" and case["nt"] > 1 and \
                    not case["mapped"]:
                # own structural key: <bonded> of an XML topology + --nt > 1
                key = "threads-xml-bonded/" + key
            J.ev(("block-" if isblock else "") + fam)
            if not os.path.exists(fn):
                J.fail.append((key + "/file-missing", "expected output file "
                               "was not written", {"file": name + suffix}))
                continue
            gx, gy = read_table(fn)
            x, y = expected_dist(view, case, it, E["avg"][name], E["vol"])
            nonempty = max(nonempty, int((E["avg"][name] > 0).sum()))
            tolx = 1.1 * print_tol(x, 10) + 1e-12 * (np.abs(x).max() + 1e-3)
            J.cmp_vec(key + "/grid", "bin centres differ from min + i*step",
                      gx, x, tolx)
            scale = float(np.abs(y).max()) if y.size else 0.0
            toly = 1.1 * print_tol(y, 10) + 1e-11 * np.abs(y) + 1e-13 * scale
            if isblock and it["class"] == "pair" and f0 > 0 and \
                    abs(run_vol - E["vol"]) > 1e-9 * E["vol"]:
                # separate structural key for the volume average that is not
                # restarted with the other averages
                ok = np.all(np.abs(gy - y) <= toly) if gy.shape == y.shape \
                    else False
                if not ok:
                    _, y2 = expected_dist(view, case, it, E["avg"][name],
                                          run_vol)
                    tol2 = 1.1 * print_tol(y2, 10) + 1e-11 * np.abs(y2) + \
                        1e-13 * scale
                    if gy.shape == y2.shape and \
                            np.all(np.abs(gy - y2) <= tol2):
                        k = int(np.argmax(np.abs(gy - y)))
                        J.fail.append((
                            "blocks/volume-average-not-restarted",
                            "block rdf is normalised with the mean volume of "
                            "all frames since the start instead of the "
                            "block's own frames",
                            {"file": name + suffix, "index": k,
                             "got": float(gy[k]), "expected": float(y[k]),
                             "expected_if_volume_not_restarted": float(y2[k]),
                             "block_mean_volume": E["vol"],
                             "running_mean_volume": run_vol}))
                        continue
            J.cmp_vec(key, "distribution differs from the recomputation "
                      "(file %s)" % (name + suffix), gy, y, toly,
                      {"file": name + suffix, "x": None})
        # IMC files
        for gname, G in E["groups"].items():
            base = gname + (suffix if isblock else "")
            pre = "blocks/imc" if isblock else "imc"
            mem = G["members"]
            sizes = [len(grid_of(case, m)[0]) for m in mem]
            # --- idx
            J.ev("imc-idx")
            fn = os.path.join(workdir, base + ".idx")
            if not os.path.exists(fn):
                J.fail.append((pre + "/file-missing", "no idx file",
                               {"file": base + ".idx"}))
                continue
            got = [ln.split() for ln in open(fn) if ln.strip()]
            exp, beg = [], 1
            for m, s in zip(mem, sizes):
                exp.append([m["name"], "%d:%d" % (beg, beg + s - 1)])
                beg += s
            if got != exp:
                J.fail.append((pre + "/idx", "index file differs",
                               {"got": got, "expected": exp}))
            # --- dS
            J.ev("imc-dS")
            gx, gy = read_table(os.path.join(workdir, base + ".imc"))
            xs, dS, tol = [], [], []
            dS_run = []
            for m in mem:
                x, st = grid_of(case, m)
                tx, ty = read_table_text(case["targets"][m["name"]])
                den = denormalised_target(view, case, m, ty, E["vol"])
                avg = E["avg"][m["name"]]
                xs.append(x)
                dS.append(avg - den)
                dS_run.append(avg - denormalised_target(view, case, m, ty,
                                                        run_vol))
                tol.append(1e-12 * (np.abs(avg) + np.abs(den)) + 1e-300)
            xs, dS, tol = map(np.concatenate, (xs, dS, tol))
            dS_run = np.concatenate(dS_run)
            J.cmp_vec(pre + "/grid", "r column of the imc file", gx, xs,
                      1.1 * print_tol(xs, 8) + 1e-12 * (np.abs(xs).max() + 1e-3))
            tol_ds = 1.1 * print_tol(dS, 8) + tol
            volissue = isblock and f0 > 0 and \
                abs(run_vol - E["vol"]) > 1e-9 * E["vol"]
            if volissue and gy.shape == dS.shape and \
                    not np.all(np.abs(gy - dS) <= tol_ds) and \
                    np.all(np.abs(gy - dS_run) <=
                           1.1 * print_tol(dS_run, 8) + tol):
                k = int(np.argmax(np.abs(gy - dS)))
                J.fail.append(("blocks/volume-average-not-restarted",
                               "block dS de-normalises the target with the "
                               "mean volume of all frames since the start",
                               {"file": base + ".imc", "index": k,
                                "got": float(gy[k]), "expected": float(dS[k]),
                                "expected_if_volume_not_restarted":
                                    float(dS_run[k])}))
            else:
                J.cmp_vec(pre + "/dS", "dS != <S> - de-normalised target",
                          gy, dS, tol_ds, {"file": base + ".imc"})
            # --- gmc
            J.ev("imc-gmc")
            gm = read_matrix(os.path.join(workdir, base + ".gmc"))
            mean = G["mean"]
            exp = -(G["corr"] - np.outer(mean, mean))
            tolm = 1.1 * print_tol(exp, 8) + \
                1e-12 * (np.abs(G["corr"]) + np.abs(np.outer(mean, mean))) + 1e-300
            if gm.shape == exp.shape and gm.size:
                asym = np.abs(gm - gm.T)
                tola = 2.2 * print_tol(np.maximum(np.abs(gm), np.abs(gm.T)), 8)\
                    + 2 * (tolm - 1.1 * print_tol(exp, 8))
                if (asym > tola).any():
                    k = np.unravel_index(int(np.argmax(asym - tola)), gm.shape)
                    J.fail.append((pre + "/gmc-asymmetric",
                                   "written cross-correlation matrix is not "
                                   "symmetric", {"index": [int(k[0]), int(k[1])],
                                                 "got_ij": float(gm[k]),
                                                 "got_ji": float(gm.T[k])}))
            J.cmp_vec(pre + "/gmc", "gmc != -(<S_i S_j> - <S_i><S_j>)", gm, exp,
                      tolm, {"file": base + ".gmc"})
            if isblock:
                # raw block averages
                J.ev("block-S")
                fnS = os.path.join(workdir, base + ".S")
                if os.path.exists(fnS):
                    sx, sy = read_table(fnS)
                    J.cmp_vec("blocks/imc/S", "block .S file != block average "
                              "of the histograms", sy, mean,
                              1.1 * print_tol(mean, 8) + 1e-12 * np.abs(mean))
                fnC = os.path.join(workdir, base + ".cor")
                if os.path.exists(fnC):
                    cm = read_matrix(fnC)
                    expc = np.zeros_like(G["corr"])
                    o = np.cumsum([0] + sizes)
                    for i in range(len(mem)):
                        for j in range(i, len(mem)):
                            expc[o[i]:o[i + 1], o[j]:o[j + 1]] = \
                                G["corr"][o[i]:o[i + 1], o[j]:o[j + 1]]
                    J.cmp_vec("blocks/imc/cor", "block .cor file != block "
                              "average of S_i S_j (upper blocks)", cm, expc,
                              1.1 * print_tol(expc, 8) + 1e-12 * np.abs(expc))
    info["nonempty_bins"] = nonempty
    info["volume_varies"] = volume_varies
    info["blocks"] = len(blocks) if L else 0
    return info


def read_table_text(txt):
    xs, ys = [], []
    for ln in txt.split("\n"):
        f = ln.split()
        if len(f) >= 2:
            xs.append(float(f[0]))
            ys.append(float(f[1]))
    return np.array(xs), np.array(ys)


def run_case(case, exe, workdir, timeout=600):
    files = write_case(case, workdir)
    cmd = command(case, exe)
    t0 = time.time()
    try:
        p = subprocess.run(cmd, cwd=workdir, stdout=subprocess.PIPE,
                           stderr=subprocess.PIPE, timeout=timeout)
        rc, err, out, to = p.returncode, p.stderr.decode("utf-8", "replace"), \
            p.stdout.decode("utf-8", "replace"), False
    except subprocess.TimeoutExpired as e:
        rc, err, out, to = -9, (e.stderr or b"").decode("utf-8", "replace"), \
            "", True
    return files, cmd, rc, out, err, to, time.time() - t0


def witness_of(case, files, cmd):
    w = {k: case[k] for k in ("fmt", "mapped", "include_intra", "do_imc",
                              "block_length", "first_frame", "nframes", "nt",
                              "used")}
    w["ext"] = case.get("ext")
    w["cmd"] = " ".join(["csg_stat"] + cmd[1:])
    w["files"] = files
    w["case"] = {k: v for k, v in case.items() if k != "trj_text"}
    return w


def emit(rec):
    sys.stdout.write(json.dumps(rec, default=lambda o: o.tolist()
                                if hasattr(o, "tolist") else str(o)) + "\n")
    sys.stdout.flush()


def worker(args):
    seed, shard, n = int(args["seed"]), int(args["shard"]), int(args["n"])
    exe, scratch = args["exe"], args["scratch"]
    tier = args.get("tier", "quick")
    evals, fams, counters, samples = 0, {}, {}, []
    distinct = set()
    vcount = {}

    def cnt(k, v=1):
        counters[k] = counters.get(k, 0) + v

    for ci in range(n):
        cseed = (seed * 1000003 + shard * 7919 + ci * 104729 + 17) % (2 ** 32)
        g = Gen(cseed)
        case = None
        # every fourth case (counted over all shards) carries an angular
        # three-body interaction, the five type patterns in turn
        gidx = shard * n + ci
        forced = TB_PATTERNS[(gidx // 4) % len(TB_PATTERNS)] \
            if gidx % 4 == 0 else None
        for attempt in range(40 if forced else 20):
            case = g.make_case(tier, forced)
            if case is not None:
                break
            cnt("generator_retries")
        if case is None:
            cnt("generator_gave_up")
            continue
        case["cseed"] = cseed
        wd = os.path.join(scratch, "s%d_c%d" % (shard, ci))
        files, cmd, rc, out, err, to, wall = run_case(case, exe, wd)
        cnt("csg_stat_runs")
        cnt("frames_regenerated_near_edge", case["regen"])
        if to or rc != 0:
            emit({"t": "abnormal", "what": "csg_stat case seed %d" % cseed,
                  "rc": rc, "timed_out": to, "err": err[-6000:],
                  "witness": witness_of(case, files, cmd)})
            shutil.rmtree(wd, ignore_errors=True)
            continue
        J = Judge(None)
        try:
            info = judge_case(case, files, wd, J)
        except Exception as e:      # unreadable output etc.
            import traceback
            emit({"t": "violation", "key": "output/unreadable",
                  "what": "output of csg_stat could not be parsed: %r" % (e,),
                  "witness": dict(witness_of(case, files, cmd),
                                  trace=traceback.format_exc())})
            shutil.rmtree(wd, ignore_errors=True)
            continue
        for f, k in J.evals.items():
            fams[f] = fams.get(f, 0) + k
            evals += k
        nontrivial = info["frames_used"] > 1 and info["nonempty_bins"] >= 2
        if nontrivial:
            distinct.add(hashlib.sha1(
                (case["trj_text"] + files["settings.xml"]).encode()).hexdigest())
            cnt("cases_nontrivial")
        else:
            cnt("cases_trivial_single_frame_or_empty")
        cnt("fmt_" + case["fmt"])
        for flag in ("mapped", "include_intra", "do_imc"):
            if case[flag]:
                cnt("cases_" + flag)
        if case["block_length"]:
            cnt("cases_block_length")
            cnt("blocks_judged", info["blocks"])
        if case["first_frame"] is not None or case["nframes"] is not None:
            cnt("cases_frame_selection")
        if info["volume_varies"]:
            cnt("cases_volume_varies")
        for it_ in case["interactions"]:
            if it_["class"] == "threebody":
                pt_ = tb_pattern_of(it_)
                cnt("cases_threebody_pattern_" + pt_)
                if pt_ in info.get("tb_nonempty", ()):
                    cnt("cases_threebody_pattern_%s_with_triples" % pt_)
        if case["nt"] > 1:
            cnt("cases_nt_gt_1")
            if case["do_imc"]:
                cnt("cases_nt_gt_1_with_do_imc")
        if case.get("ext"):
            cnt("cases_ext_option")
        if case["include_intra"]:
            # cross-type pair interaction with both types inside one molecule
            # (pairs that only --include-intra counts)
            v_ = CGView(case)
            for it_ in case["interactions"]:
                if it_["class"] == "pair" and it_["type1"] != it_["type2"] and \
                        "*" not in (it_["type1"], it_["type2"]):
                    a_ = v_.types == it_["type1"]
                    b_ = v_.types == it_["type2"]
                    m_ = (a_[:, None] & b_[None, :]) & v_.excl
                    if m_.any():
                        cnt("cases_include_intra_cross_type_excluded_pairs")
                        break
        if info["min_margin"] < 10 * EDGE_BAND:
            cnt("cases_with_a_value_within_1e-5_of_a_bin_edge")
        for (key, what, det) in J.fail:
            vcount[key] = vcount.get(key, 0) + 1
            cnt("violations_" + key)
            if vcount[key] <= 2:
                emit({"t": "violation", "key": key, "what": what,
                      "witness": dict(witness_of(case, files, cmd),
                                      detail=det)})
        if len(samples) < 2 and nontrivial:
            it = case["interactions"][0]
            fn = os.path.join(wd, it["name"] + (
                "_1." if case["block_length"] else ".") +
                (case.get("ext") or "dist.new"))
            s = {"cmd": " ".join(["csg_stat"] + cmd[1:]), "seed": cseed,
                 "beads": int(CGView(case).n), "frames_used": info["frames_used"],
                 "interaction": it}
            if os.path.exists(fn):
                gx, gy = read_table(fn)
                k = int(np.argmax(gy)) if gy.size else 0
                s["observed_max"] = [float(gx[k]), float(gy[k])] if gy.size else []
            samples.append(s)
        shutil.rmtree(wd, ignore_errors=True)
    emit({"t": "summary", "evaluations": evals,
          "distinct_nontrivial": len(distinct), "families": fams,
          "counters": counters, "samples": samples})


def replay(path, args):
    w = json.load(open(path))["witness"]
    if "files" not in w and "case" in w:      # sanitizer / crash witness
        w = w["case"]
    case = w["case"]
    case["trj_text"] = w["files"]["traj." + case["fmt"]]
    wd = os.path.join(args["scratch"], "replay")
    shutil.rmtree(wd, ignore_errors=True)
    files, cmd, rc, out, err, to, wall = run_case(case, args["exe"], wd)
    print("csg_stat rc=%s" % rc)
    if rc != 0:
        print(err[-3000:])
        return 1
    J = Judge(None)
    info = judge_case(case, files, wd, J)
    for (key, what, det) in J.fail:
        print("VIOLATION", key, what, json.dumps(det))
    print("judged:", J.evals, info)
    shutil.rmtree(wd, ignore_errors=True)
    return 1 if J.fail else 0


def parse_args(argv):
    a = {}
    i = 0
    pos = []
    while i < len(argv):
        if argv[i].startswith("--"):
            a[argv[i][2:]] = argv[i + 1]
            i += 2
        else:
            pos.append(argv[i])
            i += 1
    return a, pos


if __name__ == "__main__":
    a, pos = parse_args(sys.argv[2:])
    if sys.argv[1] == "worker":
        worker(a)
    elif sys.argv[1] == "replay":
        sys.exit(replay(pos[0], a))
