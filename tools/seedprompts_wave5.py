#!/usr/bin/env python3
"""writes /tmp/seedprompts5/Cxx.txt: the base prompt of tools/seedprompt.py plus
the list of earlier seeds of the property (to be avoided) and the anchored files
no earlier seed touched (to be preferred). Nothing about the checks is included."""
import json, re, glob, subprocess, os
import sys
W = sys.argv[1] if len(sys.argv) > 1 else '5'
os.makedirs('/tmp/seedprompts' + W, exist_ok=True)
props = {}
for l in open('/verif/properties.jsonl'):
    p = json.loads(l)
    props[p['id']] = p


def earlier(pid):
    out = []
    for d in sorted(glob.glob('/verif/seeded/%s*' % pid)):
        try:
            m = json.load(open(d + '/meta.json'))
        except Exception:
            continue
        out.append("   - %s (files: %s)" % (str(m.get('summary', ''))[:420], m.get('files_changed')))
    return out


def touched(pid):
    t = set()
    for d in glob.glob('/verif/seeded/%s*' % pid):
        try:
            diff = open(d + '/patch.diff').read()
        except Exception:
            continue
        t |= set(re.findall(r'^\+\+\+ b/(\S+)', diff, re.M))
    return t


for pid, p in sorted(props.items()):
    base = subprocess.run(['python3', '/verif/tools/seedprompt.py', pid], capture_output=True, text=True).stdout
    base = base.replace('/tmp/seed_' + pid, '/tmp/seed' + W + '_' + pid).replace('/tmp/seedwork_' + pid, '/tmp/seedwork' + W + '_' + pid)
    t = touched(pid)
    un = [a for a in p['anchors']['files'] if not any(f == a or f.startswith(a.rstrip('/') + '/') for f in t)]
    un = [a for a in un if not a.endswith('xtp/share/xtp/xml')]
    extra = ("\n\nIMPORTANT ADDITIONAL CONSTRAINTS: (1) Earlier engineers already delivered these faults for the same property — do something clearly DIFFERENT from all of them (different code site AND different mechanism):\n" + "\n".join(earlier(pid)))
    if un:
        extra += ("\n(1b) Put your change into one of these files, which none of the earlier faults touched (pick the one where a fault against the property statement is most natural; if none of them can carry a fault that survives the test suite, say so and use another anchored file): " + ", ".join(un))
    extra += ("\n(2) Produce patch.diff with `git diff -- csg tools xtp` so that it contains source files only; configure your own _build inside the worktree as described. (3) Your demo MUST pass on the unchanged tree: verify that direction first. (4) Do NOT use `git stash` (shared between all worktrees; other engineers work concurrently): to check the unchanged tree use `git diff > saved.diff; git checkout -- <files>` and re-apply with `git apply`, or a second build directory. (5) Make it HARD to find: prefer faults that need a conjunction of two or three conditions (a rarely used but documented option AND a particular input shape AND a second call/frame/process), numerical faults that stay within rounding for typical inputs but are wrong at a boundary, faults visible only through a secondary output file or a secondary accessor, error paths that should reject but accept (or the reverse), and interplay between two different tools of the project. Do not rely on inputs that are outside what the property statement quantifies over, and make sure the fault really violates a clause of the STATEMENT (quote the clause in meta.json).\n")
    open('/tmp/seedprompts' + W + '/%s.txt' % pid, 'w').write(base + extra)
print("written")
