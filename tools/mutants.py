#!/usr/bin/env python3
"""Self-validation: apply realistic breaks (tools/mutants/<ID>.json) one at a
time to a scratch worktree of /repo, run the property's quick check against it
(VF_REPO=<worktree>) and record whether the check fires.

  tools/mutants.py C05 [--wt /tmp/wt_mut_C05] [--only name] [--keep]
spec: [{"name":..., "file":..., "old":..., "new":..., "count":1}]
Result: /verif/tools/mutants/<ID>.result.json
"""
import json
import os
import subprocess
import sys
import hashlib
import shutil

VERIF = os.path.dirname(os.path.dirname(os.path.abspath(__file__)))


def main():
    pid = sys.argv[1]
    args = sys.argv[2:]
    wt = "/tmp/wt_mut_" + pid
    if "--wt" in args:
        wt = args[args.index("--wt") + 1]
    only = args[args.index("--only") + 1] if "--only" in args else None
    spec = json.load(open(os.path.join(VERIF, "tools", "mutants", pid + ".json")))
    if not os.path.exists(wt):
        subprocess.check_call(["git", "-C", "/repo", "worktree", "add",
                               "--detach", wt, "HEAD"])
    env = dict(os.environ, VF_REPO=wt)
    results = []
    # baseline on the unchanged worktree must be silent
    def check():
        r = subprocess.run([os.path.join(VERIF, "vf"), "check", pid],
                           env=env, capture_output=True, text=True)
        keys = [l.split("key=")[1].split()[0] for l in r.stdout.splitlines()
                if l.startswith("VIOLATION")]
        return r.returncode, keys, r.stdout[-1500:]
    if not only:
        rc, keys, out = check()
        print("baseline rc=%d %s" % (rc, keys), flush=True)
        results.append({"name": "<unchanged>", "rc": rc, "keys": keys})
        if rc != 0:
            print(out)
    for m in spec:
        if only and m["name"] != only:
            continue
        p = os.path.join(wt, m["file"])
        s = open(p).read()
        cnt = s.count(m["old"])
        if cnt != m.get("count", 1):
            print("MUTANT %s does not apply (%d matches)" % (m["name"], cnt))
            results.append({"name": m["name"], "applied": False})
            continue
        open(p, "w").write(s.replace(m["old"], m["new"]))
        try:
            rc, keys, out = check()
        finally:
            subprocess.check_call(["git", "-C", wt, "checkout", "--", "."])
        print("MUTANT %-40s rc=%d caught=%s keys=%s" %
              (m["name"], rc, rc == 1, keys[:4]), flush=True)
        if rc == 2:
            print(out)
        results.append({"name": m["name"], "applied": True, "rc": rc,
                        "caught": rc == 1, "keys": keys})
    rp = os.path.join(VERIF, "tools", "mutants", pid + ".result.json")
    if only and os.path.exists(rp):
        # merge the single result into the recorded list
        old = [r for r in json.load(open(rp)) if r.get("name") != only]
        results = old + results
    json.dump(results, open(rp, "w"), indent=1)
    if "--keep" not in args:
        subprocess.call(["git", "-C", "/repo", "worktree", "remove", "--force", wt])
        h = hashlib.sha1(wt.encode()).hexdigest()[:10]
        shutil.rmtree(os.path.join(VERIF, ".build-alt", h), ignore_errors=True)


if __name__ == "__main__":
    main()
