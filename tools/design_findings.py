#!/usr/bin/env python3
"""Regenerates the tables of DESIGN.md §11.2 (fixed) and §11.3 (known) from
known_findings.json (the table is the block of '|' lines that follows the
section heading)."""
import json
import re

D = "/verif/DESIGN.md"
k = json.load(open("/verif/known_findings.json"))["findings"]


def esc(s):
    return str(s).replace("|", "\\|").replace("\n", " ")


fixed = ["| property | commit | key | what failed |", "|---|---|---|---|"]
known = ["| property | key | what fails |", "|---|---|---|"]
for f in k:
    if f.get("status") == "fixed":
        fixed.append("| %s | %s | `%s` | %s |" % (f["property"], f.get("commit", ""), esc(f["key"]), esc(f["what"])))
    else:
        known.append("| %s | `%s` | %s |" % (f["property"], esc(f["key"]), esc(f["what"])))
lines = open(D).read().split("\n")


def replace_table(lines, heading, table):
    i = next(n for n, l in enumerate(lines) if l.startswith(heading))
    s = next(n for n in range(i, len(lines)) if lines[n].startswith("|"))
    e = s
    while e < len(lines) and lines[e].startswith("|"):
        e += 1
    return lines[:s] + table + lines[e:]


lines = replace_table(lines, "### 11.2 ", fixed)
lines = replace_table(lines, "### 11.3 ", known)
open(D, "w").write("\n".join(lines))
print("fixed %d known %d" % (len(fixed) - 2, len(known) - 2))
