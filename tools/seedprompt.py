#!/usr/bin/env python3
"""prints the prompt for an independent break-seeding agent (property text
only, nothing about the verification machinery)."""
import json, sys
pid = sys.argv[1]
wt = "/tmp/seed_" + pid
for l in open("/verif/properties.jsonl"):
    p = json.loads(l)
    if p["id"] == pid:
        break
xtp = any(f.startswith("xtp/") for f in p["anchors"]["files"])
print(f"""You are a software engineer asked to write a *fault-injection* change for the open-source C++ project votca/votca (coarse-graining MD library csg + xtp). A scratch git worktree of the repository is at {wt} (create it first with: git -C /repo worktree add --detach {wt} HEAD). Work ONLY inside {wt} (and scratch files under /tmp/seedwork_{pid}). Do NOT read or touch anything under /verif, and do not modify /repo itself. No network is available.

The project is supposed to satisfy this semantic property ({pid}: {p['title']}):

STATEMENT: {p['statement']}

QUANTIFIED OVER: {p['quantifier']['text']}

Code the property is anchored in: {', '.join(p['anchors']['files'])}

YOUR TASK: produce ONE realistic change to the source code of votca/votca (the kind of bug a competent developer could introduce in a refactoring, optimisation or feature patch: 1-15 changed lines, plausible-looking, no comments that give it away, no dead code, no test-detection tricks) that BREAKS this property, while the project still compiles and its existing test suite still passes. Prefer a change that needs something specific to manifest — a particular interleaving or timing, a crash/fault at a particular point, a multi-step sequence of operations, an unusual but legal input (e.g. a non-cubic box, unequal bond lengths, a boundary value, many threads, more than one frame/block/process), or two cooperating code sites that each look fine alone — NOT one that ordinary use or the existing tests would expose at once.

How to build and test in the worktree (takes a few minutes; use at most 8 parallel jobs, the machine is shared):
  cd {wt} && cmake -S . -B _build -G Ninja -DBUILD_XTP=OFF -DBUILD_TESTING=ON -DENABLE_REGRESSION_TESTING=ON -DCMAKE_BUILD_TYPE=RelWithDebInfo -DCMAKE_CXX_FLAGS=-Wno-error -DINJECT_MARCH_NATIVE=OFF >/dev/null && cmake --build _build -j8 && ctest --test-dir _build -j8 --timeout 900
The suite has 171 tests; the 37 tests named memory_test_* fail in this sandbox even on the unchanged tree (valgrind) — ignore those; the other 134 must all still pass with your change.
""" + ("""xtp cannot be built by cmake here (libint/libxc are missing), and the cmake build above does not compile anything under xtp/. If your change is in xtp/, make sure it compiles by compiling the touched translation unit(s) stand-alone, e.g.:
  mkdir -p /tmp/seedwork_%s/cfg/votca/xtp && sed -e 's/#cmakedefine.*//' -e 's/@[A-Za-z_]*@/x/g' %s/xtp/include/votca/xtp/votca_xtp_config.h.in > /tmp/seedwork_%s/cfg/votca/xtp/votca_xtp_config.h
  g++ -std=c++17 -fopenmp -O1 -c %s/xtp/src/libxtp/<file>.cc -o /tmp/seedwork_%s/x.o -I%s/xtp/include -I%s/tools/include -I%s/_build/tools/include -I%s/_build/tools/include/votca/tools -I/tmp/seedwork_%s/cfg -I/tmp/seedwork_%s/cfg/votca/xtp -I/usr/include/hdf5/serial -isystem /usr/include/eigen3
These xtp files (davidsonsolver, matrixfreeoperator, job, progressobserver, gnode, rate_engine, qmpair, segment, atom, eeinteractor, staticsite, polarsite, checkpoint, IndexParser .cc) also LINK stand-alone against _build/tools/src/libtools/libvotca_tools.so plus -lhdf5_cpp -lhdf5 (-L/usr/lib/x86_64-linux-gnu/hdf5/serial) -lboost_filesystem -lboost_system -lboost_program_options, so a small demonstration program can call them directly.
""" % ((pid, wt, pid, wt, pid) + (wt,)*4 + (pid, pid)) if xtp else "") + f"""
DELIVERABLES, all under /tmp/seedwork_{pid}/out/ :
 1. patch.diff  — `git -C {wt} diff` of your change (source files of votca/votca only; no test files, no build files).
 2. a demonstration: a small stand-alone C++ program, or a shell/python script driving the real executables from your build (csg_map, csg_stat, csg_resample, ...), that FAILS (non-zero exit, with a clear message) when built/run against the changed tree and PASSES on the unchanged tree. Put it in demo/ with a run.sh that takes the path of a built worktree as $1 and exits 0/1. Verify both directions yourself (build the unchanged tree state with `git stash` or a second build directory).
 3. meta.json — {{"property": "{pid}", "summary": one sentence, "needs_to_manifest": what specific input / schedule / fault / sequence is needed, "files_changed": [...], "tests_still_pass": true/false (what you ran, counts), "demo": how to run it and what it prints with and without the change}}.

When you are done, leave the worktree in place with the change applied (I will inspect and remove it), and reply with a short report: the idea of the change, why existing tests miss it, the test counts you observed, and the demo outputs in both directions. If you cannot find a change that passes the existing tests, say so and deliver the best candidate with an honest meta.json.""")
