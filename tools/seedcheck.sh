#!/bin/bash
# run the property's quick check against a seeded change in an isolated scratch
# worktree (VF_REPO), record what fired.   usage: tools/seedcheck.sh C02 [tier]
SID=$1; ID=${SID:0:3}; TIER=${2:-quick}; WT=/tmp/sc_$SID; DST=/verif/seeded/$SID
git -C /repo worktree remove --force $WT 2>/dev/null
git -C /repo worktree add --detach $WT HEAD -q || exit 2
git -C $WT apply $DST/patch.diff || { echo "patch does not apply to HEAD"; exit 2; }
cd /verif
VF_REPO=$WT ./vf check $ID --tier $TIER > $DST/check_output.txt 2>&1; RC=$?
python3 - "$ID" "$RC" "$TIER" "$SID" <<'PY'
import sys, json, re
pid, rc, tier, sid = sys.argv[1], int(sys.argv[2]), sys.argv[3], sys.argv[4]
out = open('/verif/seeded/%s/check_output.txt' % sid).read()
keys = re.findall(r'^VIOLATION .*?key=(\S+)', out, re.M)
last = [l for l in out.splitlines() if l.startswith(pid + ' check')]
json.dump({"property": pid, "tier": tier, "rc": rc, "caught": rc == 1, "violation_keys": keys,
           "summary": last[-1] if last else ""}, open('/verif/seeded/%s/check_result.json' % sid, 'w'), indent=1)
print(sid, "rc", rc, "caught", rc == 1, keys[:6])
PY
git -C /repo worktree remove --force $WT
H=$(python3 -c "import hashlib;print(hashlib.sha1('$WT'.encode()).hexdigest()[:10])")
rm -rf /verif/.build-alt/$H
