#!/usr/bin/env python3
"""enriches seeded/*/meta.json with the confirmation / check results and
regenerates the table of DESIGN.md §12 (between the BEGIN/END markers)."""
import glob, json, os, re
V = "/verif"
rows = []
for d in sorted(glob.glob(V + "/seeded/C*")):
    sid = os.path.basename(d)
    if not (os.path.exists(d + "/meta.json") and os.path.exists(d + "/confirm.json")):
        continue
    m = json.load(open(d + "/meta.json"))
    c = json.load(open(d + "/confirm.json"))
    r = json.load(open(d + "/check_result.json")) if os.path.exists(d + "/check_result.json") else {}
    m["property"] = sid[:3]
    m["confirmed_by_framework_owner"] = {
        "how": "tools/confirm_seed.sh in the seeding agent's own built worktree: incremental rebuild + full ctest with the change, demo with the change, patch reverted + rebuild, demo without the change",
        "tests_passed_with_change": c["tests_passed_with_change"],
        "non_memory_tests_failed_with_change": c["non_memory_tests_failed_with_change"],
        "demo_rc_with_change": c["demo_rc_with_change"], "demo_rc_without_change": c["demo_rc_without_change"]}
    if r:
        m["check_against_change"] = {
            "how": "tools/seedcheck.sh: patch applied to a scratch worktree of /repo HEAD, VF_REPO=<worktree> ./vf check <id> --tier quick (isolated build under /verif/.build-alt, removed afterwards)",
            "caught": r["caught"], "violation_keys": r["violation_keys"][:12]}
    hist = m.get("check_history")
    json.dump(m, open(d + "/meta.json", "w"), indent=1)
    summ = str(m.get("summary", "")).replace("|", "\\|").replace("\n", " ")
    summ = summ[:300] + ("..." if len(summ) > 300 else "")
    needs = str(m.get("needs_to_manifest", "")).replace("|", "\\|").replace("\n", " ")
    needs = needs[:230] + ("..." if len(needs) > 230 else "")
    keys = ", ".join("`%s`" % k for k in (r.get("violation_keys") or [])[:3])
    first = m.get("first_run_missed")
    caught = "yes" if r.get("caught") else "NO"
    if first:
        caught += " (missed at first: %s)" % first
    ok = c["tests_passed_with_change"] == 134 and c["non_memory_tests_failed_with_change"] == 0 and \
        c["demo_rc_with_change"] == 1 and c["demo_rc_without_change"] == 0
    rows.append("| %s | %s | %s | %s | %s | %s |" % (sid, summ, needs, "yes" if ok else "NO", caught, keys))
table = "| id | change | needs | confirmed (134 tests pass, demo fails/passes) | caught by the quick check | keys |\n|---|---|---|---|---|---|\n" + "\n".join(rows)
dm = open(V + "/DESIGN.md").read()
b, e = "<!-- SEEDS-TABLE-BEGIN -->", "<!-- SEEDS-TABLE-END -->"
if b in dm:
    dm = dm[:dm.index(b) + len(b)] + "\n" + table + "\n" + dm[dm.index(e):]
    open(V + "/DESIGN.md", "w").write(dm)
print(len(rows), "seeds;", sum(1 for r_ in rows if "| yes" in r_), "rows")
