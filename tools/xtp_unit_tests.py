#!/usr/bin/env python3
"""Builds and runs those unit tests of /repo/xtp/src/tests that link against the
stand-alone xtp subset (xtp is not built by cmake in this sandbox): used to
check that 'fix:' commits in xtp keep the upstream unit tests green."""
import os, subprocess, sys
sys.path.insert(0, os.path.join(os.path.dirname(os.path.abspath(__file__)), "..", "lib"))
import vfcore as vf
TESTS = sys.argv[1:] or ["test_rate_engine", "test_gnode", "test_eeinteractor", "test_indexparser", "test_glink",
                         "test_qmpair", "test_segment", "test_staticsite", "test_polarsite", "test_atom",
                         "test_dipoledipoleinteraction", "test_polarsegment"]
fl = "fast"
xa = vf.build_xtp_lib(fl)
d = vf.flavour_dir(fl)
out = os.path.join(d, "harness", "xtp_unit")
os.makedirs(out, exist_ok=True)
inc = " ".join(vf._includes(fl)) + " " + vf.xtp_includes(fl)
ok = True
for t in TESTS:
    src = os.path.join(vf.REPO, "xtp/src/tests", t + ".cc")
    exe = os.path.join(out, t)
    cmd = ("g++ -std=c++17 -fopenmp -O1 -DBOOST_TEST_DYN_LINK -DXTP_TEST_DATA_FOLDER='\"%s\"' %s %s -o %s %s "
           "-L%s/tools/src/libtools -Wl,-rpath,%s/tools/src/libtools -lvotca_tools -L/usr/lib/x86_64-linux-gnu/hdf5/serial "
           "-lhdf5_cpp -lhdf5 -lboost_unit_test_framework -lboost_filesystem -lboost_system -lboost_program_options -lpthread"
           % (os.path.join(vf.REPO, "xtp/src/tests/DataFiles"), inc, src, exe, xa, d, d))
    r = subprocess.run(cmd, shell=True, capture_output=True, text=True)
    if r.returncode != 0:
        print("%-32s does not link stand-alone (%s)" % (t, r.stderr.strip().splitlines()[-1][:120] if r.stderr.strip() else "?"))
        continue
    r = subprocess.run([exe], capture_output=True, text=True, cwd=out)
    print("%-32s %s %s" % (t, "PASS" if r.returncode == 0 else "FAIL", (r.stdout + r.stderr).strip().splitlines()[-1][:100]))
    ok = ok and r.returncode == 0
sys.exit(0 if ok else 1)
