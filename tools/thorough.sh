#!/bin/bash
cd /verif
for i in "$@"; do
  s=$(date +%s); out=$(./vf check $i --tier thorough 2>&1); rc=$?; e=$(date +%s)
  echo "$i rc=$rc wall=$((e-s))s $(echo "$out" | grep 'check tier' | tail -1)"
  [ $rc -ne 0 ] && echo "$out" | grep "VIOLATION\|INCONCLUSIVE\|HARNESS" | cut -c1-300
done
