#!/bin/bash
# run every registered quick check for the given seeds on the unchanged tree; print anything that is not "held"
cd /verif
for s in "$@"; do
  for i in $(seq -w 1 20); do
    out=$(VERIF_SEED=$s ./vf check C$i 2>&1); rc=$?
    line=$(echo "$out" | grep "check tier" | tail -1)
    echo "seed=$s C$i rc=$rc $line"
    if [ $rc -ne 0 ]; then echo "$out" | grep "VIOLATION\|INCONCLUSIVE\|HARNESS" | cut -c1-300; fi
  done
done
