#!/bin/bash
# confirm a seeded change in the seeding agent's own (already built) worktree:
#  tests still pass with the change, demo fails with it and passes without it.
# usage: tools/confirm_seed.sh C02   -> writes /verif/seeded/C02/{patch.diff,demo/,meta.json,confirm.json}
ID=$1; W=${2:-}; SFX=""; [ "$W" = "2" ] && SFX=b; [ "$W" = "3" ] && SFX=c; [ "$W" = "4" ] && SFX=d; [ "$W" = "5" ] && SFX=e; [ "$W" = "6" ] && SFX=f; [ "$W" = "7" ] && SFX=g; [ "$W" = "8" ] && SFX=h; [ "$W" = "9" ] && SFX=i; WT=/tmp/seed${W}_$ID; OUT=/tmp/seedwork${W}_$ID/out; DST=/verif/seeded/$ID$SFX
set -u
[ -f $OUT/patch.diff ] || { echo "no patch"; exit 2; }
cd $WT || exit 2
# make sure the change is applied
git apply --check -R $OUT/patch.diff 2>/dev/null || git apply $OUT/patch.diff || { echo "patch state unclear"; exit 2; }
cmake --build _build -j8 > $OUT/../confirm_build1.log 2>&1 || { echo "build with change failed"; exit 2; }
ctest --test-dir _build -j8 --timeout 900 > $OUT/../confirm_ctest.log 2>&1
PASSED=$(grep -c " Passed" $OUT/../confirm_ctest.log)
FAILED=$(grep "Failed\|Not Run\|Timeout" $OUT/../confirm_ctest.log | grep -v memory_test | grep -c "^\s*[0-9]* - ")
bash $OUT/demo/run.sh $WT > $OUT/../confirm_demo_with.log 2>&1; RC_WITH=$?
git apply -R $OUT/patch.diff || exit 2
cmake --build _build -j8 > $OUT/../confirm_build2.log 2>&1
bash $OUT/demo/run.sh $WT > $OUT/../confirm_demo_without.log 2>&1; RC_WITHOUT=$?
git apply $OUT/patch.diff
mkdir -p $DST; rm -rf $DST/demo; cp -r $OUT/patch.diff $OUT/demo $DST/; cp $OUT/meta.json $DST/meta.json
APPLIES=no; git -C /repo apply --check $OUT/patch.diff 2>/dev/null && APPLIES=yes
cat > $DST/confirm.json <<EOT
{"property": "$ID", "tests_passed_with_change": $PASSED, "non_memory_tests_failed_with_change": $FAILED,
 "demo_rc_with_change": $RC_WITH, "demo_rc_without_change": $RC_WITHOUT,
 "demo_tail_with_change": $(tail -3 $OUT/../confirm_demo_with.log | python3 -c 'import json,sys; print(json.dumps(sys.stdin.read()))'),
 "demo_tail_without_change": $(tail -3 $OUT/../confirm_demo_without.log | python3 -c 'import json,sys; print(json.dumps(sys.stdin.read()))'),
 "applies_to_current_repo_head": "$APPLIES", "repo_head": "$(git -C /repo rev-parse --short HEAD)"}
EOT
cat $DST/confirm.json
