#!/bin/bash
# confirm + check seeds sequentially; args like C05 (wave 1) or C05:2 (wave 2)
for a in "$@"; do
  i=${a%%:*}; w=""; sfx=""; [[ "$a" == *:2 ]] && { w=2; sfx=b; }; [[ "$a" == *:3 ]] && { w=3; sfx=c; }; [[ "$a" == *:4 ]] && { w=4; sfx=d; }; [[ "$a" == *:5 ]] && { w=5; sfx=e; }; [[ "$a" == *:6 ]] && { w=6; sfx=f; }; [[ "$a" == *:7 ]] && { w=7; sfx=g; }; [[ "$a" == *:8 ]] && { w=8; sfx=h; }; [[ "$a" == *:9 ]] && { w=9; sfx=i; }
  if [ ! -f /verif/seeded/$i$sfx/confirm.json ]; then /verif/tools/confirm_seed.sh $i $w; fi
  if [ -f /verif/seeded/$i$sfx/confirm.json ] && [ ! -f /verif/seeded/$i$sfx/check_result.json ]; then /verif/tools/seedcheck.sh $i$sfx; fi
done
