#!/bin/bash
# confirm + check a list of seeds sequentially
for i in "$@"; do
  if [ ! -f /verif/seeded/$i/confirm.json ]; then /verif/tools/confirm_seed.sh $i; fi
  if [ -f /verif/seeded/$i/confirm.json ] && [ ! -f /verif/seeded/$i/check_result.json ]; then /verif/tools/seedcheck.sh $i; fi
done
