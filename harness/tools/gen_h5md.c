/* Writes a minimal H5MD 1.0 trajectory for the C05 monitor (votca has no H5MD
 * writer): /h5md (version attribute), /h5md/modules, /particles/<group>/box
 * (dimension attribute; static: dataset edges[3]; time dependent: group edges
 * with dataset value[nframes][3]) and /particles/<group>/position/value
 * [nframes][natoms][3].
 * usage: gen_h5md <file> <nframes> <natoms> <box edge nm> <static|timedep> <seed>
 */
#include <hdf5.h>
#include <stdio.h>
#include <stdlib.h>
#include <string.h>

static unsigned long long state = 88172645463325252ULL;
static double rnd(void) {
  state ^= state << 13;
  state ^= state >> 7;
  state ^= state << 17;
  return (double)(state >> 11) / 9007199254740992.0;
}

int main(int argc, char **argv) {
  if (argc != 7) {
    fprintf(stderr, "usage: %s file nframes natoms box static|timedep seed\n", argv[0]);
    return 2;
  }
  hsize_t nframes = (hsize_t)atoi(argv[2]), natoms = (hsize_t)atoi(argv[3]);
  double L = atof(argv[4]);
  int timedep = strcmp(argv[5], "timedep") == 0;
  state ^= (unsigned long long)atoll(argv[6]) * 0x9e3779b97f4a7c15ULL;
  hid_t f = H5Fcreate(argv[1], H5F_ACC_TRUNC, H5P_DEFAULT, H5P_DEFAULT);
  if (f < 0) return 1;
  hid_t g_h5md = H5Gcreate2(f, "h5md", H5P_DEFAULT, H5P_DEFAULT, H5P_DEFAULT);
  hsize_t two = 2;
  hid_t sp = H5Screate_simple(1, &two, NULL);
  hid_t at = H5Acreate2(g_h5md, "version", H5T_NATIVE_INT, sp, H5P_DEFAULT, H5P_DEFAULT);
  int version[2] = {1, 0};
  H5Awrite(at, H5T_NATIVE_INT, version);
  H5Aclose(at);
  H5Sclose(sp);
  H5Gclose(H5Gcreate2(g_h5md, "modules", H5P_DEFAULT, H5P_DEFAULT, H5P_DEFAULT));
  H5Gclose(g_h5md);
  hid_t g_part = H5Gcreate2(f, "particles", H5P_DEFAULT, H5P_DEFAULT, H5P_DEFAULT);
  hid_t g_atoms = H5Gcreate2(g_part, "atoms", H5P_DEFAULT, H5P_DEFAULT, H5P_DEFAULT);
  hid_t g_box = H5Gcreate2(g_atoms, "box", H5P_DEFAULT, H5P_DEFAULT, H5P_DEFAULT);
  sp = H5Screate(H5S_SCALAR);
  at = H5Acreate2(g_box, "dimension", H5T_NATIVE_INT, sp, H5P_DEFAULT, H5P_DEFAULT);
  int dim = 3;
  H5Awrite(at, H5T_NATIVE_INT, &dim);
  H5Aclose(at);
  H5Sclose(sp);
  double *edges = (double *)malloc(sizeof(double) * 3 * nframes);
  for (hsize_t fr = 0; fr < nframes; ++fr) {
    double s = timedep ? 1.0 + 0.04 * (double)fr : 1.0;
    for (int k = 0; k < 3; ++k) edges[3 * fr + k] = L * s * (1.0 + 0.05 * k);
  }
  if (timedep) {
    hid_t g_e = H5Gcreate2(g_box, "edges", H5P_DEFAULT, H5P_DEFAULT, H5P_DEFAULT);
    hsize_t d2[2] = {nframes, 3};
    sp = H5Screate_simple(2, d2, NULL);
    hid_t ds = H5Dcreate2(g_e, "value", H5T_NATIVE_DOUBLE, sp, H5P_DEFAULT, H5P_DEFAULT, H5P_DEFAULT);
    H5Dwrite(ds, H5T_NATIVE_DOUBLE, H5S_ALL, H5S_ALL, H5P_DEFAULT, edges);
    H5Dclose(ds);
    H5Sclose(sp);
    H5Gclose(g_e);
  } else {
    hsize_t three = 3;
    sp = H5Screate_simple(1, &three, NULL);
    hid_t ds = H5Dcreate2(g_box, "edges", H5T_NATIVE_DOUBLE, sp, H5P_DEFAULT, H5P_DEFAULT, H5P_DEFAULT);
    H5Dwrite(ds, H5T_NATIVE_DOUBLE, H5S_ALL, H5S_ALL, H5P_DEFAULT, edges);
    H5Dclose(ds);
    H5Sclose(sp);
  }
  H5Gclose(g_box);
  hid_t g_pos = H5Gcreate2(g_atoms, "position", H5P_DEFAULT, H5P_DEFAULT, H5P_DEFAULT);
  hsize_t dims[3] = {nframes, natoms, 3};
  sp = H5Screate_simple(3, dims, NULL);
  hid_t ds = H5Dcreate2(g_pos, "value", H5T_NATIVE_DOUBLE, sp, H5P_DEFAULT, H5P_DEFAULT, H5P_DEFAULT);
  size_t n = (size_t)(nframes * natoms * 3);
  double *x = (double *)malloc(n * sizeof(double));
  for (hsize_t fr = 0; fr < nframes; ++fr)
    for (hsize_t i = 0; i < natoms; ++i)
      for (int k = 0; k < 3; ++k) x[(fr * natoms + i) * 3 + k] = edges[3 * fr + k] * rnd();
  H5Dwrite(ds, H5T_NATIVE_DOUBLE, H5S_ALL, H5S_ALL, H5P_DEFAULT, x);
  free(x);
  free(edges);
  H5Dclose(ds);
  H5Sclose(sp);
  H5Gclose(g_pos);
  H5Gclose(g_atoms);
  H5Gclose(g_part);
  H5Fclose(f);
  return 0;
}
