// C16 monitor: structure comparison and graph decomposition are
// label-independent and lossless (DESIGN.md §5 C16).
// Real code: csg::BeadStructure::isStructureEquivalent / isSingleStructure,
// csg::breakIntoStructures, tools::findStructureId<GraphDistVisitor>,
// exploreGraph + GraphDistVisitor, decoupleIsolatedSubGraphs, reduceGraph +
// ReducedGraph::expandGraph.
// Oracle: reference BFS distances, union-find components, and the metamorphic
// relation "relabel the vertices with sparse large ids, insert beads and edges
// in random order -> same verdicts".
#include "vfh.h"
#include <algorithm>
#include <numeric>
#include <atomic>
#include <thread>
#include <votca/tools/graph_df_visitor.h>
#include <csignal>
#include <votca/csg/beadstructure.h>
#include <votca/csg/beadstructurealgorithms.h>
#include <votca/tools/graph.h>
#include <votca/tools/graph_bf_visitor.h>
#include <votca/tools/graphalgorithm.h>
#include <votca/tools/graphdistvisitor.h>
#include <votca/tools/reducedgraph.h>

using namespace votca::tools;
using namespace votca::csg;
using vfh::J;
typedef votca::Index Index;

// ------------------------------------------------------------------ reference graph
struct RG {
  int n = 0;
  std::vector<std::pair<int, int>> e;  // u < v, simple
  std::string cls;
  std::vector<std::string> name;
  std::vector<double> mass;
  void norm() {
    for (auto &p : e) if (p.first > p.second) std::swap(p.first, p.second);
    std::sort(e.begin(), e.end());
    e.erase(std::unique(e.begin(), e.end()), e.end());
    e.erase(std::remove_if(e.begin(), e.end(), [](const std::pair<int, int> &p) { return p.first == p.second; }), e.end());
  }
  std::vector<std::vector<int>> adj() const {
    std::vector<std::vector<int>> a(n);
    for (auto &p : e) { a[p.first].push_back(p.second); a[p.second].push_back(p.first); }
    return a;
  }
  std::vector<int> bfs(int s) const {
    auto a = adj();
    std::vector<int> d(n, -1);
    std::vector<int> q{s};
    d[s] = 0;
    for (size_t h = 0; h < q.size(); ++h)
      for (int w : a[q[h]]) if (d[w] < 0) { d[w] = d[q[h]] + 1; q.push_back(w); }
    return d;
  }
  std::vector<int> comp() const {  // union-find
    std::vector<int> p(n);
    std::iota(p.begin(), p.end(), 0);
    std::function<int(int)> f = [&](int x) { return p[x] == x ? x : p[x] = f(p[x]); };
    for (auto &ed : e) p[f(ed.first)] = f(ed.second);
    std::vector<int> c(n);
    for (int i = 0; i < n; ++i) c[i] = f(i);
    return c;
  }
  int ncomp() const { auto c = comp(); std::set<int> s(c.begin(), c.end()); return (int)s.size(); }
  std::string str() const {
    std::ostringstream o;
    o << n << ":";
    for (auto &p : e) o << p.first << "-" << p.second << ",";
    return o.str();
  }
};

static void add_chain(RG &g, int len) { int b = g.n; g.n += len; for (int i = 0; i + 1 < len; ++i) g.e.push_back({b + i, b + i + 1}); }
static void add_ring(RG &g, int len) { int b = g.n; add_chain(g, len); if (len >= 3) g.e.push_back({b, b + len - 1}); }
static void add_star(RG &g, int arms) { int b = g.n; g.n += arms + 1; for (int i = 1; i <= arms; ++i) g.e.push_back({b, b + i}); }
static void add_tree(RG &g, int nn, vfh::Rng &r, int maxdeg) {
  int b = g.n;
  g.n += nn;
  std::vector<int> deg(nn, 0);
  for (int i = 1; i < nn; ++i) {
    int p;
    int guard = 0;
    do { p = (int)r.range(0, i - 1); } while (deg[p] >= maxdeg && ++guard < 100);
    g.e.push_back({b + p, b + i});
    ++deg[p]; ++deg[i];
  }
}
static void add_fused(RG &g, int r1, int r2) {  // two rings sharing one edge
  int b = g.n;
  add_ring(g, r1);
  int extra = r2 - 2;
  int prev = b;
  for (int i = 0; i < extra; ++i) { int v = g.n++; g.e.push_back({prev, v}); prev = v; }
  g.e.push_back({prev, b + 1});
}
static void add_spiro(RG &g, int r1, int r2) {  // two rings sharing one vertex
  int b = g.n;
  add_ring(g, r1);
  int prev = b;
  for (int i = 0; i < r2 - 1; ++i) { int v = g.n++; g.e.push_back({prev, v}); prev = v; }
  g.e.push_back({prev, b});
}
static void add_theta(RG &g, int l1, int l2, int l3) {  // two junctions joined by three chains with l1,l2,l3 inner vertices
  int a = g.n++, b = g.n++;
  for (int l : {l1, l2, l3}) {
    int prev = a;
    for (int i = 0; i < l; ++i) { int v = g.n++; g.e.push_back({prev, v}); prev = v; }
    g.e.push_back({prev, b});
  }
}
static void add_complete(RG &g, int k) { int b = g.n; g.n += k; for (int i = 0; i < k; ++i) for (int j = i + 1; j < k; ++j) g.e.push_back({b + i, b + j}); }
static void add_ladder(RG &g, int k) { int b = g.n; g.n += 2 * k; for (int i = 0; i < k; ++i) { g.e.push_back({b + 2 * i, b + 2 * i + 1}); if (i + 1 < k) { g.e.push_back({b + 2 * i, b + 2 * i + 2}); g.e.push_back({b + 2 * i + 1, b + 2 * i + 3}); } } }
static void add_ring_tails(RG &g, int ring, int tails, vfh::Rng &r) {
  int b = g.n;
  add_ring(g, ring);
  for (int t = 0; t < tails; ++t) {
    int at = b + (int)r.range(0, ring - 1);
    int len = (int)r.range(1, 3);
    int prev = at;
    for (int i = 0; i < len; ++i) { int v = g.n++; g.e.push_back({prev, v}); prev = v; }
  }
}

// one graph of the "classes up to 12 vertices" family
static RG gen_class(vfh::Rng &r, long idx) {
  RG g;
  int k = (int)(idx % 14);
  switch (k) {
    case 0: add_chain(g, (int)r.range(2, 12)); g.cls = "chain"; break;
    case 1: add_ring(g, (int)r.range(3, 12)); g.cls = "ring"; break;
    case 2: add_fused(g, (int)r.range(3, 6), (int)r.range(3, 6)); g.cls = "fused_rings"; break;
    case 3: add_star(g, (int)r.range(3, 11)); g.cls = "star"; break;
    case 4: add_tree(g, (int)r.range(3, 12), r, 4); g.cls = "tree"; break;
    case 5: add_spiro(g, (int)r.range(3, 6), (int)r.range(3, 6)); g.cls = "spiro_rings"; break;
    case 6: add_theta(g, (int)r.range(0, 3), (int)r.range(1, 3), (int)r.range(1, 4)); g.cls = "theta"; break;
    case 7: add_complete(g, (int)r.range(3, 6)); g.cls = "complete"; break;
    case 8: add_ladder(g, (int)r.range(2, 6)); g.cls = "ladder"; break;
    case 9: add_ring_tails(g, (int)r.range(3, 6), (int)r.range(1, 3), r); g.cls = "ring_with_tails"; break;
    case 10: {  // fused ring chains (naphthalene/anthracene like)
      add_fused(g, 6, 6);
      g.cls = "fused_rings";
      break;
    }
    default: {  // disconnected mixtures incl. isolated vertices
      int parts = (int)r.range(2, 4);
      for (int p = 0; p < parts && g.n < 10; ++p) {
        int w = (int)r.range(0, 5);
        int room = 12 - g.n;
        if (w == 0) g.n += 1;  // isolated vertex
        else if (w == 1) add_chain(g, (int)r.range(2, std::min(5, std::max(2, room))));
        else if (w == 2 && room >= 3) add_ring(g, (int)r.range(3, std::min(6, room)));
        else if (w == 3 && room >= 4) add_star(g, (int)r.range(3, std::min(5, room - 1)));
        else if (w == 4 && room >= 4) add_tree(g, (int)r.range(3, std::min(6, room)), r, 3);
        else g.n += 1;
      }
      g.cls = "disconnected_mixture";
    }
  }
  g.norm();
  return g;
}
static RG gen_random(vfh::Rng &r) {
  RG g;
  g.n = (int)r.range(7, 60);
  int mode = (int)r.range(0, 2);
  if (mode == 0) {  // molecule like: tree + a few ring closures, degree <= 4
    int nn = g.n;
    g.n = 0;
    add_tree(g, nn, r, 4);
    int extra = (int)r.range(0, 5);
    for (int i = 0; i < extra; ++i) g.e.push_back({(int)r.range(0, nn - 1), (int)r.range(0, nn - 1)});
    g.cls = "random_molecule_like";
  } else if (mode == 1) {  // sparse G(n,m), possibly disconnected
    long m = r.range(g.n / 2, (long)(g.n * 1.3));
    for (long i = 0; i < m; ++i) g.e.push_back({(int)r.range(0, g.n - 1), (int)r.range(0, g.n - 1)});
    g.cls = "random_sparse";
  } else {  // denser, small
    g.n = (int)r.range(7, 16);
    double p = r.uni(0.2, 0.6);
    for (int i = 0; i < g.n; ++i) for (int j = i + 1; j < g.n; ++j) if (r.coin(p)) g.e.push_back({i, j});
    g.cls = "random_dense";
  }
  g.norm();
  return g;
}

// all simple graphs on n <= 6 vertices up to isomorphism (canonical = smallest adjacency bit mask over all permutations)
static std::vector<RG> enumerate_small() {
  std::vector<RG> out;
  for (int n = 1; n <= 6; ++n) {
    std::vector<std::pair<int, int>> slots;
    for (int i = 0; i < n; ++i) for (int j = i + 1; j < n; ++j) slots.push_back({i, j});
    int ns = (int)slots.size();
    std::vector<std::vector<int>> slotperm;  // for each permutation: slot -> slot
    std::vector<int> p(n);
    std::iota(p.begin(), p.end(), 0);
    std::vector<std::vector<int>> idx(n, std::vector<int>(n, -1));
    for (int s = 0; s < ns; ++s) idx[slots[s].first][slots[s].second] = idx[slots[s].second][slots[s].first] = s;
    do {
      std::vector<int> sp(ns);
      for (int s = 0; s < ns; ++s) sp[s] = idx[p[slots[s].first]][p[slots[s].second]];
      slotperm.push_back(sp);
    } while (std::next_permutation(p.begin(), p.end()));
    std::set<uint32_t> seen;
    for (uint32_t m = 0; m < (1u << ns); ++m) {
      uint32_t best = m;
      for (auto &sp : slotperm) {
        uint32_t q = 0;
        for (int s = 0; s < ns; ++s) if (m >> s & 1) q |= 1u << sp[s];
        if (q < best) best = q;
      }
      if (best != m || !seen.insert(m).second) continue;
      RG g;
      g.n = n;
      for (int s = 0; s < ns; ++s) if (m >> s & 1) g.e.push_back(slots[s]);
      g.cls = "exhaustive_n" + std::to_string(n);
      g.norm();
      out.push_back(g);
    }
  }
  return out;
}

static void gen_attrs(RG &g, vfh::Rng &r) {
  static const std::vector<std::string> NM = {"C", "H", "O", "N", "C1", "C2", "CA", "S", "P4", "B"};
  static const std::vector<double> MS = {1.008, 12.011, 15.999, 14.007, 32.06, 72.0, 1.0, 100.5};
  g.name.resize(g.n);
  g.mass.resize(g.n);
  int mode = (int)r.range(0, 3);  // 0 all equal, 1 two kinds, 2 random, 3 name by degree
  auto a = g.adj();
  for (int i = 0; i < g.n; ++i) {
    if (mode == 0) { g.name[i] = "C"; g.mass[i] = 12.011; }
    else if (mode == 1) { bool b = r.coin(); g.name[i] = b ? "C" : "H"; g.mass[i] = b ? 12.011 : 1.008; }
    else if (mode == 2) { g.name[i] = r.pick(NM); g.mass[i] = r.pick(MS); }
    else { g.name[i] = "D" + std::to_string(a[i].size()); g.mass[i] = 1.0 + (double)a[i].size(); }
  }
}

// ------------------------------------------------------------------ building the real objects
struct TB {
  Index id; double mass; std::string name;
  Index getId() const { return id; }
  double getMass() const { return mass; }
  std::string getName() const { return name; }
};
struct Labelling {
  std::vector<Index> id;          // reference vertex -> bead id
  std::vector<int> bead_order;    // insertion order of beads
  std::vector<int> edge_order;    // insertion order of edges
  std::vector<char> edge_flip;
};
static Labelling natural(const RG &g) {
  Labelling L;
  L.id.resize(g.n);
  std::iota(L.id.begin(), L.id.end(), 0);
  L.bead_order.resize(g.n);
  std::iota(L.bead_order.begin(), L.bead_order.end(), 0);
  L.edge_order.resize(g.e.size());
  std::iota(L.edge_order.begin(), L.edge_order.end(), 0);
  L.edge_flip.assign(g.e.size(), 0);
  return L;
}
template <class T>
static void shuffle(std::vector<T> &v, vfh::Rng &r) {
  for (size_t i = v.size(); i > 1; --i) std::swap(v[i - 1], v[r.next() % i]);
}
static Labelling relabel(const RG &g, vfh::Rng &r) {
  Labelling L = natural(g);
  int mode = (int)r.range(0, 3);
  std::set<Index> used;
  for (int i = 0; i < g.n; ++i) {
    Index v;
    do {
      if (mode == 0) v = r.range(0, g.n - 1);                       // a permutation of 0..n-1
      else if (mode == 1) v = r.range(0, 10L * g.n + 5);             // small sparse
      else if (mode == 2) v = r.range(0, 2000000000L);               // large sparse
      else v = (Index)(r.next() % 4000000000000000000ULL);           // very large
    } while (!used.insert(v).second);
    L.id[i] = v;
  }
  shuffle(L.bead_order, r);
  shuffle(L.edge_order, r);
  for (auto &f : L.edge_flip) f = r.coin();
  return L;
}
static BeadStructure build(const RG &g, const Labelling &L, int change_name_of = -1, int change_mass_of = -1) {
  BeadStructure bs;
  for (int k : L.bead_order) {
    TB b{L.id[k], g.mass[k], g.name[k]};
    if (k == change_name_of) b.name = (g.name[k] == "X9") ? "Y9" : "X9";
    if (k == change_mass_of) b.mass = g.mass[k] * 1.25 + 0.5;
    bs.AddBead(b);
  }
  for (int q : L.edge_order) {
    Index a = L.id[g.e[q].first], b = L.id[g.e[q].second];
    if (L.edge_flip[q]) std::swap(a, b);
    bs.ConnectBeads(a, b);
  }
  return bs;
}
static J witness(const RG &g, const Labelling &L) {
  J j;
  std::vector<long> ids(L.id.begin(), L.id.end());
  std::vector<long> ef;
  for (int q : L.edge_order) {
    Index a = L.id[g.e[q].first], b = L.id[g.e[q].second];
    if (L.edge_flip[q]) std::swap(a, b);
    ef.push_back(a); ef.push_back(b);
  }
  std::vector<long> bo;
  for (int k : L.bead_order) bo.push_back(L.id[k]);
  std::string names;
  for (int k : L.bead_order) names += g.name[k] + " ";
  std::vector<double> ms;
  for (int k : L.bead_order) ms.push_back(g.mass[k]);
  j.s("class", g.cls).i("n", g.n).s("reference_edges", g.str()).vec("bead_ids_in_insertion_order", bo).s("bead_names_in_insertion_order", names).vec("bead_masses_in_insertion_order", ms).vec("edges_in_insertion_order_flat", ef);
  return j;
}

typedef std::set<std::pair<Index, Index>> ESet;
static ESet eset(const std::vector<Edge> &v, bool &dup) {
  ESet s;
  for (auto &e : v) if (!s.insert({e.getEndPoint1(), e.getEndPoint2()}).second) dup = true;
  return s;
}
static std::vector<long> flat(const ESet &s) {
  std::vector<long> f;
  for (auto &p : s) { f.push_back(p.first); f.push_back(p.second); }
  return f;
}

struct Ctx {
  vfh::Reporter &R;
  vfh::Rng &rng;
};

// all monitors on one (graph, labelling)
static void judge(Ctx &C, const RG &g, const Labelling &L, bool exhaustive_starts) {
  vfh::Reporter &R = C.R;
  vfh::Rng &rng = C.rng;
  Labelling N = natural(g);
  J wit = witness(g, L);
  vfh::set_case(wit.str());
  std::map<Index, int> back;
  for (int i = 0; i < g.n; ++i) back[L.id[i]] = i;
  ESet Eref;
  for (auto &p : g.e) { Index a = L.id[p.first], b = L.id[p.second]; Eref.insert({std::min(a, b), std::max(a, b)}); }
  std::vector<int> comp = g.comp();
  int ncomp = g.ncomp();
  bool connected = ncomp == 1;
  const std::string fam = g.cls;
  try {
    // ---- (1) equivalence under relabelling / insertion order
    BeadStructure A = build(g, N), B = build(g, L);
    R.eval("equiv_relabel:" + fam);
    bool ab = A.isStructureEquivalent(B), ba = B.isStructureEquivalent(A);
    if (!ab || !ba)
      R.violation("equiv/relabelled-structure-not-equivalent", "a structure and its relabelled / re-ordered copy are reported as different", wit);
    // ---- (2) one name / one mass changed -> different
    if (g.n >= 1) {
      int k = (int)rng.range(0, g.n - 1);
      BeadStructure Bn = build(g, L, k, -1);
      R.eval("equiv_name_changed");
      if (A.isStructureEquivalent(Bn)) R.violation("equiv/name-change-not-detected", "structures whose bead-name multisets differ are reported as equivalent", witness(g, L).i("changed_bead_id", L.id[k]));
      k = (int)rng.range(0, g.n - 1);
      BeadStructure Bm = build(g, L, -1, k);
      R.eval("equiv_mass_changed");
      if (A.isStructureEquivalent(Bm)) R.violation("equiv/mass-change-not-detected", "structures whose bead-mass multisets differ are reported as equivalent", witness(g, L).i("changed_bead_id", L.id[k]));
    }
    // ---- (3) single structure
    {
      R.eval("single_structure");
      bool want = connected && g.n >= 2;
      bool got = B.isSingleStructure(), got2 = B.isSingleStructure();
      if (got != want || got2 != want)
        R.violation("single/wrong-verdict", "isSingleStructure differs from 'connected and no isolated vertex'", witness(g, L).b("got", got).b("got_second_call", got2).b("expected", want));
    }
    // ---- (4) breakIntoStructures = connected components
    {
      R.eval("break_into_structures");
      std::vector<BeadStructure> parts = breakIntoStructures(B);
      std::map<Index, int> seenv;
      ESet seene;
      std::string bad;
      for (size_t pi = 0; pi < parts.size() && bad.empty(); ++pi) {
        std::vector<Index> ids = parts[pi].getBeadIds();
        if (ids.empty()) { bad = "empty part"; break; }
        int c0 = -1;
        for (Index id : ids) {
          if (!back.count(id)) { bad = "unknown bead id in a part"; break; }
          if (seenv.count(id)) { bad = "bead in two parts"; break; }
          seenv[id] = (int)pi;
          int c = comp[back[id]];
          if (c0 < 0) c0 = c; else if (c != c0) { bad = "part spans two components"; break; }
        }
        if (!bad.empty()) break;
        bool dup = false;
        Graph pg = parts[pi].getGraph();
        ESet pe = eset(pg.getEdges(), dup);
        if (dup) { bad = "duplicate edge in a part"; break; }
        for (auto &e : pe) {
          if (!Eref.count(e)) { bad = "edge not in the original structure"; break; }
          if (!seene.insert(e).second) { bad = "edge in two parts"; break; }
          if (!seenv.count(e.first) || seenv[e.first] != (int)pi || !seenv.count(e.second) || seenv[e.second] != (int)pi) { bad = "edge leaves its part"; break; }
        }
        for (Index id : ids) {
          if (!bad.empty()) break;
          GraphNode gn = pg.getNode(id);
          if (gn.getStr("Name") != g.name[back[id]] || gn.getDouble("Mass") != g.mass[back[id]]) bad = "bead attributes changed";
        }
      }
      if (bad.empty() && (int)parts.size() != ncomp) bad = "number of parts != number of connected components";
      if (bad.empty() && (int)seenv.size() != g.n) bad = "a bead is in no part";
      if (bad.empty() && seene.size() != Eref.size()) bad = "an edge is in no part";
      if (!bad.empty()) R.violation("break/not-the-connected-components", "breakIntoStructures: " + bad, witness(g, L).i("parts", (long)parts.size()).i("components", ncomp));
    }
    // a fresh structure: isStructureEquivalent leaves the distance labels of its own exploration in the cached graph
    Graph G = build(g, L).getGraph();
    // ---- (5) decoupleIsolatedSubGraphs
    {
      R.eval("decouple_subgraphs");
      std::vector<Graph> subs = decoupleIsolatedSubGraphs(G);
      std::map<Index, int> seenv;
      ESet seene;
      std::string bad;
      for (size_t pi = 0; pi < subs.size() && bad.empty(); ++pi) {
        std::vector<Index> vs = subs[pi].getVertices();
        if (vs.empty()) { bad = "empty subgraph"; break; }
        int c0 = -1;
        for (Index id : vs) {
          if (!back.count(id)) { bad = "unknown vertex"; break; }
          if (seenv.count(id)) { bad = "vertex in two subgraphs"; break; }
          seenv[id] = (int)pi;
          int c = comp[back[id]];
          if (c0 < 0) c0 = c; else if (c != c0) { bad = "subgraph spans two components"; break; }
          if (subs[pi].getNode(id) != G.getNode(id)) { bad = "node content changed"; break; }
        }
        if (!bad.empty()) break;
        bool dup = false;
        ESet pe = eset(subs[pi].getEdges(), dup);
        if (dup) { bad = "duplicate edge in a subgraph"; break; }
        for (auto &e : pe) {
          if (!Eref.count(e)) { bad = "edge not in the graph"; break; }
          if (!seene.insert(e).second) { bad = "edge in two subgraphs"; break; }
          if (!seenv.count(e.first) || seenv[e.first] != (int)pi || !seenv.count(e.second) || seenv[e.second] != (int)pi) { bad = "edge leaves its subgraph"; break; }
        }
      }
      if (bad.empty() && (int)subs.size() != ncomp) bad = "number of subgraphs != number of connected components";
      if (bad.empty() && (int)seenv.size() != g.n) bad = "a vertex is in no subgraph";
      if (bad.empty() && seene.size() != Eref.size()) bad = "an edge is in no subgraph";
      if (!bad.empty()) R.violation("decouple/not-the-connected-components", "decoupleIsolatedSubGraphs: " + bad, witness(g, L).i("subgraphs", (long)subs.size()).i("components", ncomp));
    }
    // ---- (6) BFS distances
    {
      std::vector<int> starts;
      if (exhaustive_starts) { for (int i = 0; i < g.n; ++i) starts.push_back(i); }
      else { for (int q = 0; q < 3; ++q) starts.push_back((int)rng.range(0, g.n - 1)); }
      for (int s : starts) {
        R.eval("bfs_distance");
        Graph H = G;
        GraphDistVisitor gv;
        gv.setStartingVertex(L.id[s]);
        exploreGraph(H, gv);
        std::vector<int> d = g.bfs(s);
        std::set<Index> expl = gv.getExploredVertices();
        std::string bad;
        long badv = -1, gotd = -2, wantd = -2;
        for (int i = 0; i < g.n && bad.empty(); ++i) {
          GraphNode gn = H.getNode(L.id[i]);
          bool has = true;
          Index dist = -1;
          try { dist = gn.getInt("Dist"); } catch (std::invalid_argument &) { has = false; }
          if (d[i] >= 0) {
            if (!has) bad = "reachable vertex has no distance label";
            else if (dist != d[i]) bad = "distance label is not the shortest-path hop count";
            else if (!expl.count(L.id[i])) bad = "reachable vertex not in the explored set";
          } else {
            if (has) bad = "unreachable vertex has a distance label";
            else if (expl.count(L.id[i])) bad = "unreachable vertex in the explored set";
          }
          if (!bad.empty()) { badv = L.id[i]; gotd = has ? (long)dist : -1; wantd = d[i]; }
        }
        if (!bad.empty())
          R.violation("dist/not-shortest-path", "exploreGraph+GraphDistVisitor: " + bad, witness(g, L).i("start", L.id[s]).i("vertex", badv).i("got", gotd).i("expected", wantd));
      }
    }
    // ---- (7) reduce + expand
    {
      R.eval("reduce_expand");
      ReducedGraph rg = reduceGraph(G);
      Graph X = rg.expandGraph();
      std::vector<Index> xv = X.getVertices();
      std::set<Index> xs(xv.begin(), xv.end());
      bool dup = false;
      ESet xe = eset(X.getEdges(), dup);
      std::set<Index> want;
      for (Index id : L.id) want.insert(id);
      std::string bad;
      if (xs != want || xs.size() != xv.size()) bad = "vertex set differs";
      else if (xe != Eref) {
        bad = "edge set differs";
      }
      if (!bad.empty()) {
        ESet missing, extra;
        for (auto &e : Eref) if (!xe.count(e)) missing.insert(e);
        for (auto &e : xe) if (!Eref.count(e)) extra.insert(e);
        R.violation("reduce/expand-not-lossless", "expand(reduce(G)): " + bad, witness(g, L).vec("missing_edges_flat", flat(missing)).vec("extra_edges_flat", flat(extra)).i("vertices_got", (long)xv.size()));
      } else if (dup) {
        R.violation("reduce/expand-duplicate-edge", "expand(reduce(G)) returns an edge of the simple graph G more than once", wit);
      } else {
        for (Index id : L.id)
          if (X.getNode(id) != G.getNode(id)) { R.violation("reduce/expand-node-content", "expand(reduce(G)) changed a node's content", witness(g, L).i("vertex", id)); break; }
      }
    }
    // ---- (8) structure id of the plain graphs (small graphs only: monitor (1) runs the same function, and each
    //      call explores the graph from every vertex of maximal degree)
    if (g.n <= 12) {
      R.eval("structure_id");
      Graph GA = build(g, N).getGraph(), GB = build(g, L).getGraph();
      std::string ia = findStructureId<GraphDistVisitor>(GA), ib = findStructureId<GraphDistVisitor>(GB);
      if (ia != ib) R.violation("structid/label-dependent", "findStructureId differs between a graph and its relabelled copy", witness(g, L).s("id_natural", ia).s("id_relabelled", ib));
    }
  } catch (std::exception &e) {
    R.violation("exception/" + std::string(typeid(e).name()), std::string("library threw on a valid simple graph: ") + e.what(), wit);
  }
  // non-trivial: at least two edges and a labelling that is not the natural one
  bool ident = true;
  for (int i = 0; i < g.n; ++i) ident &= (L.id[i] == i);
  if (g.e.size() >= 2 && !ident) {
    uint64_t h = vfh::hstr(3, g.str());
    for (Index v : L.id) h = vfh::hmix(h, (uint64_t)v);
    for (int q : L.edge_order) h = vfh::hmix(h, (uint64_t)q);
    for (auto &nm : g.name) h = vfh::hstr(h, nm);
    R.nontrivial(h);
  }
  if (R.want_sample() && g.n >= 5 && !ident && g.e.size() >= 4) R.sample(witness(g, L).i("components", ncomp).b("connected", connected));
  R.counter("graphs_with_" + std::string(connected ? "one_component" : "several_components"));
  R.counter_max("max_vertices", g.n);
  R.counter_max("max_edges", (long)g.e.size());
}

// ------------------------------------------------------------------ reuse: objects queried repeatedly and modified in between
// Reference for every query on a re-used object: the absolute oracle where the statement gives one (relabelled
// copies are equivalent, different bead multisets are different, single <=> connected without isolated vertex,
// parts = union-find components) and otherwise the same query on freshly built objects of identical content.
static std::string check_parts(std::vector<BeadStructure> parts, const RG &g, const Labelling &L) {
  std::map<Index, int> back;
  for (int i = 0; i < g.n; ++i) back[L.id[i]] = i;
  ESet Eref;
  for (auto &p : g.e) { Index a = L.id[p.first], b = L.id[p.second]; Eref.insert({std::min(a, b), std::max(a, b)}); }
  std::vector<int> comp = g.comp();
  std::map<Index, int> seenv;
  ESet seene;
  for (size_t pi = 0; pi < parts.size(); ++pi) {
    std::vector<Index> ids = parts[pi].getBeadIds();
    if (ids.empty()) return "empty part";
    int c0 = -1;
    for (Index id : ids) {
      if (!back.count(id)) return "unknown bead id in a part";
      if (seenv.count(id)) return "bead in two parts";
      seenv[id] = (int)pi;
      int c = comp[back[id]];
      if (c0 < 0) c0 = c; else if (c != c0) return "part spans two components";
    }
    bool dup = false;
    ESet pe = eset(parts[pi].getGraph().getEdges(), dup);
    if (dup) return "duplicate edge in a part";
    for (auto &e : pe) {
      if (!Eref.count(e)) return "edge not in the structure";
      if (!seene.insert(e).second) return "edge in two parts";
      if (!seenv.count(e.first) || seenv[e.first] != (int)pi || !seenv.count(e.second) || seenv[e.second] != (int)pi) return "edge leaves its part";
    }
  }
  if ((int)parts.size() != g.ncomp()) return "number of parts != number of connected components";
  if ((int)seenv.size() != g.n) return "a bead is in no part";
  if (seene.size() != Eref.size()) return "an edge is in no part";
  return "";
}
static void judge_reuse(Ctx &C, const RG &g0, const Labelling &L0) {
  vfh::Reporter &R = C.R;
  vfh::Rng &rng = C.rng;
  RG g = g0;
  Labelling N = natural(g), L = L0;
  std::ostringstream hist;  // what was done to the two objects, for the witness
  auto wit = [&]() { J j = witness(g, L); j.s("history", hist.str()); return j; };
  { J j = witness(g0, L0); j.s("family", "reuse"); vfh::set_case(j.str()); }
  try {
    BeadStructure A = build(g, N), B = build(g, L);
    auto want_single = [&]() { return g.ncomp() == 1 && g.n >= 2; };
    auto q_single = [&](const char *when) {
      R.eval("reuse_single_structure");
      bool got = B.isSingleStructure(), got2 = A.isSingleStructure();
      hist << "isSingleStructure;";
      if (got != want_single() || got2 != want_single())
        R.violation("structure-reuse/single-structure", std::string("isSingleStructure on a re-used structure (") + when + ") differs from 'connected and no isolated vertex'", wit().b("got_relabelled", got).b("got_natural", got2).b("expected", want_single()));
    };
    auto q_break = [&](const char *when) {
      R.eval("reuse_break_into_structures");
      std::string bad = check_parts(breakIntoStructures(B), g, L);
      hist << "breakIntoStructures;";
      if (!bad.empty()) R.violation("structure-reuse/break-into-structures", std::string("breakIntoStructures on a re-used structure (") + when + "): " + bad, wit());
    };
    auto q_equiv = [&](bool expect, const char *when) {
      R.eval("reuse_equivalence");
      bool ab = A.isStructureEquivalent(B), ba = B.isStructureEquivalent(A), ab2 = A.isStructureEquivalent(B);
      hist << "A~B,B~A,A~B;";
      if (ab != ba || ab != ab2)
        R.violation("structure-reuse/repeated-query-disagrees", std::string("isStructureEquivalent gives different answers when repeated / reversed (") + when + ")", wit().b("a_b", ab).b("b_a", ba).b("a_b_again", ab2));
      else if (ab != expect)
        R.violation("structure-reuse/equivalence-after-modification", std::string("isStructureEquivalent on re-used structures (") + when + ") is wrong", wit().b("got", ab).b("expected", expect));
    };
    // order of the first queries varies: break before single and vice versa, equivalence first or last
    int order = (int)rng.range(0, 2);
    if (order == 0) { q_single("first query"); q_break("after isSingleStructure"); q_equiv(true, "after single/break"); }
    else if (order == 1) { q_break("first query"); q_single("after breakIntoStructures"); q_equiv(true, "after break/single"); }
    else { q_equiv(true, "first query"); q_break("after isStructureEquivalent"); q_single("after equivalence/break"); }
    // ---- modifications in between: new bead (attached or isolated), new connection
    int nmods = (int)rng.range(1, 3);
    for (int m = 0; m < nmods; ++m) {
      bool new_bead = rng.coin(0.65) || g.n < 2;
      if (new_bead) {
        int v = g.n;
        std::string nm = rng.coin() ? g.name[rng.next() % g.n] : std::string("Q7");
        double ms = rng.coin() ? g.mass[rng.next() % g.n] : 55.5;
        bool attach = rng.coin(0.7);
        int u = (int)rng.range(0, g.n - 1);
        Index newid;
        std::set<Index> used(L.id.begin(), L.id.end());
        do { newid = rng.range(0, 3000000000L); } while (used.count(newid));
        // first only the relabelled structure gets the bead: bead multisets differ -> must be different
        B.AddBead(TB{newid, ms, nm});
        hist << "B.AddBead(" << newid << "," << nm << ");";
        {
          R.eval("reuse_equivalence");
          bool ab = A.isStructureEquivalent(B), ba = B.isStructureEquivalent(A);
          hist << "A~B,B~A;";
          if (ab || ba) R.violation("structure-reuse/equivalence-after-modification", "a bead added to one of two equivalent structures after a query: still reported equivalent (stale structure id)", wit().b("a_b", ab).b("b_a", ba));
        }
        A.AddBead(TB{(Index)v, ms, nm});
        hist << "A.AddBead(" << v << ");";
        g.n += 1; g.name.push_back(nm); g.mass.push_back(ms);
        L.id.push_back(newid); L.bead_order.push_back(v);
        N.id.push_back(v); N.bead_order.push_back(v);
        if (attach) {
          g.e.push_back({u, v});
          L.edge_order.push_back((int)g.e.size() - 1); L.edge_flip.push_back(0);
          N.edge_order.push_back((int)g.e.size() - 1); N.edge_flip.push_back(0);
          A.ConnectBeads(u, v);
          B.ConnectBeads(newid, L.id[u]);
          hist << "connect(" << u << "," << v << ");";
        }
      } else {
        // a new connection between two beads that are not connected yet (if there is one)
        std::set<std::pair<int, int>> es(g.e.begin(), g.e.end());
        int u = -1, v = -1;
        for (int t = 0; t < 30 && u < 0; ++t) {
          int a = (int)rng.range(0, g.n - 1), b = (int)rng.range(0, g.n - 1);
          if (a == b) continue;
          if (a > b) std::swap(a, b);
          if (!es.count({a, b})) { u = a; v = b; }
        }
        if (u < 0) continue;
        // first only one structure: the verdict must be what freshly built structures give
        B.ConnectBeads(L.id[v], L.id[u]);
        hist << "B.connect(" << u << "," << v << ");";
        {
          RG g2 = g;
          g2.e.push_back({u, v});
          Labelling L2 = L;
          L2.edge_order.push_back((int)g2.e.size() - 1); L2.edge_flip.push_back(0);
          BeadStructure FA = build(g, N), FB = build(g2, L2);
          bool fresh = FA.isStructureEquivalent(FB);
          R.eval("reuse_equivalence");
          bool ab = A.isStructureEquivalent(B), ba = B.isStructureEquivalent(A);
          hist << "A~B,B~A;";
          if (ab != fresh || ba != fresh) R.violation("structure-reuse/equivalence-after-modification", "a connection added to one structure after a query: verdict differs from freshly built structures (stale structure id)", wit().b("a_b", ab).b("b_a", ba).b("fresh", fresh));
        }
        A.ConnectBeads(u, v);
        hist << "A.connect;";
        g.e.push_back({u, v});
        L.edge_order.push_back((int)g.e.size() - 1); L.edge_flip.push_back(0);
        N.edge_order.push_back((int)g.e.size() - 1); N.edge_flip.push_back(0);
      }
      // both structures modified alike: relabelled copies again
      int o2 = (int)rng.range(0, 2);
      if (o2 == 0) { q_equiv(true, "after the same modification of both"); q_single("after modification"); q_break("after modification"); }
      else if (o2 == 1) { q_break("after modification"); q_equiv(true, "after the same modification of both"); q_single("after modification"); }
      else { q_single("after modification"); q_break("after modification"); q_equiv(true, "after the same modification of both"); }
    }
    // the cached graph after all of this has the structure's vertices and edges
    {
      R.eval("reuse_getgraph");
      Graph G = B.getGraph();
      std::vector<Index> vs = G.getVertices();
      std::set<Index> got(vs.begin(), vs.end()), want(L.id.begin(), L.id.end());
      bool dup = false;
      ESet ge = eset(G.getEdges(), dup), Eref;
      for (auto &p : g.e) { Index a = L.id[p.first], b = L.id[p.second]; Eref.insert({std::min(a, b), std::max(a, b)}); }
      if (got != want || ge != Eref || dup) R.violation("structure-reuse/getgraph", "getGraph() of a modified structure does not have its beads and connections", wit());
    }
    // ---- Graph objects used more than once
    {
      Graph G = build(g, L).getGraph();
      Graph fresh = G;
      std::string id_fresh = findStructureId<GraphDistVisitor>(fresh);
      std::string id1 = findStructureId<GraphDistVisitor>(G), id2 = findStructureId<GraphDistVisitor>(G);
      R.eval("reuse_structure_id_twice");
      if (id1 != id_fresh) R.violation("graph-reuse/structure-id", "findStructureId of a copy differs from the original's", wit());
      else if (id2 != id1) {
        // a second call starts from a graph that carries the labels of the first; for a connected graph every label is
        // rewritten, for a disconnected one the components not reached keep the old labels (not covered by the statement)
        if (g.ncomp() == 1) R.violation("graph-reuse/structure-id", "findStructureId called twice on the same connected Graph object gives two different ids", wit().s("first", id1).s("second", id2));
        else R.counter("obs_structure_id_second_call_differs_on_disconnected_graph");
      }
      // explore the labelled graph again from another start: reachable vertices carry the distances of THIS start
      int s = (int)rng.range(0, g.n - 1);
      GraphDistVisitor gv;
      gv.setStartingVertex(L.id[s]);
      exploreGraph(G, gv);
      std::vector<int> d = g.bfs(s);
      R.eval("reuse_second_exploration");
      for (int i = 0; i < g.n; ++i) {
        GraphNode gn = G.getNode(L.id[i]);
        bool has = true;
        Index dist = -1;
        try { dist = gn.getInt("Dist"); } catch (std::invalid_argument &) { has = false; }
        if (d[i] >= 0 && (!has || dist != d[i])) { R.violation("graph-reuse/dist-second-exploration", "a second exploration of the same Graph object leaves a wrong distance on a reachable vertex", wit().i("start", L.id[s]).i("vertex", L.id[i]).i("got", has ? (long)dist : -1).i("expected", d[i])); break; }
        if (d[i] < 0 && has) R.counter("obs_stale_distance_label_on_unreachable_vertex");
      }
      // reduce + expand of the graph that was explored before
      R.eval("reuse_reduce_after_explore");
      Graph X = reduceGraph(G).expandGraph();
      std::vector<Index> xv = X.getVertices();
      std::set<Index> xs(xv.begin(), xv.end()), want(L.id.begin(), L.id.end());
      bool dup = false;
      ESet xe = eset(X.getEdges(), dup), Eref;
      for (auto &p : g.e) { Index a = L.id[p.first], b = L.id[p.second]; Eref.insert({std::min(a, b), std::max(a, b)}); }
      if (xs != want || xe != Eref || dup || xs.size() != xv.size()) R.violation("graph-reuse/reduce-after-explore", "expand(reduce(G)) of a graph that was explored before is not lossless", wit());
      // and the decomposition of the explored graph
      R.eval("reuse_decouple_after_explore");
      std::vector<Graph> subs = decoupleIsolatedSubGraphs(G);
      size_t nv = 0, ne = 0;
      for (auto &sg : subs) { nv += sg.getVertices().size(); ne += sg.getEdges().size(); }
      if ((int)subs.size() != g.ncomp() || nv != (size_t)g.n || ne != Eref.size()) R.violation("graph-reuse/decouple-after-explore", "decoupleIsolatedSubGraphs of a graph that was explored before: components differ", wit().i("subgraphs", (long)subs.size()).i("components", g.ncomp()));
    }
    if (g.e.size() >= 2) {
      uint64_t h = vfh::hstr(7, g.str());
      for (Index v : L.id) h = vfh::hmix(h, (uint64_t)v);
      R.nontrivial(vfh::hstr(h, hist.str()));
    }
    if (R.want_sample() && g.n >= 5 && g.n <= 9) R.sample(wit());
  } catch (std::exception &e) {
    R.violation("exception/reuse/" + std::string(typeid(e).name()), std::string("library threw on a valid sequence of operations: ") + e.what(), wit());
  }
}

// ------------------------------------------------------------------ explorations in progress at the same time
// (i) interleaved: several visitors on their own graphs (sharing vertex numbers) are advanced alternately through
//     the public stepping API; (ii) concurrent: threads with private objects. Reference: the same work done alone.
static std::string dist_string(Graph &G, const std::vector<Index> &ids) {
  std::ostringstream o;
  for (Index id : ids) {
    GraphNode gn = G.getNode(id);
    o << id << ":";
    try { o << gn.getInt("Dist"); } catch (std::invalid_argument &) { o << "-"; }
    o << ",";
  }
  return o.str();
}
static std::string set_string(const std::set<Index> &s) {
  std::ostringstream o;
  for (Index v : s) o << v << ",";
  return o.str();
}
struct Stepper {
  int kind;  // 0 dist, 1 bf, 2 df
  Graph G;
  GraphDistVisitor vd;
  Graph_BF_Visitor vb;
  Graph_DF_Visitor vf_;
  GraphVisitor &v() { return kind == 0 ? (GraphVisitor &)vd : kind == 1 ? (GraphVisitor &)vb : (GraphVisitor &)vf_; }
  void start(Index s) { v().setStartingVertex(s); v().initialize(G); }
  bool done() { return v().queEmpty(); }
  void step() { Edge e = v().nextEdge(G); v().exec(G, e); }
  std::string result(const std::vector<Index> &ids) { return (kind == 0 ? dist_string(G, ids) : std::string()) + "|" + set_string(v().getExploredVertices()); }
};
static const char *KIND[] = {"dist", "bf", "df"};
static void run_interleaved(vfh::Rng &rng, vfh::Reporter &R, long n) {
  for (long it = 0; it < n; ++it) {
    int k = (int)rng.range(2, 3);
    std::vector<RG> gs;
    std::vector<Labelling> Ls;
    std::vector<int> kinds, starts;
    std::string desc;
    for (int q = 0; q < k; ++q) {
      RG g;
      if (it % 4 == 0) { add_chain(g, 4 + (int)rng.range(0, 4)); g.cls = "chain"; g.norm(); }
      else g = gen_class(rng, rng.range(0, 13));
      gen_attrs(g, rng);
      gs.push_back(g);
      Ls.push_back(natural(g));  // the graphs share their vertex numbers on purpose
      kinds.push_back(rng.coin(0.6) ? 0 : (int)rng.range(1, 2));
      int st = (it % 4 == 0) ? (q % 2 ? g.n - 1 : 0) : (int)rng.range(0, g.n - 1);
      starts.push_back(st);
      desc += std::string(KIND[kinds[q]]) + " on " + g.str() + " from " + std::to_string(st) + "; ";
    }
    try {
      // one after another
      std::vector<std::string> ref(k), got(k);
      for (int q = 0; q < k; ++q) {
        Stepper S;
        S.kind = kinds[q];
        S.G = build(gs[q], Ls[q]).getGraph();
        S.start(Ls[q].id[starts[q]]);
        while (!S.done()) S.step();
        ref[q] = S.result(Ls[q].id);
        if (kinds[q] == 0) {  // and the reference BFS
          std::vector<int> d = gs[q].bfs(starts[q]);
          std::ostringstream o;
          for (int i = 0; i < gs[q].n; ++i) { o << i << ":"; if (d[i] >= 0) o << d[i]; else o << "-"; o << ","; }
          if (ref[q].substr(0, ref[q].find('|')) != o.str()) R.violation("dist/not-shortest-path", "stepped exploration (run alone) differs from the reference BFS", J().s("explorations", desc).s("got", ref[q]).s("bfs", o.str()));
        }
      }
      // interleaved
      std::vector<std::unique_ptr<Stepper>> S;
      for (int q = 0; q < k; ++q) {
        S.emplace_back(new Stepper);
        S[q]->kind = kinds[q];
        S[q]->G = build(gs[q], Ls[q]).getGraph();
      }
      std::string schedule;
      bool init_first = rng.coin();
      if (init_first) for (int q = 0; q < k; ++q) S[q]->start(Ls[q].id[starts[q]]);
      std::vector<char> started(k, init_first ? 1 : 0);
      long guard = 0;
      for (;;) {
        std::vector<int> live;
        for (int q = 0; q < k; ++q) if (!started[q] || !S[q]->done()) live.push_back(q);
        if (live.empty() || ++guard > 100000) break;
        int q = live[rng.next() % live.size()];
        if (!started[q]) { S[q]->start(Ls[q].id[starts[q]]); started[q] = 1; schedule += "i"; }
        else { S[q]->step(); }
        if (schedule.size() < 400) schedule += char('0' + q);
      }
      for (int q = 0; q < k; ++q) {
        got[q] = S[q]->result(Ls[q].id);
        R.eval(std::string("interleaved_") + KIND[kinds[q]]);
        if (got[q] != ref[q])
          R.violation(std::string("interleaved/") + KIND[kinds[q]] + "/differs-from-sequential", "an exploration advanced alternately with others gives another result than the same exploration run alone",
                      J().s("explorations", desc).i("which", q).s("schedule_first400", schedule).s("interleaved", got[q]).s("alone", ref[q]));
      }
      R.nontrivial(vfh::hstr(vfh::hstr(61, desc), schedule));
      if (R.want_sample() && it % 40 == 1) R.sample(J().s("explorations", desc).s("schedule_first400", schedule).s("result_0", got[0]));
    } catch (std::exception &e) {
      R.violation("exception/interleaved", std::string("library threw: ") + e.what(), J().s("explorations", desc));
    }
  }
}

static const char *OPN[] = {"explore-dist", "structure-id", "is-structure-equivalent", "reduce-expand", "decouple"};
struct Task { RG g; Labelling L, L2; int op; int start; };
static std::string run_task(const Task &t) {
  try {
    if (t.op == 2) {
      BeadStructure A = build(t.g, t.L), B = build(t.g, t.L2);
      return std::string(A.isStructureEquivalent(B) ? "1" : "0") + (B.isStructureEquivalent(A) ? "1" : "0");
    }
    Graph G = build(t.g, t.L).getGraph();
    if (t.op == 0) {
      GraphDistVisitor gv;
      gv.setStartingVertex(t.L.id[t.start]);
      exploreGraph(G, gv);
      return dist_string(G, t.L.id);
    }
    if (t.op == 1) return findStructureId<GraphDistVisitor>(G);
    if (t.op == 3) {
      Graph X = reduceGraph(G).expandGraph();
      bool dup = false;
      ESet e = eset(X.getEdges(), dup);
      std::ostringstream o;
      for (auto &p : e) o << p.first << "-" << p.second << ",";
      o << (dup ? "dup" : "") << "|" << X.getVertices().size();
      return o.str();
    }
    std::vector<Graph> subs = decoupleIsolatedSubGraphs(G);
    std::set<std::string> parts;
    for (auto &sg : subs) { std::vector<Index> v = sg.getVertices(); parts.insert(set_string(std::set<Index>(v.begin(), v.end()))); }
    std::string o;
    for (auto &p : parts) o += p + ";";
    return o;
  } catch (std::exception &e) {
    return std::string("EXCEPTION: ") + e.what();
  }
}
static void run_concurrent(vfh::Rng &rng, vfh::Reporter &R, int T, long rounds, long tasks_per_thread) {
  for (long round = 0; round < rounds; ++round) {
    std::vector<std::vector<Task>> tasks(T);
    std::vector<std::vector<std::string>> serial(T), conc(T);
    for (int th = 0; th < T; ++th)
      for (long q = 0; q < tasks_per_thread; ++q) {
        Task t;
        if (q % 3 == 0) { add_chain(t.g, 4 + (int)rng.range(0, 5)); t.g.cls = "chain"; t.g.norm(); }
        else t.g = gen_class(rng, rng.range(0, 13));
        gen_attrs(t.g, rng);
        t.L = natural(t.g);          // shared vertex numbers 0..n-1 across all threads
        t.L2 = relabel(t.g, rng);
        t.op = (int)rng.range(0, 4);
        t.start = (q % 3 == 0) ? (th % 2 ? t.g.n - 1 : 0) : (int)rng.range(0, t.g.n - 1);
        tasks[th].push_back(t);
      }
    for (int th = 0; th < T; ++th) for (auto &t : tasks[th]) serial[th].push_back(run_task(t));
    std::atomic<int> ready{0};
    std::atomic<bool> go{false};
    std::vector<std::thread> thr;
    for (int th = 0; th < T; ++th)
      thr.emplace_back([&, th]() {
        ready.fetch_add(1);
        while (!go.load()) {}
        for (auto &t : tasks[th]) conc[th].push_back(run_task(t));
      });
    while (ready.load() < T) {}
    go.store(true);
    for (auto &t : thr) t.join();
    for (int th = 0; th < T; ++th)
      for (size_t q = 0; q < tasks[th].size(); ++q) {
        const Task &t = tasks[th][q];
        R.eval(std::string("concurrent_") + OPN[t.op]);
        if (t.op == 2 && serial[th][q] != "11") R.violation("equiv/relabelled-structure-not-equivalent", "serial: a structure and its relabelled copy are reported as different", witness(t.g, t.L2));
        if (conc[th][q] != serial[th][q])
          R.violation(std::string("concurrent/") + OPN[t.op] + "/differs-from-serial", "an operation on thread-private objects gives another result when other threads work on their own objects at the same time",
                      witness(t.g, t.L).i("threads", T).i("thread", th).i("start", t.start).s("concurrent", conc[th][q].substr(0, 600)).s("serial", serial[th][q].substr(0, 600)));
        R.nontrivial(vfh::hstr(vfh::hmix(vfh::hmix(71, (uint64_t)t.op), (uint64_t)t.start), t.g.str()));
      }
    R.counter("concurrent_rounds");
    R.counter_max("concurrent_max_threads", T);
  }
}

int main(int argc, char **argv) {
  vfh::Args A(argc, argv);
  long seed = A.num("seed", 1), shard = A.num("shard", 0), nshards = A.num("shards", 16);
  long relabels = A.num("relabels", 6), nclass = A.num("classes", 30), nrandom = A.num("random", 20);
  long reuse_every = A.num("reuse-every", 1);
  long ncase = 0;
  vfh::Reporter R;
  vfh::Rng rng((uint64_t)seed * 7919 + (uint64_t)shard * 104729 + 16);
  Ctx C{R, rng};
  struct sigaction sa;
  memset(&sa, 0, sizeof sa);
  sa.sa_handler = vfh::abort_handler;
  sa.sa_flags = SA_RESETHAND;
  sigaction(SIGABRT, &sa, nullptr);

  if (A.str("part", "main") == "inter") { run_interleaved(rng, R, A.num("n", 200)); R.summary(); return 0; }
  if (A.str("part", "main") == "conc") { run_concurrent(rng, R, (int)A.num("threads", 4), A.num("rounds", 10), A.num("n", 12)); R.summary(); return 0; }
  // replay of one graph given as "n:u-v,u-v,..." (the reference_edges field of a witness)
  if (A.has("graph")) {
    RG g;
    std::string spec = A.str("graph");
    g.n = std::atoi(spec.c_str());
    size_t p = spec.find(':');
    std::istringstream is(p == std::string::npos ? "" : spec.substr(p + 1));
    std::string tok;
    while (std::getline(is, tok, ',')) {
      size_t d = tok.find('-');
      if (d == std::string::npos) continue;
      g.e.push_back({std::atoi(tok.substr(0, d).c_str()), std::atoi(tok.substr(d + 1).c_str())});
    }
    g.cls = "replay";
    g.norm();
    for (long k = 0; k < relabels; ++k) {
      gen_attrs(g, rng);
      Labelling L = k == 0 ? natural(g) : relabel(g, rng);
      judge(C, g, L, g.n <= 8);
      judge_reuse(C, g, L);
    }
    R.summary();
    return 0;
  }
  // exhaustive part: every isomorphism class up to 6 vertices, sharded
  if (!A.has("no-exhaustive")) {
    std::vector<RG> small = enumerate_small();
    R.counter("exhaustive_classes_total", shard == 0 ? (long)small.size() : 0);
    for (size_t i = 0; i < small.size(); ++i) {
      if ((long)(i % nshards) != shard) continue;
      for (long k = 0; k < relabels; ++k) {
        RG g = small[i];
        gen_attrs(g, rng);
        Labelling L = k == 0 ? natural(g) : relabel(g, rng);
        judge(C, g, L, true);
        if (ncase++ % reuse_every == 0) judge_reuse(C, g, L);
      }
      R.counter("exhaustive_classes_done");
    }
  }
  for (long i = 0; i < nclass; ++i) {
    RG g = gen_class(rng, i + shard);
    for (long k = 0; k < relabels; ++k) {
      gen_attrs(g, rng);
      Labelling L = relabel(g, rng);
      judge(C, g, L, g.n <= 8);
      if (ncase++ % reuse_every == 0) judge_reuse(C, g, L);
    }
  }
  for (long i = 0; i < nrandom; ++i) {
    RG g = gen_random(rng);
    for (long k = 0; k < std::max(1L, relabels / 3); ++k) {
      gen_attrs(g, rng);
      Labelling L = relabel(g, rng);
      judge(C, g, L, false);
      if (k == 0 && g.n <= 30) judge_reuse(C, g, L);
    }
  }
  R.summary();
  return 0;
}
