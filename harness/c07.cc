// C07 monitor: analytic derivatives equal numerical derivatives (DESIGN.md §5 C07).
// Real code: IBond/IAngle/IDihedral::EvaluateVar/Grad on generated chain
// topologies in open / orthorhombic / triclinic boxes; PotentialFunctionLJ126 /
// LJG / CBSPL::CalculateF/DF/D2F/SavePotTab; Lin/Cubic/AkimaSpline::Calculate vs
// CalculateDerivative.
// Oracle: Richardson-extrapolated central differences (h, h/2, h/4) of the
// *reported value* with its own error estimate, sum of gradients = 0, rigid
// motion covariance, periodic-image invariance, symmetry of D2F, table = F on
// the requested grid, one-sided differences at spline knots.
//
// parts: --part inter | pot | spline      budgets: --n <cases>
#include "vfh.h"
#include <atomic>
#include <chrono>
#include <csignal>
#include <thread>
#include <fstream>
#include <votca/csg/interaction.h>
#include <votca/csg/potentialfunctions/potentialfunctioncbspl.h>
#include <votca/csg/potentialfunctions/potentialfunctionlj126.h>
#include <votca/csg/potentialfunctions/potentialfunctionljg.h>
#include <votca/csg/topology.h>
#include <votca/tools/akimaspline.h>
#include <votca/tools/cubicspline.h>
#include <votca/tools/linspline.h>
#include <votca/tools/table.h>

using namespace votca::csg;
using votca::Index;
using vfh::J;
typedef long double LD;
typedef Eigen::Vector3d V3;
static const double EPS = 2.220446049250313e-16;
static const LD PI = 3.14159265358979323846264338327950288L;

// ---------------------------------------------------------------- finite differences
struct Fd {
  double d = 0, err = 0, fmax = 0;
};
// central differences at x0 with steps h, h/2, h/4, Richardson extrapolated.
// err = |difference of the two O(h^4) estimates| + rounding-noise floor.
template <class F>
static Fd richardson(F f, double x0, double h, double value_noise = 0.0) {
  LD D[3];
  double fm = 0, hh = h;
  for (int k = 0; k < 3; ++k) {
    volatile double xp = x0 + hh, xm = x0 - hh;
    double fp = f(xp), fn = f(xm);
    D[k] = ((LD)fp - (LD)fn) / ((LD)xp - (LD)xm);
    fm = std::max(fm, std::max(std::fabs(fp), std::fabs(fn)));
    hh *= 0.5;
  }
  LD D1 = (4 * D[1] - D[0]) / 3, D2 = (4 * D[2] - D[1]) / 3;
  Fd r;
  r.d = (double)((16 * D2 - D1) / 15);
  r.err = (double)fabsl(D2 - D1) + (32 * EPS * fm + 8 * value_noise + 1e-320 /* denormal quanta */) / std::fabs(h);
  r.fmax = fm;
  if (!std::isfinite(r.d)) r.err = INFINITY;
  return r;
}
// several step sizes, keep the estimate with the smallest error estimate
template <class F>
static Fd fd_best(F f, double x0, std::initializer_list<double> steps) {
  Fd best;
  best.err = INFINITY;
  for (double h : steps) {
    if (!(h > 0)) continue;
    Fd r = richardson(f, x0, h);
    if (r.err < best.err || !std::isfinite(best.err)) {
      double fm = std::max(best.fmax, r.fmax);
      best = r;
      best.fmax = fm;
    }
  }
  return best;
}

// --stats: worst observed (difference / tolerance) per family, printed to stderr (tuning aid)
static std::map<std::string, double> g_worst;
static bool g_stats = false;
static inline void stat(const std::string &k, double diff, double tol) {
  if (!g_stats) return;
  double r = tol > 0 ? diff / tol : (diff > 0 ? INFINITY : 0);
  if (r > 0.05) std::cerr << "STATCASE " << k << " ratio " << r << " diff " << diff << " tol " << tol << " case " << vfh::current_case().substr(0, 600) << "\n";
  auto it = g_worst.find(k);
  if (it == g_worst.end() || it->second < r) g_worst[k] = r;
}
static std::vector<double> vv(const V3 &a) { return {a.x(), a.y(), a.z()}; }
static std::string vecs(const std::vector<V3> &p) {
  std::string s = "[";
  for (size_t i = 0; i < p.size(); ++i) {
    J j;
    j.vec("p", vv(p[i]));
    std::string t = j.str();  // {"p":[...]}
    s += (i ? "," : "") + t.substr(5, t.size() - 6);
  }
  return s + "]";
}
static std::string matjson(const Eigen::Matrix3d &m) {
  std::vector<double> v;
  for (int i = 0; i < 3; ++i)
    for (int j = 0; j < 3; ++j) v.push_back(m(i, j));
  J j;
  j.vec("m", v);
  std::string t = j.str();
  return t.substr(5, t.size() - 6);
}

// ================================================================ part 1: interactions
struct LV {
  LD x, y, z;
};
static LV lv(const V3 &v) { return {v.x(), v.y(), v.z()}; }
static LV operator-(LV a, LV b) { return {a.x - b.x, a.y - b.y, a.z - b.z}; }
static LD ldot(LV a, LV b) { return a.x * b.x + a.y * b.y + a.z * b.z; }
static LV lcross(LV a, LV b) { return {a.y * b.z - a.z * b.y, a.z * b.x - a.x * b.z, a.x * b.y - a.y * b.x}; }
static LD lnorm(LV a) { return sqrtl(ldot(a, a)); }
static LD angle_of(LV a, LV b) { return atan2l(lnorm(lcross(a, b)), ldot(a, b)); }

static V3 rand_unit(vfh::Rng &r) {
  for (;;) {
    V3 v(r.normal(), r.normal(), r.normal());
    double n = v.norm();
    if (n > 1e-3) return v / n;
  }
}
static Eigen::Matrix3d rand_rot(vfh::Rng &r) {
  V3 a = rand_unit(r), b = rand_unit(r);
  b = (b - a.dot(b) * a);
  if (b.norm() < 1e-3) return Eigen::Matrix3d::Identity();
  b.normalize();
  V3 c = a.cross(b);
  Eigen::Matrix3d R;
  R.col(0) = a; R.col(1) = b; R.col(2) = c;
  return R;
}

struct Chain {
  std::vector<V3> p;          // compact (unshifted) positions, chain order
  std::vector<double> len;    // bond lengths k..k+1 (long double reference, rounded)
  std::vector<double> theta;  // angle at bead k+1 (between k and k+2)
  std::vector<double> phi;    // |dihedral| of k..k+3 in [0,pi]
  double lmax = 0;
};
static double draw_theta(vfh::Rng &r) {
  int c = (int)r.range(0, 19);
  if (c == 0) return r.uni(0.02, 0.1);            // close to the margin
  if (c == 1) return (double)PI - r.uni(0.02, 0.1);
  if (c == 2) return (double)PI / 2;              // the unit-test geometry
  if (c == 3) return r.uni(1.5e-3, 0.02);         // inside the angle margin (dihedral collinearity margin only)
  if (c == 4) return (double)PI - r.uni(1.5e-3, 0.02);
  return r.uni(0.02, (double)PI - 0.02);
}
static double draw_phi(vfh::Rng &r) {
  int c = (int)r.range(0, 19);
  double s = r.coin() ? 1 : -1;
  if (c == 0) return s * ((double)PI - r.uni(0.02, 0.1));
  if (c == 1) return s * r.uni(1e-3, 0.05);
  if (c == 2) return s * (double)PI / 2;
  return r.uni(-((double)PI - 0.02), (double)PI - 0.02);
}
// bond lengths: log-uniform in [llo, lhi] (default: ratios 0.1..10), or uniform when uniform_len
static Chain gen_chain(vfh::Rng &r, int nb, double llo = 0.05, double lhi = 0.5, bool uniform_len = false) {
  Chain C;
  auto draw = [&]() { return uniform_len ? r.uni(llo, lhi) : r.logu(llo, lhi); };
  double l0 = draw();
  bool equal = r.coin(0.1);
  auto bl = [&]() { return equal ? l0 : draw(); };
  C.p.resize(nb);
  double s = r.logu(0.1, 20);
  C.p[0] = V3(r.uni(-s, s), r.uni(-s, s), r.uni(-s, s));
  C.p[1] = C.p[0] + bl() * rand_unit(r);
  for (int k = 2; k < nb; ++k) {
    V3 b = C.p[k - 1], a = C.p[k - 2];
    V3 e1 = (a - b).normalized();
    double th = draw_theta(r), l = bl();
    V3 w;
    if (k == 2) {
      V3 u = rand_unit(r);
      w = u - u.dot(e1) * e1;
      if (w.norm() < 1e-2) { w = e1.unitOrthogonal(); }
      w.normalize();
    } else {
      // direction perpendicular to e1 chosen by the dihedral phi w.r.t. bead k-3
      V3 z = C.p[k - 3];
      V3 m = (z - a) - (z - a).dot(e1) * e1;  // component of the previous bond perpendicular to the axis
      m.normalize();
      V3 n = e1.cross(m);
      double ph = draw_phi(r);
      w = std::cos(ph) * m + std::sin(ph) * n;
    }
    C.p[k] = b + l * (std::cos(th) * e1 + std::sin(th) * w);
  }
  // reference geometry in long double from the generated doubles
  for (int k = 0; k + 1 < nb; ++k) {
    LD l = lnorm(lv(C.p[k + 1]) - lv(C.p[k]));
    C.len.push_back((double)l);
    C.lmax = std::max(C.lmax, (double)l);
  }
  for (int k = 0; k + 2 < nb; ++k) C.theta.push_back((double)angle_of(lv(C.p[k]) - lv(C.p[k + 1]), lv(C.p[k + 2]) - lv(C.p[k + 1])));
  for (int k = 0; k + 3 < nb; ++k) {
    LV v1 = lv(C.p[k + 1]) - lv(C.p[k]), v2 = lv(C.p[k + 2]) - lv(C.p[k + 1]), v3 = lv(C.p[k + 3]) - lv(C.p[k + 2]);
    C.phi.push_back((double)angle_of(lcross(v1, v2), lcross(v2, v3)));
  }
  return C;
}

struct BoxG {
  Eigen::Matrix3d m;
  int kind;  // 0 open 1 ortho 2 triclinic
};
static BoxG gen_box(vfh::Rng &r, int kind, double lmax) {
  BoxG B;
  B.kind = kind;
  B.m.setZero();
  if (kind == 0) return B;
  // shortest box height >= lmax/0.45 so that every bonded distance stays below
  // 0.45 of it (away from the minimum-image decision surface, see C02)
  double lo = std::max(0.5, lmax / 0.45 * 1.25);
  double ax = r.logu(lo, 50), by = r.logu(lo, 50), cz = r.logu(lo, 50);
  B.m(0, 0) = ax; B.m(1, 1) = by; B.m(2, 2) = cz;
  if (kind == 2) {
    B.m(0, 1) = r.uni(-0.5, 0.5) * ax;
    B.m(0, 2) = r.uni(-0.5, 0.5) * ax;
    B.m(1, 2) = r.uni(-0.5, 0.5) * by;
    if (r.coin(0.1)) B.m(0, 1) = 0.5 * ax;
  }
  return B;
}
static double box_hmin(const BoxG &B);
// box whose shortest height is exactly H (orthorhombic or reduced triclinic, aspect <= 2.5)
static BoxG gen_small_box(vfh::Rng &r, int kind, double H) {
  BoxG B;
  B.kind = kind;
  B.m.setZero();
  double e[3] = {1.0, r.coin(0.3) ? 1.0 : r.uni(1, 2.5), r.coin(0.3) ? 1.0 : r.uni(1, 2.5)};
  for (int k = 2; k > 0; --k) std::swap(e[k], e[r.range(0, k)]);
  B.m(0, 0) = e[0]; B.m(1, 1) = e[1]; B.m(2, 2) = e[2];
  if (kind == 2) {
    B.m(0, 1) = r.uni(-0.5, 0.5) * e[0];
    B.m(0, 2) = r.uni(-0.5, 0.5) * e[0];
    B.m(1, 2) = r.uni(-0.5, 0.5) * e[1];
    if (r.coin(0.1)) B.m(0, 1) = 0.5 * e[0];
  }
  B.m *= H / box_hmin(B);
  return B;
}
static double box_hmin(const BoxG &B) {
  if (B.kind == 0) return INFINITY;
  V3 a = B.m.col(0), b = B.m.col(1), c = B.m.col(2);
  double vol = std::fabs(a.dot(b.cross(c)));
  return std::min(vol / b.cross(c).norm(), std::min(vol / c.cross(a).norm(), vol / a.cross(b).norm()));
}

struct Inter {
  int kind;             // 2 bond 3 angle 4 dihedral
  std::vector<int> ch;  // chain indices (order as given to the interaction)
  double L, s;          // shortest bond, distance-to-singularity factor
  bool judged_fd;       // inside the margins of the design
  bool nontrivial;
  const char *name() const { return kind == 2 ? "bond" : kind == 3 ? "angle" : "dihedral"; }
};

struct World {
  Topology top;
  std::vector<int> id_of;  // chain index -> bead id
  std::unique_ptr<Interaction> make(const Inter &I) const {
    auto b = [&](int k) { return (Index)id_of[I.ch[k]]; };
    if (I.kind == 2) return std::make_unique<IBond>(b(0), b(1));
    if (I.kind == 3) return std::make_unique<IAngle>(b(0), b(1), b(2));
    return std::make_unique<IDihedral>(b(0), b(1), b(2), b(3));
  }
  void set(const std::vector<V3> &q) {
    for (size_t k = 0; k < q.size(); ++k) top.getBead(id_of[k])->setPos(q[k]);
  }
};

// extended = family "extended-in-small-box": bond lengths 0.30..0.49 of the shortest box height, random
// directions, so that 1-3 and 1-4 separations routinely exceed half a box edge while every single bond
// stays below half the box (all the interactions need)
static void part_inter(vfh::Rng &rng, vfh::Reporter &R, long ncases, bool extended) {
  const std::string fpre = extended ? "extended-in-small-box/" : "";
  for (long ic = 0; ic < ncases; ++ic) {
    int nb = (int)rng.range(4, 9);
    int kind = (ic % 10 == 0) ? 0 : (ic % 2 ? 1 : 2);
    if (extended) kind = ic % 2 ? 1 : 2;
    const double Hx = extended ? rng.logu(0.5, 5) : 0.0;
    Chain C = extended ? gen_chain(rng, nb, 0.30 * Hx, 0.49 * Hx, true) : gen_chain(rng, nb);
    BoxG B = extended ? gen_small_box(rng, kind, Hx) : gen_box(rng, kind, C.lmax);
    if (!extended && kind && box_hmin(B) * 0.45 < C.lmax) { R.counter("box_regenerated"); --ic; continue; }
    // a bond whose component comes close to half the corresponding box edge sits at the minimum-image
    // discontinuity (sequential reduction z, y, x with the diagonal entries): not differentiable there
    std::vector<bool> bond_ok(nb - 1, true);
    if (kind)
      for (int k = 0; k + 1 < nb; ++k) {
        V3 v = C.p[k + 1] - C.p[k];
        for (int c = 0; c < 3; ++c)
          if (std::fabs(v[c]) / B.m(c, c) > 0.5 - 0.004) bond_ok[k] = false;
      }
    World W;
    W.top.setBox(B.m);
    // beads created in a random order, extra unrelated beads in between
    std::vector<int> order(nb);
    for (int k = 0; k < nb; ++k) order[k] = k;
    for (int k = nb - 1; k > 0; --k) std::swap(order[k], order[rng.range(0, k)]);
    W.id_of.assign(nb, -1);
    int nid = 0;
    for (int k = 0; k < nb; ++k) {
      if (rng.coin(0.3)) { W.top.CreateBead(Bead::spherical, "x", "X", 1, 1.0, 0.0)->setPos(V3(rng.uni(-9, 9), rng.uni(-9, 9), rng.uni(-9, 9))); ++nid; }
      W.top.CreateBead(Bead::spherical, "a", "A", 1, 1.0, 0.0);
      W.id_of[order[k]] = nid++;
    }
    // base configuration: every bead moved by a small number of lattice vectors
    std::vector<V3> q(nb);
    for (int k = 0; k < nb; ++k) {
      V3 n(0, 0, 0);
      if (kind) n = V3((double)rng.range(-1, 1), (double)rng.range(-1, 1), (double)rng.range(-1, 1));
      q[k] = C.p[k] + B.m * n;
    }
    W.set(q);
    double M = 0;
    for (auto &x : q) M = std::max(M, x.cwiseAbs().maxCoeff());

    // the interactions of this chain
    std::vector<Inter> inters;
    for (int k = 0; k + 1 < nb; ++k) {
      Inter I{2, {k, k + 1}, C.len[k], 1.0, bond_ok[k], true};
      if (rng.coin()) std::swap(I.ch[0], I.ch[1]);
      inters.push_back(I);
    }
    for (int k = 0; k + 2 < nb; ++k) {
      double th = C.theta[k];
      Inter I{3, {k, k + 1, k + 2}, std::min(C.len[k], C.len[k + 1]), std::sin(th), th > 0.02 && th < (double)PI - 0.02,
              std::fabs(C.len[k] / C.len[k + 1] - 1) > 0.01 && std::fabs(th - (double)PI / 2) > 0.01};
      if (!(bond_ok[k] && bond_ok[k + 1])) { I.judged_fd = false; R.counter(fpre + "bond_component_near_half_box_dontcare"); }
      if (extended && kind) {
        V3 r13 = C.p[k + 2] - C.p[k];
        bool far = false;
        for (int c = 0; c < 3; ++c) far = far || std::fabs(r13[c]) > 0.5 * B.m(c, c);
        R.counter(fpre + "angle_cases");
        if (far) R.counter(fpre + "angle_cases_with_r13_beyond_half_an_edge");
      }
      if (rng.coin()) std::swap(I.ch[0], I.ch[2]);
      inters.push_back(I);
    }
    for (int k = 0; k + 3 < nb; ++k) {
      double t1 = C.theta[k], t2 = C.theta[k + 1], ph = C.phi[k];
      double dphi = std::min(ph, (double)PI - ph);
      Inter I{4, {k, k + 1, k + 2, k + 3}, std::min(C.len[k], std::min(C.len[k + 1], C.len[k + 2])),
              std::min(std::min(std::sin(t1), std::sin(t2)), std::sin(dphi)),
              // margins: |phi| <= pi-0.02, no collinear triple (sin >= 1e-3); the acos form is equally
              // singular at phi = 0, same kind of margin there (1e-3)
              ph < (double)PI - 0.02 && ph > 1e-3 && std::sin(t1) >= 1e-3 && std::sin(t2) >= 1e-3, true};
      if (!(bond_ok[k] && bond_ok[k + 1] && bond_ok[k + 2])) { I.judged_fd = false; R.counter(fpre + "bond_component_near_half_box_dontcare"); }
      if (extended && kind) {
        V3 r13 = C.p[k + 2] - C.p[k], r24 = C.p[k + 3] - C.p[k + 1], r14 = C.p[k + 3] - C.p[k];
        bool far = false, far14 = false;
        for (int c = 0; c < 3; ++c) {
          far = far || std::fabs(r13[c]) > 0.5 * B.m(c, c) || std::fabs(r24[c]) > 0.5 * B.m(c, c);
          far14 = far14 || std::fabs(r14[c]) > 0.5 * B.m(c, c);
        }
        R.counter(fpre + "dihedral_cases");
        if (far) R.counter(fpre + "dihedral_cases_with_r13_or_r24_beyond_half_an_edge");
        if (far14) R.counter(fpre + "dihedral_cases_with_r14_beyond_half_an_edge");
      }
      if (rng.coin()) { std::swap(I.ch[0], I.ch[3]); std::swap(I.ch[1], I.ch[2]); }
      inters.push_back(I);
    }

    for (const Inter &I : inters) {
      auto it = W.make(I);
      const int nbd = I.kind;
      std::string fam = fpre + I.name();
      auto witness = [&]() {
        J w;
        w.s("interaction", fam).raw("box_rowmajor", matjson(B.m)).i("box_kind", B.kind);
        std::vector<V3> pp;
        for (int k = 0; k < nbd; ++k) pp.push_back(q[I.ch[k]]);
        w.raw("positions", vecs(pp)).d("sin_margin", I.s).d("shortest_bond", I.L);
        return w;
      };
      vfh::set_case(witness().str());
      if (!I.judged_fd) { R.counter(fam + "_outside_margin_not_judged"); continue; }
      R.eval(fam);
      double val = it->EvaluateVar(W.top);
      std::vector<V3> ga(nbd);
      for (int b = 0; b < nbd; ++b) ga[b] = it->Grad(W.top, b);
      bool finite = std::isfinite(val);
      for (auto &g : ga) finite = finite && g.allFinite();
      if (!finite) {
        R.violation(fam + "/non-finite", "value or gradient not finite inside the margins", witness().d("value", val));
        continue;
      }
      if (I.nontrivial) {
        uint64_t h = 41 + I.kind;
        for (int k = 0; k < nbd; ++k) for (int c = 0; c < 3; ++c) h = vfh::hdouble(h, q[I.ch[k]][c]);
        h = vfh::hdouble(h, B.m(0, 0)); h = vfh::hdouble(h, B.m(1, 2));
        R.nontrivial(h);
      } else R.counter(fam + "_trivial_geometry(equal_bonds_or_90deg)");

      // ---- (a) gradient = numerical gradient of the reported value
      double hstep = 1e-3 * I.L * I.s;
      // rounding noise of the reported value caused by the stored coordinates (magnitude M)
      double vnoise = I.kind == 2 ? 8 * EPS * M : 8 * EPS * (M / (I.L * I.s) + 1.0 / I.s);
      std::vector<V3> gf(nbd), ge(nbd);
      for (int b = 0; b < nbd; ++b) {
        Bead *bead = W.top.getBead(W.id_of[I.ch[b]]);
        V3 p0 = bead->getPos();
        for (int c = 0; c < 3; ++c) {
          auto f = [&](double x) {
            V3 pp = p0;
            pp[c] = x;
            bead->setPos(pp);
            return it->EvaluateVar(W.top);
          };
          Fd d = richardson(f, p0[c], hstep, vnoise);
          gf[b][c] = d.d;
          ge[b][c] = d.err;
        }
        bead->setPos(p0);
      }
      double G = 0, Gsum = 0;
      for (int b = 0; b < nbd; ++b) { G = std::max(G, gf[b].norm()); Gsum += ga[b].norm(); }
      for (int b = 0; b < nbd; ++b) {
        double err = ge[b].norm();
        if (!(err <= 1e-4 * G)) { R.counter(fam + "_fd_unreliable_not_judged"); continue; }
        double diff = (ga[b] - gf[b]).norm();
        if (!(I.kind == 3 && b != 1)) stat(fam + "_fd", diff, 1e-6 * G + 10 * err);
        if (!(diff <= 1e-6 * G + 10 * err)) {
          std::string key = fam;
          if (I.kind == 3) key += (b == 1) ? "/grad-central-bead/fd-mismatch" : "/grad-end-bead/fd-mismatch";
          else key += "/grad/fd-mismatch";
          R.violation(key, "analytic gradient differs from the Richardson central difference of EvaluateVar",
                      witness().i("bead", b).vec("grad_analytic", vv(ga[b])).vec("grad_numeric", vv(gf[b])).d("fd_error_estimate", err).d("value", val));
        }
      }
      if (R.want_sample() && I.kind >= 3 && I.nontrivial && ic % 7 == 0)
        R.sample(witness().d("value", val).vec("grad_bead0_analytic", vv(ga[0])).vec("grad_bead0_numeric", vv(gf[0])));

      // ---- (b) sum of the gradients of one interaction is zero
      double tolrel = 1e-9 + 64 * EPS * M / (I.L * I.s) + 64 * EPS / (I.s * I.s);
      {
        V3 sum = V3::Zero();
        for (auto &g : ga) sum += g;
        R.eval(fam + "_sum");
        if (I.kind != 3) stat(fam + "_sum", sum.norm(), tolrel * Gsum);
        if (!(sum.norm() <= tolrel * Gsum))
          R.violation(fam + "/grad-sum-nonzero", "gradients of one interaction do not sum to zero",
                      witness().vec("sum", vv(sum)).d("sum_of_norms", Gsum));
      }

      // ---- (c) rigid motion: value invariant, gradient covariant
      auto compare = [&](const std::vector<V3> &q2, const Eigen::Matrix3d &Rot, const char *what, const std::string &key, const std::string &extra) {
        W.set(q2);
        double M2 = M;
        for (auto &x : q2) M2 = std::max(M2, x.cwiseAbs().maxCoeff());
        double v2 = it->EvaluateVar(W.top);
        double tr = 1e-9 + 64 * EPS * M2 / (I.L * I.s) + 64 * EPS / (I.s * I.s);
        double tv = I.kind == 2 ? 64 * EPS * (M2 + I.L) : 1e-12 + tr;
        bool bad = !(std::fabs(v2 - val) <= tv);
        stat(fam + key + "_value", std::fabs(v2 - val), tv);
        V3 gbad = V3::Zero();
        int bb = -1;
        for (int b = 0; b < nbd && !bad; ++b) {
          V3 g2 = it->Grad(W.top, b);
          stat(fam + key + "_grad", (g2 - Rot * ga[b]).norm(), tr * std::max(Gsum, g2.norm()));
          if (!((g2 - Rot * ga[b]).norm() <= tr * std::max(Gsum, g2.norm()))) { bad = true; bb = b; gbad = g2; }
        }
        if (bad) {
          std::vector<V3> pp;
          for (int k = 0; k < nbd; ++k) pp.push_back(q2[I.ch[k]]);
          R.violation(fam + key, what, witness().raw("positions_transformed", vecs(pp)).d("value", val).d("value_transformed", v2)
                                           .i("bead", bb).vec("grad_transformed", vv(gbad)).raw("rotation_rowmajor", matjson(Rot)).raw("transform", extra));
        }
        W.set(q);
      };
      {
        // rotations only while every bond stays below 0.45 of the shortest height (no image decision)
        bool may_rotate = B.kind == 0 || C.lmax <= 0.45 * box_hmin(B);
        Eigen::Matrix3d Rot = (may_rotate && (B.kind == 0 || rng.coin(0.7))) ? rand_rot(rng) : Eigen::Matrix3d::Identity();
        double ts = rng.logu(0.01, 100);
        V3 t(rng.uni(-ts, ts), rng.uni(-ts, ts), rng.uni(-ts, ts)), cen = C.p[I.ch[0]];
        std::vector<V3> q2(nb);
        for (int k = 0; k < nb; ++k) {
          V3 n(0, 0, 0);
          if (kind) n = V3((double)rng.range(-1, 1), (double)rng.range(-1, 1), (double)rng.range(-1, 1));
          q2[k] = Rot * (C.p[k] - cen) + cen + t + B.m * n;
        }
        R.eval(fam + "_rigid");
        compare(q2, Rot, "value/gradient not invariant/covariant under rotation+translation of the whole molecule", "/rigid-motion", J().vec("translation", vv(t)).str());
      }
      // ---- (d) periodic-image shift of a single bead
      if (kind) {
        std::vector<V3> q2 = q;
        int k = I.ch[rng.range(0, nbd - 1)];
        long Rr = rng.coin(0.25) ? 1000 : 3;
        V3 n((double)rng.range(-Rr, Rr), (double)rng.range(-Rr, Rr), (double)rng.range(-Rr, Rr));
        if (n.norm() == 0) n[0] = 1;
        q2[k] = q[k] + B.m * n;
        R.eval(fam + "_image_shift");
        if (Rr == 1000) R.counter("image_shifts_up_to_1000_boxes");
        compare(q2, Eigen::Matrix3d::Identity(), "value/gradient change when one bead is moved by whole box vectors", "/periodic-image-shift", J().vec("lattice_shift", vv(n)).i("chain_bead", k).str());
      }
    }
  }
}

// ================================================================ part 2: potential functions
struct PotCase {
  std::string type;
  std::unique_ptr<PotentialFunction> pf;
  double rmin, rcut;
  Index nopt;
  std::vector<double> scale;  // natural scale of each optimised parameter (for steps)
  J desc;
};
static double sgn(vfh::Rng &r) { return r.coin() ? 1.0 : -1.0; }
// the double a parser produces for the decimal number milli/1000
static double dec3(long milli) {
  char b[64];
  snprintf(b, sizeof b, "%s%ld.%03ld", milli < 0 ? "-" : "", std::labs(milli) / 1000, std::labs(milli) % 1000);
  return strtod(b, nullptr);
}
// parameter vector of a potential type (6 orders of magnitude)
static std::vector<double> gen_params(vfh::Rng &r, int type, double rcut, Index nlam) {
  std::vector<double> v;
  if (type == 0) { v = {r.logu(1e-6, 1), r.logu(1e-6, 1) * (r.coin(0.1) ? -1 : 1)}; }
  else if (type == 1) {
    v = {r.logu(1e-6, 1), r.logu(1e-6, 1), sgn(r) * r.logu(1e-3, 1e3), r.coin(0.1) ? -r.logu(1e-3, 1) : r.logu(1e-2, 1e4), r.uni(0, 1.2 * rcut)};
  } else {
    double sc = r.logu(1e-3, 1e3);
    for (Index i = 0; i < nlam; ++i) v.push_back(sc * r.normal() * (r.coin(0.1) ? 1e-3 : 1));
    for (Index i = nlam - 4; i < nlam; ++i) v[i] = 0.0;  // what setParam(file) enforces
  }
  return v;
}
static std::unique_ptr<PotentialFunction> make_pot(int type, Index nlam, double rmin, double rcut) {
  if (type == 0) return std::make_unique<PotentialFunctionLJ126>("lj126", rmin, rcut);
  if (type == 1) return std::make_unique<PotentialFunctionLJG>("ljg", rmin, rcut);
  return std::make_unique<PotentialFunctionCBSPL>("cbspl", nlam, rmin, rcut);
}
static bool same(double a, double b) { return a == b || (std::isnan(a) && std::isnan(b)); }

static PotCase gen_pot(vfh::Rng &r, int type) {
  PotCase P;
  P.rcut = r.logu(0.5, 3.0);
  P.rmin = r.coin(0.2) ? 0.0 : r.uni(0.02, 0.4) * P.rcut;
  if (type == 0) {
    P.type = "lj126";
    P.pf = std::make_unique<PotentialFunctionLJ126>("lj126", P.rmin, P.rcut);
    double c12 = r.logu(1e-6, 1), c6 = r.logu(1e-6, 1) * (r.coin(0.1) ? -1 : 1);
    P.pf->setParam(0, c12); P.pf->setParam(1, c6);
  } else if (type == 1) {
    P.type = "ljg";
    P.pf = std::make_unique<PotentialFunctionLJG>("ljg", P.rmin, P.rcut);
    P.pf->setParam(0, r.logu(1e-6, 1));
    P.pf->setParam(1, r.logu(1e-6, 1));
    P.pf->setParam(2, sgn(r) * r.logu(1e-3, 1e3));
    P.pf->setParam(3, r.coin(0.1) ? -r.logu(1e-3, 1) : r.logu(1e-2, 1e4));
    P.pf->setParam(4, r.uni(0, 1.2 * P.rcut));
  } else {
    P.type = "cbspl";
    Index nlam = r.range(8, 60);
    for (;;) {
      try {
        P.pf = std::make_unique<PotentialFunctionCBSPL>("cbspl", nlam, P.rmin, P.rcut);
        break;
      } catch (std::runtime_error &) {  // documented: no parameters left to optimise
        P.rmin *= 0.5;
        if (P.rmin < 1e-3) P.rmin = 0;
      }
    }
    double sc = r.logu(1e-3, 1e3);
    for (Index i = 0; i < nlam; ++i) P.pf->setParam(i, sc * r.normal() * (r.coin(0.1) ? 1e-3 : 1));
    for (Index i = nlam - 4; i < nlam; ++i) P.pf->setParam(i, 0.0);  // what setParam(file) enforces
  }
  P.nopt = P.pf->getOptParamSize();
  std::vector<double> lam;
  for (Index i = 0; i < P.pf->getParamSize(); ++i) lam.push_back(P.pf->getParam(i));
  P.desc.s("type", P.type).d("min", P.rmin).d("cutoff", P.rcut).vec("params", lam).i("n_opt", P.nopt);
  return P;
}

static double draw_r(vfh::Rng &r, const PotCase &P) {
  double lo = std::max(P.rmin, P.type == "cbspl" ? 0.0 : 0.02 * P.rcut);  // r -> 0 is the LJ singularity
  int c = (int)r.range(0, 11);
  if (c == 0) return lo == P.rmin ? P.rmin : lo;
  if (c == 1) return P.rcut;
  if (c == 2 && P.type == "cbspl") {  // exactly on a break point
    Index nb = P.pf->getParamSize() - 2;
    double dr = P.rcut / double(nb - 1);
    double x = dr * (double)r.range(0, nb - 1);
    if (x >= lo && x <= P.rcut) return x;
  }
  return r.uni(lo, P.rcut);
}

static void part_pot(vfh::Rng &rng, vfh::Reporter &R, long ncases, const std::string &tmp) {
  for (long ic = 0; ic < ncases; ++ic) {
    int type = (int)(ic % 3);
    PotCase P = gen_pot(rng, type);
    PotentialFunction &pf = *P.pf;
    const Index no = P.nopt;
    int nr = type == 2 ? 3 : 6;
    for (int ir = 0; ir < nr; ++ir) {
      double r = draw_r(rng, P);
      auto wit = [&]() { J w; w.raw("potential", P.desc.str()).d("r", r); return w; };
      vfh::set_case(wit().str());
      double F0 = pf.CalculateF(r);
      if (!std::isfinite(F0)) { R.counter(P.type + "_value_overflow_not_judged"); continue; }
      // natural step scale of parameter i
      auto pscale = [&](Index i) {
        double v = std::fabs(pf.getOptParam(i));
        if (P.type == "ljg" && i == 3) {
          double d2 = (r - pf.getParam(4)) * (r - pf.getParam(4));
          v = std::min(std::max(v, 1e-3), d2 > 1e-12 ? 1.0 / d2 : 1e12);
        }
        if (P.type == "ljg" && i == 4) v = std::min(P.rcut, 1.0 / std::sqrt(std::max(std::fabs(pf.getParam(3)), 1e-6)));
        if (v == 0) v = 1.0;
        return v;
      };
      // which parameters: all for lj/ljg; for cbspl the four supporting knots and some others
      std::vector<Index> plist;
      if (type != 2) for (Index i = 0; i < no; ++i) plist.push_back(i);
      else {
        for (int k = 0; k < 8 && k < no; ++k) plist.push_back(rng.range(0, no - 1));
        Index nb = pf.getParamSize() - 2;
        double dr = P.rcut / double(nb - 1);
        Index indx = std::min((Index)(r / dr), nb - 2);
        Index nexcl = pf.getParamSize() - 4 - no;
        for (Index k = indx - 1; k <= indx + 4; ++k) if (k - nexcl >= 0 && k - nexcl < no) plist.push_back(k - nexcl);
      }
      for (Index i : plist) {
        // ---- first derivative
        const double l0 = pf.getOptParam(i), sc = pscale(i);
        auto fF = [&](double x) { pf.setOptParam(i, x); return pf.CalculateF(r); };
        Fd d = fd_best(fF, l0, {1e-3 * sc, 1e-2 * sc, 1e-1 * sc});
        pf.setOptParam(i, l0);
        double an = pf.CalculateDF(i, r);
        R.eval(P.type + "_DF");
        double nat = d.fmax / sc;
        // results that live in the underflow range of double (exp() denormal) carry no precision
        bool uflow = (an != 0 || d.d != 0) && std::max(std::fabs(an), std::fabs(d.d)) < 1e-280;
        if (uflow) R.counter(P.type + "_DF_underflow_range_not_judged");
        else if (!(d.err <= 1e-5 * std::max(std::fabs(d.d), nat) + 1e-290)) { R.counter(P.type + "_DF_fd_unreliable_not_judged"); }
        else {
          stat(P.type + "_DF", std::fabs(an - d.d), 1e-6 * std::max(std::fabs(an), std::fabs(d.d)) + 10 * d.err);
          if (!(std::fabs(an - d.d) <= 1e-6 * std::max(std::fabs(an), std::fabs(d.d)) + 10 * d.err))
            R.violation(P.type + "/DF/fd-mismatch", "CalculateDF differs from the numerical parameter derivative of CalculateF",
                        wit().i("i", i).d("DF", an).d("numeric", d.d).d("fd_error_estimate", d.err));
          if (an != 0 && 10 * d.err <= 1e-3 * std::fabs(an)) {
            uint64_t h = vfh::hstr(7, P.type);
            h = vfh::hdouble(h, r); h = vfh::hdouble(h, l0); h = vfh::hmix(h, (uint64_t)i);
            R.nontrivial(h);
          }
          if (R.want_sample() && an != 0 && ir == 0 && ic % 5 == 0) R.sample(wit().i("i", i).d("DF", an).d("numeric", d.d));
        }
        // ---- second derivatives: row i
        std::vector<Index> jl;
        if (type != 2) for (Index j = 0; j < no; ++j) jl.push_back(j);
        else { jl.push_back(i); jl.push_back(plist[rng.range(0, (long)plist.size() - 1)]); }
        for (Index j : jl) {
          double a_ij = pf.CalculateD2F(i, j, r), a_ji = pf.CalculateD2F(j, i, r);
          R.eval(P.type + "_D2F");
          if (!(std::fabs(a_ij - a_ji) <= 1e-12 * std::max(std::fabs(a_ij), std::fabs(a_ji))))
            R.violation(P.type + "/D2F/asymmetric", "CalculateD2F(i,j) != CalculateD2F(j,i)", wit().i("i", i).i("j", j).d("D2F_ij", a_ij).d("D2F_ji", a_ji));
          const double lj0 = pf.getOptParam(j), scj = pscale(j);
          auto fD = [&](double x) { pf.setOptParam(j, x); return pf.CalculateDF(i, r); };
          Fd d2 = fd_best(fD, lj0, {1e-3 * scj, 1e-2 * scj, 1e-1 * scj});
          pf.setOptParam(j, lj0);
          double nat2 = d2.fmax / scj;
          if ((a_ij != 0 || d2.d != 0) && std::max(std::fabs(a_ij), std::fabs(d2.d)) < 1e-280) { R.counter(P.type + "_D2F_underflow_range_not_judged"); continue; }
          if (!(d2.err <= 1e-5 * std::max(std::fabs(d2.d), nat2) + 1e-290)) { R.counter(P.type + "_D2F_fd_unreliable_not_judged"); continue; }
          stat(P.type + "_D2F", std::fabs(a_ij - d2.d), 1e-6 * std::max(std::fabs(a_ij), std::fabs(d2.d)) + 10 * d2.err);
          if (!(std::fabs(a_ij - d2.d) <= 1e-6 * std::max(std::fabs(a_ij), std::fabs(d2.d)) + 10 * d2.err))
            R.violation(P.type + "/D2F/fd-mismatch", "CalculateD2F(i,j) differs from the numerical derivative of CalculateDF(i) w.r.t. parameter j",
                        wit().i("i", i).i("j", j).d("D2F", a_ij).d("numeric", d2.d).d("fd_error_estimate", d2.err));
          if (a_ij != 0) R.counter(P.type + "_D2F_nonzero_entries_judged");
        }
      }
    }
    // ---- object reuse: after a parameter change (and, for the LJ forms, a change of min/cut-off) the
    // used object must answer exactly like a fresh object that was given the new values
    {
      const Index nl = pf.getParamSize();
      const Index nexcl = nl - 4 - no;
      double nmin = P.rmin, ncut = P.rcut;
      bool newrange = type != 2 && rng.coin(0.5);
      if (newrange) { ncut = rng.logu(0.5, 3.0); nmin = rng.coin(0.2) ? 0.0 : rng.uni(0.02, 0.4) * ncut; }
      int rounds = (int)rng.range(1, 2);  // parameters are replaced once or twice
      std::vector<double> nl_par;
      int route = 0;
      for (int k = 0; k < rounds; ++k) {
        nl_par = gen_params(rng, type, ncut, nl);
        route = (int)rng.range(0, 2);
        if (route == 0) for (Index i = 0; i < nl; ++i) pf.setParam(i, nl_par[i]);
        else if (route == 1) pf.PotentialFunction::setParam(Eigen::Map<Eigen::VectorXd>(nl_par.data(), nl));
        else {  // optimised parameters through setOptParam, the others through setParam
          for (Index i = 0; i < nl; ++i) pf.setParam(i, 0.125);
          for (Index i = 0; i < no; ++i) pf.setOptParam(i, nl_par[(type == 2 ? nexcl : 0) + i]);
          for (Index i = 0; i < nl; ++i) if (type == 2 && (i < nexcl || i >= nexcl + no)) pf.setParam(i, nl_par[i]);
        }
        if (k + 1 < rounds) (void)pf.CalculateF(0.5 * (P.rmin + P.rcut));
      }
      if (newrange) { pf.setMinDist(nmin); pf.setCutOffDist(ncut); }
      auto fresh = make_pot(type, nl, nmin, ncut);
      for (Index i = 0; i < nl; ++i) fresh->setParam(i, nl_par[i]);
      J w;
      w.s("type", P.type).raw("first_use", P.desc.str()).vec("new_params", nl_par).d("new_min", nmin).d("new_cutoff", ncut).i("route", route).i("parameter_changes", rounds);
      vfh::set_case(w.str());
      R.eval(P.type + "_reuse");
      bool bad = false;
      for (Index i = 0; i < no && !bad; ++i)
        if (!same(pf.getOptParam(i), fresh->getOptParam(i))) {
          bad = true;
          R.violation("pot-reuse/" + P.type + "/parameter-readback", "getOptParam after a parameter change differs from a fresh object", J().raw("case", w.str()).i("i", i).d("reused", pf.getOptParam(i)).d("fresh", fresh->getOptParam(i)));
        }
      if (!same(pf.getCutOff(), ncut) || !same(pf.getMinDist(), nmin)) {
        bad = true;
        R.violation("pot-reuse/" + P.type + "/range-readback", "getMinDist/getCutOff do not return what was set", J().raw("case", w.str()).d("min", pf.getMinDist()).d("cutoff", pf.getCutOff()));
      }
      for (int ir = 0; ir < 5 && !bad; ++ir) {
        double lo = std::max(nmin, type == 2 ? 0.0 : 0.02 * ncut);
        double r = ir == 0 ? lo : ir == 1 ? ncut : ir == 2 ? ncut * 1.05 : rng.uni(lo, ncut);
        if (type == 2 && r > ncut) r = ncut;
        double a = pf.CalculateF(r), b = fresh->CalculateF(r);
        if (!same(a, b)) { bad = true; R.violation("pot-reuse/" + P.type + "/value-after-parameter-change", "CalculateF of a reused object differs from a fresh object with the same parameters", J().raw("case", w.str()).d("r", r).d("reused", a).d("fresh", b)); break; }
        for (Index i = 0; i < no && !bad; ++i) {
          a = pf.CalculateDF(i, r); b = fresh->CalculateDF(i, r);
          if (!same(a, b)) { bad = true; R.violation("pot-reuse/" + P.type + "/DF-after-parameter-change", "CalculateDF of a reused object differs from a fresh object with the same parameters", J().raw("case", w.str()).d("r", r).i("i", i).d("reused", a).d("fresh", b)); break; }
          Index jn = type == 2 ? std::min<Index>(no, 6) : no;  // full index square for the closed forms
          for (Index j = 0; j < jn && !bad; ++j) {
            a = pf.CalculateD2F(i, j, r); b = fresh->CalculateD2F(i, j, r);
            if (!same(a, b)) { bad = true; R.violation("pot-reuse/" + P.type + "/D2F-after-parameter-change", "CalculateD2F of a reused object differs from a fresh object with the same parameters", J().raw("case", w.str()).d("r", r).i("i", i).i("j", j).d("reused", a).d("fresh", b)); }
          }
        }
      }
      if (!bad) R.nontrivial(vfh::hdouble(vfh::hdouble(vfh::hstr(123, P.type), nl_par[0]), ncut));
      // continue with the new state (the table below is written by the reused object)
      P.rmin = nmin; P.rcut = ncut;
      P.desc = J();
      P.desc.s("type", P.type).d("min", P.rmin).d("cutoff", P.rcut).vec("params", nl_par).i("n_opt", P.nopt).b("object_reused", true);
    }
    // ---- tabulated potential = CalculateF on the requested grid
    if (ic % 4 < 2 || type == 2) {
      bool four = rng.coin();
      double rmin = P.rmin, rcut = P.rcut;
      if (four) {
        rmin = P.rmin + rng.uni(0, 0.3) * (P.rcut - P.rmin);
        rcut = P.rcut - rng.uni(0, 0.3) * (P.rcut - P.rmin);
        if (rng.coin(0.2)) rcut = P.rcut * rng.uni(1.0, 1.2);          // beyond the cut-off: 0
        if (rng.coin(0.2) && type != 2) rmin = P.rmin * rng.uni(0.8, 1.0);  // below min: 0
      }
      if (type != 2 && rmin < 0.02 * P.rcut) { rmin = 0.02 * P.rcut; four = true; }  // r -> 0: LJ singularity
      long npt = rng.range(2, 120);
      double step = (rcut - rmin) / ((double)npt - 1 + (rng.coin(0.3) ? rng.uni(0.05, 0.9) : 0.0));
      if (rng.coin(0.3)) step = std::max(1e-4, std::round(step * 1000) / 1000);
      bool decimal = rng.coin(0.3);
      if (decimal) {  // decimal grids such as 0.1:0.1:0.8: (rcut-rmin)/step is an integer only up to an ulp
        static const long steps[] = {1, 2, 5, 10, 20, 25, 50, 100, 125};
        long sm = steps[rng.range(0, 8)];
        long j0 = std::max<long>((long)std::ceil((type == 2 ? 0.0 : 0.02 * P.rcut) * 1000 / (double)sm), rng.range(0, 40));
        npt = rng.range(2, 120);
        four = true;
        step = dec3(sm); rmin = dec3(j0 * sm); rcut = dec3((j0 + npt - 1) * sm);
      }
      std::string fn = tmp + "/pot.tab";
      J w;
      w.raw("potential", P.desc.str()).b("four_argument_overload", four).d("step", step).d("rmin", rmin).d("rcut", rcut);
      vfh::set_case(w.str());
      std::remove(fn.c_str());
      if (four) pf.SavePotTab(fn, step, rmin, rcut); else pf.SavePotTab(fn, step);
      votca::tools::Table t;
      t.Load(fn);
      R.eval(P.type + "_pottab");
      LD ratio = ((LD)rcut - (LD)rmin) / (LD)step;
      long nexp = (long)floorl(ratio) + 1;
      bool n_dontcare = false;
      if (fabsl(ratio - roundl(ratio)) <= 1e-9L * std::max((LD)1, ratio)) nexp = (long)roundl(ratio) + 1;  // an integer number of steps up to rounding
      else if (ratio - floorl(ratio) >= 1 - 1e-6L) n_dontcare = true;  // just below an integer: inside the tool's own 1e-8 slack
      if (decimal) R.counter("pottab_decimal_grids");
      if (t.size() != nexp) {
        if (n_dontcare) R.counter("pottab_gridsize_near_integer_ratio_dontcare");
        else R.violation(P.type + "/pottab/grid-size", "number of table points differs from (rcut-rmin)/step+1", J().raw("case", w.str()).i("got", t.size()).i("expected", nexp));
        continue;
      }
      int bad = 0;
      for (Index k = 0; k < t.size(); ++k) {
        LD xi = (k == t.size() - 1) ? (LD)rcut : (LD)rmin + (LD)k * (LD)step;
        double x = (double)xi;
        if (!(std::fabs(t.x(k) - x) <= 1e-9 * std::fabs(x) + 1e-300)) {
          if (!bad++) R.violation(P.type + "/pottab/grid-point", "table abscissa is not rmin+i*step (last: rcut)", J().raw("case", w.str()).i("index", k).d("got", t.x(k)).d("expected", x));
          continue;
        }
        double f0 = pf.CalculateF(x), f1 = pf.CalculateF(x * (1 + 1e-9)), f2 = pf.CalculateF(x * (1 - 1e-9));
        double lo = std::min(f0, std::min(f1, f2)), hi = std::max(f0, std::max(f1, f2));
        // rounding of the sum of terms: scale = magnitude of the individual terms (inputs), not of the result
        double tsc = 0;
        if (type == 2) { for (Index q = 0; q < pf.getParamSize(); ++q) tsc = std::max(tsc, std::fabs(pf.getParam(q))); }
        else {
          tsc = std::fabs(pf.getParam(0)) / std::pow(x, 12) + std::fabs(pf.getParam(1)) / std::pow(x, 6);
          if (type == 1) tsc += std::fabs(pf.getParam(2)) * std::exp(std::min(700.0, -pf.getParam(3) * (x - pf.getParam(4)) * (x - pf.getParam(4))));
        }
        double tol = 1e-9 * std::max(std::fabs(lo), std::fabs(hi)) + 1e-9 * tsc * 1e-3 + 1e-300;
        if (!(t.y(k) >= lo - tol && t.y(k) <= hi + tol)) {
          if (!bad++) R.violation(P.type + "/pottab/value", "tabulated potential differs from CalculateF on the requested grid", J().raw("case", w.str()).i("index", k).d("x", t.x(k)).d("got", t.y(k)).d("expected", f0));
        }
      }
      if (t.size() >= 3) R.nontrivial(vfh::hdouble(vfh::hdouble(vfh::hstr(99, P.type), step), t.y(1)));
      std::remove(fn.c_str());
    }
  }
}

// ================================================================ part 3: spline derivative
struct Data {
  Eigen::VectorXd x, y;
};
static Data gen_data(vfh::Rng &r, int nmin) {
  Data D;
  long n = r.coin(0.7) ? r.range(nmin, 12) : (r.coin(0.8) ? r.range(12, 80) : r.range(80, 400));
  D.x.resize(n); D.y.resize(n);
  double h0 = r.logu(1e-2, 10), x0 = r.coin(0.3) ? 0.0 : r.uni(-50, 50) * h0;
  bool uniform = r.coin(0.4);
  double x = x0, h = h0;
  for (long i = 0; i < n; ++i) {
    D.x[i] = x;
    if (!uniform) { h = h * r.logu(0.25, 4); h = std::min(std::max(h, h0 / 20), h0 * 20); }  // adjacent ratio <= 4, global <= 400
    x += h;
  }
  int ykind = (int)r.range(0, 4);
  double A = r.logu(1e-3, 1e3), off = r.coin(0.3) ? r.uni(-10, 10) * A : 0.0;
  double L = D.x[n - 1] - D.x[0], k1 = r.uni(0.5, 6) / L * 6.283, k2 = r.uni(0.5, 20) / L * 6.283, p1 = r.uni(0, 6.283);
  for (long i = 0; i < n; ++i) {
    double t = D.x[i] - D.x[0];
    if (ykind == 0) D.y[i] = off + A * (std::sin(k1 * t + p1) + 0.3 * std::cos(k2 * t));
    else if (ykind == 1) D.y[i] = off + A * r.normal();
    else if (ykind == 2) D.y[i] = (t < 0.3 * L) ? 0.0 : A * (t / L - 0.3) * (t / L - 0.3) * std::cos(k1 * t);
    else if (ykind == 3) D.y[i] = off + A * (t / L);
    else D.y[i] = off + A * std::exp(-3 * t / L) + 0.01 * A * r.normal();
  }
  return D;
}
static std::vector<double> ev(const Eigen::VectorXd &v) { return std::vector<double>(v.data(), v.data() + v.size()); }

static void part_spline(vfh::Rng &rng, vfh::Reporter &R, long ncases) {
  using namespace votca::tools;
  for (long ic = 0; ic < ncases; ++ic) {
    int type = (int)(ic % 3);  // 0 linear 1 cubic 2 akima
    int mode = (int)rng.range(0, 9);  // 0..5 interpolate natural, 6,7 periodic, 8,9 fit (linear/cubic)
    bool fit = (mode >= 8) && type != 2;
    // boundary setting: 0 natural 1 periodic 2 derivativezero. LinSpline ignores it (but it is set),
    // Cubic/Akima::Interpolate document derivativezero as not implemented (not requested there).
    int bcsel = 0;
    if (fit) bcsel = (int)rng.range(0, 2);
    else if (mode == 6 || mode == 7) bcsel = 1;
    else if (type == 0 && mode == 5) bcsel = 2;
    bool periodic = bcsel == 1;
    const char *bcname = bcsel == 0 ? "natural" : bcsel == 1 ? "periodic" : "derivativezero";
    Data D = gen_data(rng, fit ? 12 : (type == 0 ? 2 : type == 1 ? 3 : 4));
    if (periodic) D.y[D.y.size() - 1] = D.y[0];
    std::unique_ptr<Spline> sp;
    const char *tn = type == 0 ? "linear" : type == 1 ? "cubic" : "akima";
    if (type == 0) sp = std::make_unique<LinSpline>();
    else if (type == 1) sp = std::make_unique<CubicSpline>();
    else sp = std::make_unique<AkimaSpline>();
    if (rng.coin()) sp->setBC(bcsel == 0 ? Spline::splineNormal : bcsel == 1 ? Spline::splinePeriodic : Spline::splineDerivativeZero);
    else sp->setBCInt(bcsel);
    std::string fam = std::string(tn) + (bcsel == 0 ? "" : std::string("-") + bcname) + (fit ? "-fit" : "");
    J w;
    w.s("spline", tn).s("bc", bcname).b("fit", fit).vec("x", ev(D.x)).vec("y", ev(D.y));
    const long n = D.x.size();
    Eigen::VectorXd knots = D.x;
    if (fit) {
      // fit grid coarser than the data: every interval holds >= 3 data points
      long ng = rng.range(3, std::max(3L, n / 4));
      double a = D.x[0], b = D.x[n - 1];
      double hfit = (b - a) / (double)(ng - 1);
      // data abscissae: uniform over the fit range so that the problem is well posed
      for (long i = 0; i < n; ++i) D.x[i] = a + (b - a) * (double)i / (double)(n - 1);
      w = J();
      w.s("spline", tn).s("bc", bcname).b("fit", true).vec("x", ev(D.x)).vec("y", ev(D.y)).d("fitgrid_min", a).d("fitgrid_max", b).d("fitgrid_step", hfit);
      vfh::set_case(w.str());
      sp->GenerateGrid(a, b, hfit);
      knots = sp->getX();
      try { sp->Fit(D.x, D.y); } catch (std::exception &e) { R.counter(std::string("fit_rejected_by_votca:") + tn); continue; }
    } else {
      vfh::set_case(w.str());
      sp->Interpolate(D.x, D.y);
    }
    const long nk = knots.size();
    // points: strictly inside intervals (central), and on knots (one-sided)
    int npts = 8;
    for (int ip = 0; ip < npts; ++ip) {
      long iv = rng.range(0, nk - 2);
      if (ip == 0) iv = 0;
      if (ip == 1) iv = nk - 2;
      double a = knots[iv], b = knots[iv + 1], wd = b - a;
      bool onknot = ip >= 5;
      double x, an, num, err, fmax;
      bool ok;
      if (!onknot) {
        x = a + wd * rng.uni(0.06, 0.94);
        double h = 0.9 * std::min(x - a, b - x);
        Fd d = richardson([&](double t) { return sp->Calculate(t); }, x, h);
        an = sp->CalculateDerivative(x);
        num = d.d; err = d.err; fmax = d.fmax;
        ok = std::fabs(an - num) <= 1e-6 * std::max(std::fabs(an), std::fabs(num)) + 10 * err;
      } else {
        long kk = rng.range(0, nk - 1);
        if (ip == 5) kk = 0;
        if (ip == 6) kk = nk - 1;
        x = knots[kk];
        an = sp->CalculateDerivative(x);
        double f0 = sp->Calculate(x);
        fmax = std::fabs(f0);
        ok = false; num = NAN; err = 0;
        for (int side = -1; side <= 1; side += 2) {
          // at the two end knots the outward side is judged as well (the reported value continues
          // beyond the grid, whatever the continuation is); step from the end interval
          double wv = (side > 0 && kk < nk - 1) || kk == 0 ? knots[kk + 1] - knots[kk] : knots[kk] - knots[kk - 1];
          // one-sided 4-point formula (exact for cubics) with two step sizes
          auto os = [&](double h) {
            volatile double x1 = x + side * h, x2 = x + side * 2 * h, x3 = x + side * 3 * h;
            double f1 = sp->Calculate(x1), f2 = sp->Calculate(x2), f3 = sp->Calculate(x3);
            fmax = std::max(fmax, std::max(std::fabs(f1), std::max(std::fabs(f2), std::fabs(f3))));
            // exact abscissae differences
            LD h1 = (LD)x1 - (LD)x, h2 = (LD)x2 - (LD)x, h3 = (LD)x3 - (LD)x;
            // derivative of the interpolating cubic through (0,f0),(h1,f1),(h2,f2),(h3,f3) at 0
            LD d1 = ((LD)f1 - f0) / h1, d2 = ((LD)f2 - f0) / h2, d3 = ((LD)f3 - f0) / h3;
            LD d12 = (d2 - d1) / (h2 - h1), d23 = (d3 - d2) / (h3 - h2);
            LD d123 = (d23 - d12) / (h3 - h1);
            return (double)(d1 - h1 * d12 + h1 * h2 * d123);
          };
          double e1 = os(wv / 4), e2 = os(wv / 8);
          double er = std::fabs(e1 - e2) + 200 * EPS * fmax / (wv / 8);
          if (!std::isfinite(num) || std::fabs(an - e2) < std::fabs(an - num)) { num = e2; err = er; }
          if (std::fabs(an - e2) <= 1e-6 * std::max(std::fabs(an), std::fabs(e2)) + 10 * er) ok = true;
        }
      }
      if (!std::isfinite(an) || !std::isfinite(num)) {
        if (periodic && type == 1) { R.counter("cubic_periodic_nonfinite_not_judged"); continue; }
        R.violation(std::string("spline/") + fam + "/non-finite", "spline value or derivative not finite", J().raw("case", w.str()).d("at", x).d("derivative", an));
        continue;
      }
      R.eval(std::string("spline_") + fam + (onknot ? "_knot" : "_inside"));
      double nat = fmax / wd;
      if (!(err <= 1e-4 * std::max(std::fabs(num), nat))) { R.counter(std::string("spline_") + tn + "_fd_unreliable_not_judged"); continue; }
      stat(std::string("spline_") + fam + (onknot ? "_knot" : "_inside"), std::fabs(an - num), 1e-6 * std::max(std::fabs(an), std::fabs(num)) + 10 * err);
      if (!ok)
        R.violation(std::string("spline/") + fam + (onknot ? "/derivative-at-knot" : "/derivative-inside-interval"),
                    "CalculateDerivative differs from the finite-difference derivative of Calculate",
                    J().raw("case", w.str()).d("at", x).b("on_knot", onknot).d("derivative", an).d("numeric", num).d("fd_error_estimate", err));
      if (n > 2 && (D.y.maxCoeff() - D.y.minCoeff()) > 0) {
        uint64_t h = vfh::hstr(5, fam);
        h = vfh::hdouble(h, x); h = vfh::hdouble(h, D.y[0]); h = vfh::hdouble(h, D.x[1]);
        R.nontrivial(h);
      }
      if (R.want_sample() && ip == 2 && ic % 11 == 0 && n <= 8) R.sample(J().raw("case", w.str()).d("at", x).d("derivative", an).d("numeric", num));
    }
    // ---- evaluation OUTSIDE the grid (left and right, up to a few grid lengths away): the reported
    // derivative must still be the derivative of the reported value there
    {
      const double x0 = knots[0], x1 = knots[nk - 1], L = x1 - x0;
      double hk = INFINITY;
      for (long i = 0; i + 1 < nk; ++i) hk = std::min(hk, knots[i + 1] - knots[i]);
      // magnitudes of the data: the end polynomial is evaluated far from its interval, its terms cancel
      double Yd = D.y.cwiseAbs().maxCoeff(), Mxd = 0, K2d = 0, pm = 0, ph = 0;
      for (long i = 0; i + 1 < n; ++i) {
        double hh = D.x[i + 1] - D.x[i], m = (D.y[i + 1] - D.y[i]) / hh;
        Mxd = std::max(Mxd, std::fabs(m));
        if (i) K2d = std::max(K2d, 2 * std::fabs(m - pm) / (hh + ph));
        pm = m; ph = hh;
      }
      for (int ip = 0; ip < 4; ++ip) {
        int side = ip < 2 ? -1 : 1;
        double dist = L * (ip % 2 ? rng.logu(1e-3, 0.3) : rng.logu(0.3, 3.0));
        double x = side < 0 ? x0 - dist : x1 + dist;
        double h = std::min(0.4 * dist, 0.05 * hk);
        if (!(h > 1e3 * EPS * std::max(std::fabs(x), L))) { R.counter("outside_point_below_resolution_not_judged"); continue; }
        const double he = side < 0 ? knots[1] - knots[0] : knots[nk - 1] - knots[nk - 2];
        const double dd = dist + he, q = dd / he;
        const double terms = Yd + Mxd * dd * (1 + q + q * q) + 3 * K2d * dd * dd * (1 + q);
        Fd d = richardson([&](double t) { return sp->Calculate(t); }, x, h, 16 * EPS * terms);
        double an = sp->CalculateDerivative(x);
        if (!std::isfinite(an) || !std::isfinite(d.d)) {
          R.violation(std::string("spline/") + fam + "/non-finite-outside-grid", "spline value or derivative not finite outside the grid", J().raw("case", w.str()).d("at", x).d("derivative", an));
          continue;
        }
        R.eval(std::string("spline_") + fam + "_outside");
        double nat = d.fmax / std::max(dist, hk);
        if (!(d.err <= 1e-4 * std::max(std::fabs(d.d), nat))) { R.counter(std::string("spline_") + tn + "_outside_fd_unreliable_not_judged"); continue; }
        double tol = 1e-6 * std::max(std::fabs(an), std::fabs(d.d)) + 10 * d.err;
        stat(std::string("spline_") + fam + "_outside", std::fabs(an - d.d), tol);
        if (!(std::fabs(an - d.d) <= tol))
          R.violation(std::string("spline/") + fam + "/derivative-outside-grid",
                      "outside the data grid CalculateDerivative differs from the finite-difference derivative of Calculate",
                      J().raw("case", w.str()).d("at", x).d("grid_first", x0).d("grid_last", x1).d("derivative", an).d("numeric", d.d).d("fd_error_estimate", d.err));
        else if (n > 2 && (D.y.maxCoeff() - D.y.minCoeff()) > 0) {
          uint64_t hh = vfh::hstr(6, fam);
          hh = vfh::hdouble(hh, x); hh = vfh::hdouble(hh, D.y[0]); hh = vfh::hdouble(hh, D.x[1]);
          R.nontrivial(hh);
        }
      }
    }
  }
}


// ================================================================ part 4: concurrent use of distinct objects
// T threads, each owning its own potential functions (lj126, ljg, cbspl), splines (cubic, akima, linear)
// and bonded interactions (with its own Topology), evaluate value and derivatives at thread-private
// random arguments in tight loops, released together by a barrier, several rounds. Oracle: the same call
// sequences executed serially beforehand on identically constructed objects give bit-identical results.
static const char *CFORM[] = {"lj126", "ljg", "cbspl", "cubic", "akima", "linear", "bond", "angle", "dihedral"};
struct ConcObjs {
  std::unique_ptr<PotentialFunction> pot[3];
  double pmin[3], pcut[3];
  std::unique_ptr<votca::tools::Spline> sp[3];
  double sx0[3], sx1[3];
  std::unique_ptr<Topology> top;
  std::unique_ptr<Interaction> ia[3];
};
static void make_objs(ConcObjs &O, uint64_t seed) {
  vfh::Rng r(seed);
  for (int t = 0; t < 3; ++t) {
    double cut = r.logu(0.5, 3.0), mn = r.uni(0.02, 0.3) * cut;
    Index nl = t == 2 ? r.range(10, 40) : 0;
    for (;;) {
      try { O.pot[t] = make_pot(t, nl, mn, cut); break; } catch (std::runtime_error &) { mn *= 0.5; }
    }
    std::vector<double> v = gen_params(r, t, cut, O.pot[t]->getParamSize());
    for (Index i = 0; i < (Index)v.size(); ++i) O.pot[t]->setParam(i, v[i]);
    O.pmin[t] = mn; O.pcut[t] = cut;
  }
  for (int t = 0; t < 3; ++t) {
    Data D = gen_data(r, 6);
    if (t == 0) O.sp[t] = std::make_unique<votca::tools::CubicSpline>();
    else if (t == 1) O.sp[t] = std::make_unique<votca::tools::AkimaSpline>();
    else O.sp[t] = std::make_unique<votca::tools::LinSpline>();
    O.sp[t]->Interpolate(D.x, D.y);
    O.sx0[t] = D.x[0]; O.sx1[t] = D.x[D.x.size() - 1];
  }
  Chain C = gen_chain(r, 4);
  BoxG B = gen_box(r, 1 + (int)r.range(0, 1), C.lmax);
  while (box_hmin(B) * 0.45 < C.lmax) B.m *= 1.5;
  O.top = std::make_unique<Topology>();
  O.top->setBox(B.m);
  for (int k = 0; k < 4; ++k) O.top->CreateBead(Bead::spherical, "a", "A", 1, 1.0, 0.0)->setPos(C.p[k]);
  O.ia[0] = std::make_unique<IBond>(0, 1);
  O.ia[1] = std::make_unique<IAngle>(0, 1, 2);
  O.ia[2] = std::make_unique<IDihedral>(0, 1, 2, 3);
}
// one round of calls; out: results, tags (form*2 + is_derivative) only filled when tags != nullptr
static void conc_work(ConcObjs &O, uint64_t seed, int round, long calls, std::vector<double> &out, std::vector<uint8_t> *tags) {
  vfh::Rng r(seed * 2654435761ULL + (uint64_t)round * 40503ULL + 17);
  out.clear();
  auto put = [&](int form, bool der, double v) { out.push_back(v); if (tags) tags->push_back((uint8_t)(form * 2 + (der ? 1 : 0))); };
  static const int pattern[12] = {0, 1, 2, 3, 0, 4, 5, 6, 0, 7, 8, 1};
  for (long k = 0; k < calls; ++k) {
    int form = pattern[k % 12];
    if (form < 3) {
      PotentialFunction &pf = *O.pot[form];
      double x = r.uni(O.pmin[form], O.pcut[form] * 1.02);
      if (form == 2 && x > O.pcut[form]) x = O.pcut[form];
      put(form, false, pf.CalculateF(x));
      Index no = pf.getOptParamSize();
      Index i = (Index)r.range(0, no - 1), j = (Index)r.range(0, no - 1);
      put(form, true, pf.CalculateDF(i, x));
      put(form, true, pf.CalculateDF(j, x));
      put(form, true, pf.CalculateD2F(i, j, x));
    } else if (form < 6) {
      int t = form - 3;
      double L = O.sx1[t] - O.sx0[t], x = r.uni(O.sx0[t] - 0.1 * L, O.sx1[t] + 0.1 * L);
      put(form, false, O.sp[t]->Calculate(x));
      put(form, true, O.sp[t]->CalculateDerivative(x));
    } else {
      int t = form - 6;
      put(form, false, O.ia[t]->EvaluateVar(*O.top));
      V3 g = O.ia[t]->Grad(*O.top, (Index)r.range(0, t + 1));
      put(form, true, g[0]); put(form, true, g[1]); put(form, true, g[2]);
    }
  }
}
struct SpinBarrier {
  std::atomic<int> count{0}, gen{0};
  int n;
  explicit SpinBarrier(int nn) : n(nn) {}
  void wait() {
    int g = gen.load();
    if (count.fetch_add(1) + 1 == n) { count.store(0); gen.fetch_add(1); }
    else while (gen.load() == g) std::this_thread::yield();
  }
};
static void part_conc(vfh::Reporter &R, long seed, long shard, int T, int rounds, long calls) {
  std::vector<uint64_t> tseed(T);
  for (int t = 0; t < T; ++t) tseed[t] = vfh::hmix(vfh::hmix(vfh::hmix(99, (uint64_t)seed), (uint64_t)shard), (uint64_t)t);
  // ---- serial reference
  std::vector<std::vector<std::vector<double>>> ser(T, std::vector<std::vector<double>>(rounds)), con = ser;
  std::vector<uint8_t> tags;
  for (int t = 0; t < T; ++t) {
    ConcObjs O;
    make_objs(O, tseed[t]);
    for (int rd = 0; rd < rounds; ++rd) conc_work(O, tseed[t], rd, calls, ser[t][rd], (t == 0 && rd == 0) ? &tags : nullptr);
  }
  // ---- concurrent run on identically constructed objects
  std::vector<ConcObjs> objs(T);
  for (int t = 0; t < T; ++t) make_objs(objs[t], tseed[t]);
  SpinBarrier bar(T);
  typedef std::chrono::steady_clock clk;
  std::vector<std::vector<long long>> t0(T, std::vector<long long>(rounds)), t1 = t0;
  std::vector<std::thread> th;
  for (int t = 0; t < T; ++t)
    th.emplace_back([&, t]() {
      for (int rd = 0; rd < rounds; ++rd) {
        bar.wait();
        t0[t][rd] = std::chrono::duration_cast<std::chrono::nanoseconds>(clk::now().time_since_epoch()).count();
        conc_work(objs[t], tseed[t], rd, calls, con[t][rd], nullptr);
        t1[t][rd] = std::chrono::duration_cast<std::chrono::nanoseconds>(clk::now().time_since_epoch()).count();
      }
    });
  for (auto &x : th) x.join();
  // ---- compare bit for bit
  long long nform[9] = {0};
  for (int t = 0; t < T; ++t)
    for (int rd = 0; rd < rounds; ++rd) {
      const auto &a = ser[t][rd], &b = con[t][rd];
      bool clean = a.size() == b.size() && a.size() == tags.size();
      if (!clean) { R.violation("concurrent/result-count-differs", "concurrent run produced a different number of results", J().i("thread", t).i("round", rd)); continue; }
      for (size_t k = 0; k < a.size(); ++k) {
        int form = tags[k] / 2;
        bool der = tags[k] % 2;
        ++nform[form];
        if (std::memcmp(&a[k], &b[k], sizeof(double)) != 0 && !(std::isnan(a[k]) && std::isnan(b[k]))) {
          clean = false;
          R.violation(std::string("concurrent/") + CFORM[form] + (der ? "/derivative-differs-from-serial" : "/value-differs-from-serial"),
                      "a result obtained while other threads evaluate their own objects differs from the same call sequence executed serially",
                      J().i("seed", seed).i("shard", shard).i("threads", T).i("rounds", rounds).i("calls_per_round", calls).i("thread", t).i("round", rd).i("result_index", (long long)k)
                          .d("serial", a[k]).d("concurrent", b[k]));
        }
      }
      if (clean) R.nontrivial(vfh::hdouble(vfh::hdouble(vfh::hmix(vfh::hmix(555, tseed[t]), (uint64_t)rd), a[0]), a[a.size() - 1]));
    }
  for (int f = 0; f < 9; ++f) R.eval(std::string("concurrent_") + CFORM[f], nform[f]);
  // ---- interleaving evidence from the time stamps
  long all_overlap = 0, some_overlap = 0;
  for (int rd = 0; rd < rounds; ++rd) {
    long long maxstart = 0, minend = (1LL << 62);
    int pairs = 0;
    for (int t = 0; t < T; ++t) { maxstart = std::max(maxstart, t0[t][rd]); minend = std::min(minend, t1[t][rd]); }
    for (int t = 0; t < T; ++t) for (int u = t + 1; u < T; ++u) if (t0[t][rd] < t1[u][rd] && t0[u][rd] < t1[t][rd]) ++pairs;
    if (maxstart < minend) ++all_overlap;
    if (pairs) ++some_overlap;
  }
  R.counter("concurrent_shards_with_" + std::to_string(T) + "_threads");
  R.counter("concurrent_thread_rounds", (long long)T * rounds);
  R.counter("concurrent_rounds", rounds);
  R.counter("concurrent_rounds_with_all_threads_overlapping", all_overlap);
  R.counter("concurrent_rounds_with_some_threads_overlapping", some_overlap);
  R.sample(J().i("threads", T).i("rounds", rounds).i("calls_per_round", calls).i("rounds_all_threads_overlapping", all_overlap).d("first_result_serial", ser[0][0][0]).d("first_result_concurrent", con[0][0][0]));
}

// print the running case on abort, then hand over to the sanitizer's handler
static struct sigaction g_old_abrt;
static void on_abort(int sig, siginfo_t *si, void *ctx) {
  vfh::abort_handler(sig);
  if (g_old_abrt.sa_flags & SA_SIGINFO) {
    if (g_old_abrt.sa_sigaction) g_old_abrt.sa_sigaction(sig, si, ctx);
  } else if (g_old_abrt.sa_handler != SIG_DFL && g_old_abrt.sa_handler != SIG_IGN) g_old_abrt.sa_handler(sig);
}
static void install_abort_handler() {
  struct sigaction sa;
  memset(&sa, 0, sizeof sa);
  sa.sa_sigaction = on_abort;
  sa.sa_flags = SA_SIGINFO | SA_RESETHAND;
  sigaction(SIGABRT, &sa, &g_old_abrt);
}

int main(int argc, char **argv) {
  install_abort_handler();
  vfh::Args A(argc, argv);
  long seed = A.num("seed", 1), shard = A.num("shard", 0), n = A.num("n", 100);
  std::string part = A.str("part", "inter"), tmp = A.str("tmp", ".");
  vfh::Rng rng(seed * 7919 + shard * 104729 + vfh::hstr(3, part) % 1000003);
  vfh::Reporter R;
  g_stats = A.has("stats");
  if (part == "inter") part_inter(rng, R, n, false);
  else if (part == "interx") part_inter(rng, R, n, true);
  else if (part == "pot") part_pot(rng, R, n, tmp);
  else if (part == "spline") part_spline(rng, R, n);
  else if (part == "conc") part_conc(R, seed, shard, (int)A.num("threads", 4), (int)A.num("rounds", 10), n);
  else { std::cerr << "unknown part\n"; return 3; }
  R.summary();
  for (auto &kv : g_worst) std::cerr << "STAT worst diff/tol " << kv.first << " " << kv.second << "\n";
  return 0;
}
