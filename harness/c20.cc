// C20 monitor: unit conversions and physical constants (DESIGN.md §5 C20).
//
// Exhaustive: UnitConverter::convert over ALL ordered pairs and triples of
// every enum; every tools::conv constant against CODATA 2018 / SI values
// embedded here; cross-table agreement conv:: vs UnitConverter vs the factors
// hard-coded in the gro/xyz/pdb/LAMMPS/DL_POLY readers and writers (observed
// through one-bead files); Elements getters for every symbol the library
// knows against an embedded periodic table.
//
// Tolerances: UnitConverter identities (a->b->a, a->b->c = a->c, derived =
// quotient of base conversions) 1e-12 relative; agreement with reference
// values and between tables: half a unit of the 4th significant digit of the
// reference; identities among the independently tabulated conv:: constants:
// relative 5e-5 (four significant digits), measured defect reported.
#include "vfh.h"
#include <fstream>
#include <sys/stat.h>
#include <votca/tools/constants.h>
#include <votca/tools/types.h>
// enumerate the library's own element tables (harness TU only, DESIGN.md §2.2)
#define private public
#include <votca/tools/elements.h>
#undef private
#include <votca/csg/pdbwriter.h>
#include <votca/csg/topology.h>
#include <votca/csg/topologyreader.h>
#include <votca/csg/trajectoryreader.h>
#include <votca/csg/trajectorywriter.h>
#include <votca/csg/units.h>
#include <votca/csg/xyzreader.h>
#include <votca/csg/xyzwriter.h>
#include <votca/tools/unitconverter.h>
// private module headers: the units each I/O module *declares*
#include "modules/io/dlpolytrajectoryreader.h"
#include "modules/io/dlpolytrajectorywriter.h"
#include "modules/io/groreader.h"
#include "modules/io/growriter.h"
#include "modules/io/lammpsdatareader.h"
#include "modules/io/lammpsdumpreader.h"
#include "modules/io/lammpsdumpwriter.h"
#include "modules/io/pdbreader.h"

using namespace votca::tools;
using namespace votca::csg;
using votca::Index;
using vfh::J;
typedef Eigen::Vector3d V3;
typedef Eigen::Matrix3d M3;

static vfh::Reporter R;
static std::string g_dir = ".";

struct Quiet {
  std::streambuf *oc, *oe;
  std::ostringstream sink;
  Quiet() { oc = std::cout.rdbuf(sink.rdbuf()); oe = std::cerr.rdbuf(sink.rdbuf()); }
  ~Quiet() { std::cout.rdbuf(oc); std::cerr.rdbuf(oe); }
};

// agreement to >= 4 significant digits: half a unit of the 4th digit of ref
static double tol4(double ref) {
  if (ref == 0 || !std::isfinite(ref)) return 0;
  return 0.5 * std::pow(10.0, std::floor(std::log10(std::fabs(ref))) - 3);
}
static bool agree4(double got, double ref) { return std::isfinite(got) && std::fabs(got - ref) <= tol4(ref) * (1 + 1e-9); }
static bool ident(double got, double ref) { return std::isfinite(got) && std::fabs(got - ref) <= 1e-12 * std::fabs(ref); }
static void nt(const std::string &s) { R.nontrivial(vfh::hstr(3, s)); }

// ------------------------------------------------------ UnitConverter
template <class E>
struct Dim {
  std::string name;
  std::vector<E> u;
  std::vector<std::string> un;
  std::vector<double> si;      // size of the unit in SI
  std::vector<double> si_alt;  // same, with the other recognised calorie (0: none)
};
static const UnitConverter UC;

template <class E>
static void check_dim(const Dim<E> &D) {
  size_t n = D.u.size();
  // does the enum have members this monitor does not know? (probe the first
  // value after the known ones when that is representable)
  if ((n & (n - 1)) != 0) {
    double p = UC.convert(D.u[0], (E)n);
    if (std::isfinite(p) && p != 0) R.inconclusive("enum " + D.name + " has more members than the monitor enumerates");
  }
  for (size_t a = 0; a < n; ++a)
    for (size_t b = 0; b < n; ++b) {
      double f = UC.convert(D.u[a], D.u[b]);
      std::string id = D.name + ":" + D.un[a] + "->" + D.un[b];
      R.eval("uc/pair-roundtrip");
      if (a != b) nt(id);
      double g = UC.convert(D.u[b], D.u[a]);
      if (!(std::isfinite(f) && f > 0) || !ident(f * g, 1.0))
        R.violation("uc/roundtrip/" + D.name, "convert(a,b)*convert(b,a) != 1 (1e-12) or factor not finite/positive",
                    J().s("dimension", D.name).s("from", D.un[a]).s("to", D.un[b]).d("a_to_b", f).d("b_to_a", g).d("product", f * g));
      if (a == b && f != 1.0)
        R.violation("uc/self/" + D.name, "convert(a,a) != 1", J().s("dimension", D.name).s("unit", D.un[a]).d("got", f));
      // reference: 1 a = si[a]/si[b] b
      R.eval("uc/pair-reference");
      double ref = D.si[a] / D.si[b];
      bool ok = agree4(f, ref);
      bool alt = false;
      if (!ok && (D.si_alt[a] != 0 || D.si_alt[b] != 0)) {
        double ra = (D.si_alt[a] != 0 ? D.si_alt[a] : D.si[a]) / (D.si_alt[b] != 0 ? D.si_alt[b] : D.si[b]);
        if (agree4(f, ra)) { ok = true; alt = true; }
      }
      if (alt) R.counter("uc_factors_using_international_table_calorie");
      if (!ok)
        R.violation("uc/reference/" + D.name + "/" + D.un[a] + "->" + D.un[b], "conversion factor differs from the CODATA 2018 / SI value in the 4th significant digit or earlier",
                    J().s("dimension", D.name).s("from", D.un[a]).s("to", D.un[b]).d("got", f).d("reference", ref).d("tolerance", tol4(ref)).d("relative_deviation", f / ref - 1));
      else if (R.want_sample() && a + 1 == b) R.sample(J().s("convert", id).d("got", f).d("reference", ref));
      for (size_t c = 0; c < n; ++c) {
        R.eval("uc/triple-transitivity");
        if (a != b && b != c && a != c) nt(id + "->" + D.un[c]);
        double fb = UC.convert(D.u[b], D.u[c]), fc = UC.convert(D.u[a], D.u[c]);
        if (!ident(f * fb, fc))
          R.violation("uc/transitivity/" + D.name, "convert(a,b)*convert(b,c) != convert(a,c) (1e-12)",
                      J().s("dimension", D.name).s("a", D.un[a]).s("b", D.un[b]).s("c", D.un[c]).d("ab", f).d("bc", fb).d("ac", fc));
      }
    }
}

// ------------------------------------------------------ one-bead I/O
static std::string slurp(const std::string &f) {
  std::ifstream in(f);
  std::stringstream ss;
  ss << in.rdbuf();
  return ss.str();
}
static std::vector<double> numbers_of_line(const std::string &line) {
  std::vector<double> v;
  std::istringstream ss(line);
  std::string t;
  while (ss >> t) {
    char *e = nullptr;
    double d = strtod(t.c_str(), &e);
    if (e && *e == 0) v.push_back(d);
  }
  return v;
}
static std::vector<std::string> lines_of(const std::string &s) {
  std::vector<std::string> L;
  std::istringstream ss(s);
  std::string l;
  while (std::getline(ss, l)) L.push_back(l);
  return L;
}

struct IoObs { std::string module, quantity; double observed; double declared; double convention; std::string note, file; };
static std::vector<IoObs> g_io;
static void io(const std::string &m, const std::string &q, double obs, double declared, double convention, const std::string &note,
               const std::string &file) {
  g_io.push_back({m, q, obs, declared, convention, note, file});
}

static const V3 P(1.25, -2.5, 3.75), VV(0.5, -1.5, 2.25), FF(100.0, -250.0, 400.0);
static const double LBOX = 8.0;

static void one_bead(Topology &t, bool withdata) {
  t.CreateResidue("RES");
  t.RegisterBeadType("C");
  Bead *b = t.CreateBead(Bead::spherical, "C", "C", 0, 12.0, 0.0);
  if (withdata) {
    M3 box = M3::Zero();
    box.diagonal() = V3(LBOX, LBOX, LBOX);
    t.setBox(box);
    t.setStep(10);
    t.setTime(0.02);
    b->setPos(P);
    b->setVel(VV);
    b->setF(FF);
    t.SetHasVel(true);
    t.SetHasForce(true);
  }
}
static double ratio3(const std::vector<double> &file, size_t off, const V3 &mem) {
  // least squares factor file = f * mem
  double a = 0, b = 0;
  for (int k = 0; k < 3; ++k) { a += file[off + k] * mem[k]; b += mem[k] * mem[k]; }
  return a / b;
}
static double ratio3(const V3 &got, const V3 &file) { return got.dot(file) / file.dot(file); }

static void io_writers() {
  CsgUnits cu;
  auto wr = [&](const std::string &ext) {
    Quiet q;
    Topology t;
    one_bead(t, true);
    std::string f = g_dir + "/w." + ext;
    std::unique_ptr<TrajectoryWriter> w = TrjWriterFactory().Create(f);
    w->Open(f);
    w->Write(&t);
    w->Close();
    return f;
  };
  const double NaN = std::nan("");
  {  // gro: nm, nm/ps
    GROWriter m;
    std::string s = slurp(wr("gro"));
    auto L = lines_of(s);
    // fixed columns: 20 chars of labels, then 3x%8.3f 3x%8.4f
    std::vector<double> v;
    for (int k = 0; k < 3; ++k) v.push_back(atof(L[2].substr(20 + 8 * k, 8).c_str()));
    for (int k = 0; k < 3; ++k) v.push_back(atof(L[2].substr(44 + 8 * k, 8).c_str()));
    io("gro-writer", "distance", ratio3(v, 0, P), UC.convert(cu.distance_unit, m.distance_unit), 1.0, "gro: nm", s);
    io("gro-writer", "velocity", ratio3(v, 3, VV), UC.convert(cu.velocity_unit, m.velocity_unit), 1.0, "gro: nm/ps", s);
    io("gro-writer", "box", numbers_of_line(L[3])[0] / LBOX, UC.convert(cu.distance_unit, m.distance_unit), 1.0, "gro: nm", s);
  }
  {  // xyz: Angstrom
    XYZWriter m;
    std::string s = slurp(wr("xyz"));
    for (auto &l : lines_of(s)) {
      auto v = numbers_of_line(l);
      if (v.size() == 3 && l.find(':') == std::string::npos) { io("xyz-writer", "distance", ratio3(v, 0, P), UC.convert(cu.distance_unit, m.distance_unit), 10.0, "xyz: Angstrom", s); break; }
    }
  }
  {  // pdb: Angstrom
    PDBWriter m;
    std::string s = slurp(wr("pdb"));
    for (auto &l : lines_of(s))
      if (l.rfind("ATOM", 0) == 0 && l.size() >= 54) {
        std::vector<double> v;
        for (int k = 0; k < 3; ++k) v.push_back(atof(l.substr(30 + 8 * k, 8).c_str()));
        io("pdb-writer", "distance", ratio3(v, 0, P), UC.convert(cu.distance_unit, m.distance_unit), 10.0, "pdb: Angstrom", s);
        break;
      }
  }
  {  // LAMMPS dump. No single LAMMPS unit style is implied by the file; the
     // module declares 'real' (A, A/fs, kcal/mol/A)
    LAMMPSDumpWriter m;
    std::string s = slurp(wr("dump"));
    auto L = lines_of(s);
    for (size_t i = 0; i < L.size(); ++i) {
      if (L[i].rfind("ITEM: BOX", 0) == 0) io("dump-writer", "box", numbers_of_line(L[i + 1])[1] / LBOX, UC.convert(cu.distance_unit, m.distance_unit), NaN, "", s);
      if (L[i].rfind("ITEM: ATOMS", 0) == 0) {
        auto v = numbers_of_line(L[i + 1]);  // id type x y z vx vy vz fx fy fz
        io("dump-writer", "distance", ratio3(v, 2, P), UC.convert(cu.distance_unit, m.distance_unit), NaN, "", s);
        io("dump-writer", "velocity", ratio3(v, 5, VV), UC.convert(cu.velocity_unit, m.velocity_unit), NaN, "declared: LAMMPS real units (A/fs)", s);
        io("dump-writer", "force", ratio3(v, 8, FF), UC.convert(cu.force_unit, m.force_unit), NaN, "declared: kcal/mol/A (thermochemical calorie in LAMMPS and in UnitConverter)", s);
      }
    }
  }
  {  // DL_POLY HISTORY: A, A/ps, 10 J/mol/A (DL_POLY internal units)
    DLPOLYTrajectoryWriter m;
    std::string s = slurp(wr("dlph"));
    auto L = lines_of(s);
    // title, header, timestep, 3 box lines, atom line, pos, vel, force
    if (L.size() >= 10) {
      io("dlpoly-writer", "box", numbers_of_line(L[3])[0] / LBOX, UC.convert(cu.distance_unit, m.distance_unit), 10.0, "DL_POLY: Angstrom", s);
      io("dlpoly-writer", "distance", ratio3(numbers_of_line(L[7]), 0, P), UC.convert(cu.distance_unit, m.distance_unit), 10.0, "DL_POLY: Angstrom", s);
      io("dlpoly-writer", "velocity", ratio3(numbers_of_line(L[8]), 0, VV), UC.convert(cu.velocity_unit, m.velocity_unit), 10.0, "DL_POLY: Angstrom/ps", s);
      io("dlpoly-writer", "force", ratio3(numbers_of_line(L[9]), 0, FF), UC.convert(cu.force_unit, m.force_unit),
         UC.convert(MolarEnergyUnit::kilojoules_per_mole, MolarEnergyUnit::joules_per_mole) / 10.0 / UC.convert(DistanceUnit::nanometers, DistanceUnit::angstroms),
         "DL_POLY internal force unit: 10 J/mol/Angstrom (= amu A/ps^2)", s);
    }
  }
}

static void io_readers() {
  CsgUnits cu;
  const double NaN = std::nan("");
  const V3 FP(12.5, -25.0, 37.5), FV(5.0, -15.0, 22.5), FFo(2.0, -5.0, 8.0);  // numbers placed into the files
  const double FB = 80.0;
  auto rd = [&](const std::string &ext, const std::string &content, Topology &t) {
    std::string f = g_dir + "/r." + ext;
    { std::ofstream o(f); o << content; }
    Quiet q;
    one_bead(t, false);
    std::unique_ptr<TrajectoryReader> r = TrjReaderFactory().Create(f);
    r->Open(f);
    r->FirstFrame(t);
    r->Close();
  };
  char b[600];
  {
    GROReader m;
    snprintf(b, sizeof b, "title\n    1\n%5d%-5s%5s%5d%8.3f%8.3f%8.3f%8.4f%8.4f%8.4f\n%10.5f%10.5f%10.5f\n", 1, "RES", "C", 1, FP[0], FP[1], FP[2], FV[0], FV[1], FV[2], FB, FB, FB);
    Topology t; rd("gro", b, t);
    io("gro-reader", "distance", ratio3(t.getBead(0)->getPos(), FP), UC.convert(m.distance_unit, cu.distance_unit), 1.0, "gro: nm", b);
    io("gro-reader", "velocity", ratio3(t.getBead(0)->getVel(), FV), UC.convert(m.velocity_unit, cu.velocity_unit), 1.0, "gro: nm/ps", b);
    io("gro-reader", "box", t.getBox()(0, 0) / FB, UC.convert(m.distance_unit, cu.distance_unit), 1.0, "gro: nm", b);
  }
  {
    XYZReader m;
    snprintf(b, sizeof b, "1\ncomment\nC %12.5f %12.5f %12.5f\n", FP[0], FP[1], FP[2]);
    Topology t; rd("xyz", b, t);
    io("xyz-reader", "distance", ratio3(t.getBead(0)->getPos(), FP), UC.convert(m.distance_unit, cu.distance_unit), 0.1, "xyz: Angstrom", b);
  }
  {
    PDBReader m;
    snprintf(b, sizeof b, "CRYST1%9.3f%9.3f%9.3f%7.2f%7.2f%7.2f P 1           1\nATOM  %5d %-4s %-3s A%4d    %8.3f%8.3f%8.3f%6.2f%6.2f          %2s  \nEND\n", FB, FB, FB, 90.0, 90.0,
             90.0, 1, "C", "RES", 1, FP[0], FP[1], FP[2], 1.0, 0.0, "C");
    Topology t; rd("pdb", b, t);
    io("pdb-reader", "distance", ratio3(t.getBead(0)->getPos(), FP), UC.convert(m.distance_unit, cu.distance_unit), 0.1, "pdb: Angstrom", b);
    io("pdb-reader", "box", t.getBox()(0, 0) / FB, UC.convert(m.distance_unit, cu.distance_unit), 0.1, "pdb: Angstrom", b);
  }
  {
    LAMMPSDumpReader m;
    snprintf(b, sizeof b, "ITEM: TIMESTEP\n10\nITEM: NUMBER OF ATOMS\n1\nITEM: BOX BOUNDS pp pp pp\n0 %f\n0 %f\n0 %f\nITEM: ATOMS id type x y z vx vy vz fx fy fz\n1 1 %f %f %f %f %f %f %f %f %f\n", FB, FB, FB,
             FP[0], FP[1], FP[2], FV[0], FV[1], FV[2], FFo[0], FFo[1], FFo[2]);
    Topology t; rd("dump", b, t);
    io("dump-reader", "distance", ratio3(t.getBead(0)->getPos(), FP), UC.convert(m.distance_unit, cu.distance_unit), NaN, "", b);
    io("dump-reader", "velocity", ratio3(t.getBead(0)->getVel(), FV), UC.convert(m.velocity_unit, cu.velocity_unit), NaN, "declared: LAMMPS real units (A/fs)", b);
    io("dump-reader", "force", ratio3(t.getBead(0)->getF(), FFo), UC.convert(m.force_unit, cu.force_unit), NaN, "declared: kcal/mol/A (thermochemical calorie in LAMMPS and in UnitConverter)", b);
    io("dump-reader", "box", t.getBox()(0, 0) / FB, UC.convert(m.distance_unit, cu.distance_unit), NaN, "", b);
  }
  {  // the three coordinate flavours of the dump reader (x, xu unwrapped, xs
     // scaled by the box edge) and the stored box must use one A->nm factor
    const V3 FR(0.15625, 0.3125, 0.46875);  // fractions: FR*FB = FP
    auto flavour = [&](const char *cols, const V3 &val, const char *tag) {
      snprintf(b, sizeof b, "ITEM: TIMESTEP\n10\nITEM: NUMBER OF ATOMS\n1\nITEM: BOX BOUNDS pp pp pp\n0 %f\n0 %f\n0 %f\nITEM: ATOMS id type %s\n1 1 %.8f %.8f %.8f\n", FB, FB, FB, cols, val[0], val[1], val[2]);
      Topology t; rd(tag, b, t);
      return std::make_pair(t.getBead(0)->getPos(), t.getBox()(0, 0) / FB);
    };
    const V3 FPp(12.5, 25.0, 37.5);
    auto rx = flavour("x y z", FPp, "dump"), ru = flavour("xu yu zu", FPp + V3(FB, -2 * FB, 3 * FB), "dump"), rs = flavour("xs ys zs", FR, "dump");
    double fx = ratio3(rx.first, FPp), fu = ratio3(ru.first, FPp + V3(FB, -2 * FB, 3 * FB)), fs = ratio3(rs.first, FR * FB), fb = rs.second;
    R.eval("io/dump-reader-coordinate-flavours", 2);
    nt("io/dump-reader/flavours");
    J w; w.d("factor_x", fx).d("factor_xu", fu).d("factor_xs_per_fraction_times_edge", fs).d("factor_box", fb).s("file_xs", b);
    // component-wise as well (a swap of two columns can leave the least-squares factor nearly unchanged)
    bool ubad = false, sbad = false;
    const V3 FU = FPp + V3(FB, -2 * FB, 3 * FB);
    for (int k = 0; k < 3; ++k) {
      if (!(std::fabs(ru.first[k] - FU[k] * fx) <= 1e-9)) ubad = true;
      if (!(std::fabs(rs.first[k] - FR[k] * FB * fx) <= 1e-9)) sbad = true;
    }
    if (ubad || !agree4(fu, fx)) R.violation("io/dump-reader/unwrapped-position-factor", "LAMMPSDumpReader: the xu/yu/zu columns are not converted like x/y/z (Angstrom -> nm)", w);
    if (sbad || !agree4(fs, fx) || !agree4(fs, fb)) R.violation("io/dump-reader/scaled-position-factor", "LAMMPSDumpReader: xs/ys/zs * box edge is not converted with the Angstrom -> nm factor of the x/y/z columns and of the stored box", w);
    g_io.push_back({"dump-reader", "unwrapped-position", fu, UC.convert(DistanceUnit::angstroms, cu.distance_unit), NaN, "xu yu zu columns", ""});
    g_io.push_back({"dump-reader", "scaled-position", fs, UC.convert(DistanceUnit::angstroms, cu.distance_unit), NaN, "xs ys zs columns times box edge [A]", ""});
  }
  {
    DLPOLYTrajectoryReader m;
    snprintf(b, sizeof b, "title\n%10d%10d%10d\ntimestep%10d%10d%10d%10d%12.6f%12.6f\n%20.10f%20.10f%20.10f\n%20.10f%20.10f%20.10f\n%20.10f%20.10f%20.10f\n%-8s%10d%12.6f%12.6f\n%20.10f%20.10f%20.10f\n%20.10f%20.10f%20.10f\n%20.10f%20.10f%20.10f\n",
             2, 2, 1, 10, 1, 2, 2, 0.002, 0.02, FB, 0.0, 0.0, 0.0, FB, 0.0, 0.0, 0.0, FB, "C", 1, 12.0, 0.0, FP[0], FP[1], FP[2], FV[0], FV[1], FV[2], FFo[0], FFo[1], FFo[2]);
    Topology t; rd("dlph", b, t);
    io("dlpoly-reader", "distance", ratio3(t.getBead(0)->getPos(), FP), UC.convert(m.distance_unit, cu.distance_unit), 0.1, "DL_POLY: Angstrom", b);
    io("dlpoly-reader", "velocity", ratio3(t.getBead(0)->getVel(), FV), UC.convert(m.velocity_unit, cu.velocity_unit), 0.1, "DL_POLY: Angstrom/ps", b);
    io("dlpoly-reader", "force", ratio3(t.getBead(0)->getF(), FFo), UC.convert(m.force_unit, cu.force_unit),
       10.0 * UC.convert(MolarEnergyUnit::joules_per_mole, MolarEnergyUnit::kilojoules_per_mole) / UC.convert(DistanceUnit::angstroms, DistanceUnit::nanometers),
       "DL_POLY internal force unit: 10 J/mol/Angstrom", b);
    io("dlpoly-reader", "box", t.getBox()(0, 0) / FB, UC.convert(m.distance_unit, cu.distance_unit), 0.1, "DL_POLY: Angstrom", b);
  }
  {  // LAMMPS data file (topology reader)
    LAMMPSDataReader m;
    snprintf(b, sizeof b, "LAMMPS data file\n\n 1 atoms\n 0 bonds\n 0 angles\n 0 dihedrals\n 0 impropers\n 1 atom types\n 0 bond types\n 0 angle types\n 0 dihedral types\n 0 improper types\n 0 %f xlo xhi\n 0 %f ylo yhi\n 0 %f zlo zhi\n\nMasses\n\n1 12.0107\n\nAtoms\n\n1 1 1 0.0 %f %f %f\n\n",
             FB, FB, FB, FP[0], FP[1], FP[2]);
    std::string f = g_dir + "/r.data";
    { std::ofstream o(f); o << b; }
    Topology t;
    bool ok = true;
    std::string msg;
    try { Quiet q; TopReaderFactory().Create(f)->ReadTopology(f, t); } catch (std::exception &e) { ok = false; msg = e.what(); }
    if (ok && t.BeadCount() == 1) {
      io("lammpsdata-reader", "distance", ratio3(t.getBead(0)->getPos(), FP), UC.convert(m.distance_unit, cu.distance_unit), NaN, "", b);
      io("lammpsdata-reader", "box", t.getBox()(0, 0) / FB, UC.convert(m.distance_unit, cu.distance_unit), NaN, "", b);
    } else R.counter("lammpsdata_reader_probe_not_readable");
  }
}

// ------------------------------------------------------------- elements
struct El { int Z; const char *sym, *name; double lo, hi; };
// Standard atomic weights: the interval spanned by the IUPAC recommendations
// 1985..2021 (abridged/conventional values and, where IUPAC gives an interval,
// its bounds); elements without stable isotopes: mass number of the longest
// lived isotope .. its atomic mass.
static const El PT[] = {
    {1, "H", "HYDROGEN", 1.00784, 1.00811}, {2, "He", "HELIUM", 4.002602, 4.002602}, {3, "Li", "LITHIUM", 6.938, 6.997},
    {4, "Be", "BERYLLIUM", 9.012182, 9.0121831}, {5, "B", "BORON", 10.806, 10.821}, {6, "C", "CARBON", 12.0096, 12.0116},
    {7, "N", "NITROGEN", 14.00643, 14.00728}, {8, "O", "OXYGEN", 15.99903, 15.99977}, {9, "F", "FLUORINE", 18.9984032, 18.998403163},
    {10, "Ne", "NEON", 20.1797, 20.1797}, {11, "Na", "SODIUM", 22.98976928, 22.989770}, {12, "Mg", "MAGNESIUM", 24.304, 24.307},
    {13, "Al", "ALUMINUM", 26.9815385, 26.981538}, {14, "Si", "SILICON", 28.084, 28.086}, {15, "P", "PHOSPHORUS", 30.973761, 30.973762},
    {16, "S", "SULFUR", 32.059, 32.076}, {17, "Cl", "CHLORINE", 35.446, 35.457}, {18, "Ar", "ARGON", 39.792, 39.963},
    {19, "K", "POTASSIUM", 39.0983, 39.0983}, {20, "Ca", "CALCIUM", 40.078, 40.078}, {21, "Sc", "SCANDIUM", 44.955908, 44.955912},
    {22, "Ti", "TITANIUM", 47.867, 47.88}, {23, "V", "VANADIUM", 50.9415, 50.9415}, {24, "Cr", "CHROMIUM", 51.9961, 51.9961},
    {25, "Mn", "MANGANESE", 54.938043, 54.93805}, {26, "Fe", "IRON", 55.845, 55.847}, {27, "Co", "COBALT", 58.933194, 58.9332},
    {28, "Ni", "NICKEL", 58.69, 58.6934}, {29, "Cu", "COPPER", 63.546, 63.546}, {30, "Zn", "ZINC", 65.38, 65.409},
    {31, "Ga", "GALLIUM", 69.723, 69.723}, {32, "Ge", "GERMANIUM", 72.59, 72.64}, {33, "As", "ARSENIC", 74.921595, 74.9216},
    {34, "Se", "SELENIUM", 78.96, 78.971}, {35, "Br", "BROMINE", 79.901, 79.907}, {36, "Kr", "KRYPTON", 83.798, 83.80},
    {37, "Rb", "RUBIDIUM", 85.4678, 85.4678}, {38, "Sr", "STRONTIUM", 87.62, 87.62}, {39, "Y", "YTTRIUM", 88.90584, 88.90585},
    {40, "Zr", "ZIRCONIUM", 91.224, 91.224}, {41, "Nb", "NIOBIUM", 92.90637, 92.90638}, {42, "Mo", "MOLYBDENUM", 95.94, 95.96},
    {43, "Tc", "TECHNETIUM", 96.906, 98.0}, {44, "Ru", "RUTHENIUM", 101.07, 101.07}, {45, "Rh", "RHODIUM", 102.9055, 102.90550},
    {46, "Pd", "PALLADIUM", 106.42, 106.42}, {47, "Ag", "SILVER", 107.8682, 107.8682}, {48, "Cd", "CADMIUM", 112.411, 112.414},
    {49, "In", "INDIUM", 114.818, 114.818}, {50, "Sn", "TIN", 118.710, 118.710}, {51, "Sb", "ANTIMONY", 121.757, 121.760},
    {52, "Te", "TELLURIUM", 127.60, 127.60}, {53, "I", "IODINE", 126.90447, 126.90447}, {54, "Xe", "XENON", 131.29, 131.293},
    {55, "Cs", "CAESIUM", 132.90545, 132.90545196}, {56, "Ba", "BARIUM", 137.327, 137.327},
    {57, "La", "LANTHANUM", 138.9055, 138.90547}, {58, "Ce", "CERIUM", 140.115, 140.116}, {59, "Pr", "PRASEODYMIUM", 140.90765, 140.90766},
    {60, "Nd", "NEODYMIUM", 144.24, 144.242}, {61, "Pm", "PROMETHIUM", 144.9, 145.0}, {62, "Sm", "SAMARIUM", 150.36, 150.36},
    {63, "Eu", "EUROPIUM", 151.964, 151.965}, {64, "Gd", "GADOLINIUM", 157.25, 157.25}, {65, "Tb", "TERBIUM", 158.92534, 158.925354},
    {66, "Dy", "DYSPROSIUM", 162.50, 162.50}, {67, "Ho", "HOLMIUM", 164.93032, 164.930328}, {68, "Er", "ERBIUM", 167.259, 167.26},
    {69, "Tm", "THULIUM", 168.93421, 168.934218}, {70, "Yb", "YTTERBIUM", 173.04, 173.054}, {71, "Lu", "LUTETIUM", 174.9668, 174.967},
    {72, "Hf", "HAFNIUM", 178.486, 178.49}, {73, "Ta", "TANTALUM", 180.9479, 180.94788}, {74, "W", "TUNGSTEN", 183.84, 183.85},
    {75, "Re", "RHENIUM", 186.207, 186.207}, {76, "Os", "OSMIUM", 190.2, 190.23}, {77, "Ir", "IRIDIUM", 192.217, 192.22},
    {78, "Pt", "PLATINUM", 195.08, 195.084}, {79, "Au", "GOLD", 196.96654, 196.966570}, {80, "Hg", "MERCURY", 200.59, 200.592},
    {81, "Tl", "THALLIUM", 204.382, 204.385}, {82, "Pb", "LEAD", 206.14, 207.94}, {83, "Bi", "BISMUTH", 208.98037, 208.98040},
    {84, "Po", "POLONIUM", 208.98, 209.0}, {85, "At", "ASTATINE", 209.98, 210.0}, {86, "Rn", "RADON", 222.0, 222.02},
    {87, "Fr", "FRANCIUM", 223.0, 223.02}, {88, "Ra", "RADIUM", 226.0, 226.03}, {89, "Ac", "ACTINIUM", 227.0, 227.03},
    {90, "Th", "THORIUM", 232.0377, 232.0381}, {91, "Pa", "PROTACTINIUM", 231.03588, 231.03588}, {92, "U", "URANIUM", 238.0289, 238.02891}};
static const El *find_el(const std::string &s) {
  for (auto &e : PT) if (s == e.sym) return &e;
  return nullptr;
}

static void elements() {
  Elements E;
  // fill every table (getters fill lazily), then enumerate the library's keys
  try { E.getMass("H"); E.getEleNum("H"); E.getNucCrg("H"); E.getEleName(1); E.getEleFull("H"); E.getEleShort("HYDROGEN"); E.getCovRad("H", "ang"); E.getVdWChelpG("H"); E.getVdWMK("H"); E.getPolarizability("H"); } catch (std::exception &) {}
  std::set<std::string> syms;
  for (auto &kv : E.Mass_) syms.insert(kv.first);
  for (auto &kv : E.EleNum_) syms.insert(kv.first);
  for (auto &kv : E.NucCrg_) syms.insert(kv.first);
  for (auto &kv : E.EleFull_) syms.insert(kv.first);
  for (auto &kv : E.EleName_) syms.insert(kv.second);
  R.counter("element_symbols_known_to_library", (long long)syms.size());
  std::vector<std::string> name_bad;
  std::string name_detail;
  std::map<int, double> massZ;
  for (const std::string &s : syms) {
    const El *ref = find_el(s);
    R.eval("elements/symbol");
    nt("el:" + s);
    if (!ref) { R.violation("elements/unknown-symbol", "library knows an element symbol that is not in the periodic table (H..U)", J().s("symbol", s)); continue; }
    auto get = [&](const char *what, std::function<double()> f, double &out) {
      try { out = f(); return true; } catch (std::exception &e) {
        R.violation(std::string("elements/missing-") + what, std::string("symbol is known to one element table but ") + what + " is missing", J().s("symbol", s).s("exception", e.what()));
        return false;
      }
    };
    double z = 0, nc = 0, m = 0;
    R.eval("elements/atomic-number");
    if (get("atomic-number", [&] { return (double)E.getEleNum(s); }, z) && (int)z != ref->Z)
      R.violation("elements/atomic-number", "getEleNum differs from the periodic table", J().s("symbol", s).d("got", z).i("expected", ref->Z));
    R.eval("elements/nuclear-charge");
    if (get("nuclear-charge", [&] { return (double)E.getNucCrg(s); }, nc) && (int)nc != ref->Z)
      R.violation("elements/nuclear-charge", "getNucCrg differs from the atomic number", J().s("symbol", s).d("got", nc).i("expected", ref->Z));
    R.eval("elements/number-to-symbol");
    try {
      std::string back = E.getEleName(ref->Z);
      if (back != s) R.violation("elements/number-to-symbol", "getEleName(getEleNum(symbol)) != symbol", J().s("symbol", s).s("got", back));
    } catch (std::exception &e) { R.violation("elements/number-to-symbol", "getEleName throws for a known atomic number", J().s("symbol", s).i("Z", ref->Z)); }
    R.eval("elements/mass");
    if (get("mass", [&] { return E.getMass(s); }, m)) {
      double t = tol4(0.5 * (ref->lo + ref->hi));
      massZ[ref->Z] = m;
      if (!(m >= ref->lo - t && m <= ref->hi + t))
        R.violation("elements/mass", "getMass differs from the standard atomic weight (IUPAC 1985..2021 span) in the 4th significant digit or earlier",
                    J().s("symbol", s).i("Z", ref->Z).d("got", m).d("reference_low", ref->lo).d("reference_high", ref->hi).d("tolerance", t));
      else if (R.want_sample() && ref->Z == 6) R.sample(J().s("element", s).d("mass", m).d("reference_low", ref->lo).d("reference_high", ref->hi));
      // mass -> symbol is the inverse of symbol -> mass
      R.eval("elements/mass-to-symbol");
      try {
        std::string back = E.getEleShortClosestInMass(m, 0.01);
        if (back != s) R.violation("elements/mass-to-symbol", "getEleShortClosestInMass(getMass(s)) != s", J().s("symbol", s).s("got", back).d("mass", m));
      } catch (std::exception &e) { R.violation("elements/mass-to-symbol", "getEleShortClosestInMass throws for a library mass", J().s("symbol", s)); }
    }
    // full name <-> symbol tables must describe the same element
    R.eval("elements/fullname-roundtrip");
    try {
      std::string full = E.getEleFull(s);
      std::string back = E.getEleShort(full);
      double zb = -1;
      try { zb = (double)E.getEleNum(back); } catch (std::exception &) {}
      if (back != s || (int)zb != ref->Z) { name_bad.push_back(s); name_detail += s + "->" + full + "->" + back + "(Z=" + std::to_string((int)zb) + ") "; }
    } catch (std::exception &) {
      std::string full = "?";
      try { full = E.getEleFull(s); } catch (std::exception &) {}
      name_bad.push_back(s);
      name_detail += s + "->" + full + "->(not found) ";
    }
    // covalent radius: the three unit variants must be consistent
    if (E.CovRad_.count(s)) {
      R.eval("elements/covrad-units");
      double a = E.getCovRad(s, "ang"), n = E.getCovRad(s, "nm"), b = E.getCovRad(s, "bohr");
      if (!ident(n, a * conv::ang2nm) || !ident(b, a * conv::ang2bohr))
        R.violation("elements/covrad-units", "getCovRad in nm/bohr is not the Angstrom value times conv::ang2nm / conv::ang2bohr", J().s("symbol", s).d("ang", a).d("nm", n).d("bohr", b));
    }
  }
  if (!name_bad.empty())
    R.violation("elements/fullname-symbol-tables-inconsistent",
                "getEleShort(getEleFull(symbol)) does not lead back to the same element (atomic number changes or the name is unknown)",
                J().i("symbols_affected", (long long)name_bad.size()).s("symbol->fullname->symbol", name_detail));
  // masses increase with Z except for the three known inversions
  R.eval("elements/mass-order");
  std::string inv;
  int prevZ = -1; double prevM = 0;
  for (auto &kv : massZ) {
    if (prevZ > 0 && kv.first == prevZ + 1 && kv.second < prevM) {
      bool known = (prevZ == 18) || (prevZ == 27) || (prevZ == 52) || (prevZ == 90) || (prevZ == 92);
      if (!known) inv += std::to_string(prevZ) + ">" + std::to_string(kv.first) + " ";
    }
    prevZ = kv.first; prevM = kv.second;
  }
  if (!inv.empty()) R.violation("elements/mass-order", "atomic mass decreases with Z outside the known inversions (Ar/K, Co/Ni, Te/I)", J().s("pairs", inv));
  long long missing = 0;
  for (auto &e : PT) if (!syms.count(e.sym)) ++missing;
  R.counter("periodic_table_elements_H_to_U_absent_from_library(not judged)", missing);
}

// ------------------------------------------------------------------ main
int main(int argc, char **argv) {
  vfh::Args A(argc, argv);
  g_dir = A.str("dir", ".");
  mkdir(g_dir.c_str(), 0755);
  R.max_samples = 6;
  R.max_per_key = 50;
  TrajectoryWriter::RegisterPlugins();
  TrajectoryReader::RegisterPlugins();
  TopologyReader::RegisterPlugins();

  // ---- CODATA 2018 / SI (exact where defined) -----------------------------
  const double a0 = 5.29177210903e-11, eV = 1.602176634e-19, Eh = 4.3597447222071e-18, amu = 1.66053906660e-27;
  const double calth = 4184.0, calit = 4186.8, NA = 6.02214076e23, kB_SI = 1.380649e-23, hbar_SI = 1.054571817e-34;
  typedef DistanceUnit DU; typedef MassUnit MU; typedef TimeUnit TU; typedef EnergyUnit EU; typedef MolarEnergyUnit MEU;
  typedef ChargeUnit CU; typedef VelocityUnit VU; typedef ForceUnit FU; typedef MolarForceUnit MFU;
  Dim<DU> dist{"distance", {DU::meters, DU::centimeters, DU::nanometers, DU::angstroms, DU::bohr}, {"meters", "centimeters", "nanometers", "angstroms", "bohr"}, {1, 1e-2, 1e-9, 1e-10, a0}, {0, 0, 0, 0, 0}};
  Dim<MU> mass{"mass", {MU::attograms, MU::picograms, MU::femtograms, MU::atomic_mass_units, MU::grams_per_mole, MU::kilograms, MU::grams},
               {"attograms", "picograms", "femtograms", "atomic_mass_units", "grams_per_mole", "kilograms", "grams"}, {1e-21, 1e-15, 1e-18, amu, amu, 1, 1e-3}, {0, 0, 0, 0, 0, 0, 0}};
  Dim<TU> time{"time", {TU::seconds, TU::microseconds, TU::nanoseconds, TU::femtoseconds, TU::picoseconds}, {"seconds", "microseconds", "nanoseconds", "femtoseconds", "picoseconds"}, {1, 1e-6, 1e-9, 1e-15, 1e-12}, {0, 0, 0, 0, 0}};
  Dim<EU> ener{"energy", {EU::electron_volts, EU::kilocalories, EU::hartrees, EU::joules, EU::kilojoules}, {"electron_volts", "kilocalories", "hartrees", "joules", "kilojoules"}, {eV, calth, Eh, 1, 1e3}, {0, calit, 0, 0, 0}};
  Dim<MEU> mener{"molar_energy", {MEU::kilojoules_per_mole, MEU::joules_per_mole, MEU::kilocalories_per_mole, MEU::electron_volts_per_mole, MEU::hartrees_per_mole},
                 {"kilojoules_per_mole", "joules_per_mole", "kilocalories_per_mole", "electron_volts_per_mole", "hartrees_per_mole"}, {1e3, 1, calth, eV, Eh}, {0, 0, calit, 0, 0}};
  Dim<CU> chrg{"charge", {CU::e, CU::coulombs}, {"e", "coulombs"}, {eV, 1}, {0, 0}};
  Dim<VU> velo{"velocity", {VU::angstroms_per_femtosecond, VU::angstroms_per_picosecond, VU::nanometers_per_picosecond}, {"angstroms_per_femtosecond", "angstroms_per_picosecond", "nanometers_per_picosecond"}, {1e5, 1e2, 1e3}, {0, 0, 0}};
  Dim<FU> forc{"force", {FU::kilocalories_per_angstrom, FU::newtons, FU::kilojoules_per_nanometer, FU::kilojoules_per_angstrom, FU::hatree_per_bohr},
               {"kilocalories_per_angstrom", "newtons", "kilojoules_per_nanometer", "kilojoules_per_angstrom", "hatree_per_bohr"}, {calth / 1e-10, 1, 1e12, 1e13, Eh / a0}, {calit / 1e-10, 0, 0, 0, 0}};
  Dim<MFU> mforc{"molar_force", {MFU::kilocalories_per_mole_angstrom, MFU::newtons_per_mole, MFU::kilojoules_per_mole_nanometer, MFU::kilojoules_per_mole_angstrom, MFU::hatree_per_mole_bohr},
                 {"kilocalories_per_mole_angstrom", "newtons_per_mole", "kilojoules_per_mole_nanometer", "kilojoules_per_mole_angstrom", "hatree_per_mole_bohr"}, {calth / 1e-10, 1, 1e12, 1e13, Eh / a0}, {calit / 1e-10, 0, 0, 0, 0}};
  check_dim(dist); check_dim(mass); check_dim(time); check_dim(ener); check_dim(mener); check_dim(chrg); check_dim(velo); check_dim(forc); check_dim(mforc);

  // ---- derived units = quotient of the base conversions (1e-12) ------------
  {
    struct VD { VU v; DU d; TU t; const char *n; };
    std::vector<VD> vd = {{VU::angstroms_per_femtosecond, DU::angstroms, TU::femtoseconds, "A/fs"}, {VU::angstroms_per_picosecond, DU::angstroms, TU::picoseconds, "A/ps"}, {VU::nanometers_per_picosecond, DU::nanometers, TU::picoseconds, "nm/ps"}};
    for (auto &a : vd) for (auto &b : vd) {
      R.eval("uc/derived-velocity"); nt(std::string("dv") + a.n + b.n);
      double got = UC.convert(a.v, b.v), want = UC.convert(a.d, b.d) / UC.convert(a.t, b.t);
      if (!ident(got, want)) R.violation("uc/derived/velocity", "velocity conversion is not distance conversion / time conversion (1e-12)", J().s("from", a.n).s("to", b.n).d("got", got).d("quotient", want));
    }
    struct FD { FU f; EU e; DU d; const char *n; };
    std::vector<FD> fd = {{FU::kilocalories_per_angstrom, EU::kilocalories, DU::angstroms, "kcal/A"}, {FU::newtons, EU::joules, DU::meters, "N"}, {FU::kilojoules_per_nanometer, EU::kilojoules, DU::nanometers, "kJ/nm"},
                          {FU::kilojoules_per_angstrom, EU::kilojoules, DU::angstroms, "kJ/A"}, {FU::hatree_per_bohr, EU::hartrees, DU::bohr, "Eh/a0"}};
    for (auto &a : fd) for (auto &b : fd) {
      R.eval("uc/derived-force"); nt(std::string("df") + a.n + b.n);
      double got = UC.convert(a.f, b.f), want = UC.convert(a.e, b.e) / UC.convert(a.d, b.d);
      if (!ident(got, want)) R.violation("uc/derived/force", "force conversion is not energy conversion / distance conversion (1e-12)", J().s("from", a.n).s("to", b.n).d("got", got).d("quotient", want));
    }
    struct MD { MFU f; MEU e; DU d; const char *n; };
    std::vector<MD> md = {{MFU::kilocalories_per_mole_angstrom, MEU::kilocalories_per_mole, DU::angstroms, "kcal/mol/A"}, {MFU::newtons_per_mole, MEU::joules_per_mole, DU::meters, "N/mol"},
                          {MFU::kilojoules_per_mole_nanometer, MEU::kilojoules_per_mole, DU::nanometers, "kJ/mol/nm"}, {MFU::kilojoules_per_mole_angstrom, MEU::kilojoules_per_mole, DU::angstroms, "kJ/mol/A"},
                          {MFU::hatree_per_mole_bohr, MEU::hartrees_per_mole, DU::bohr, "Eh/mol/a0"}};
    for (auto &a : md) for (auto &b : md) {
      R.eval("uc/derived-molar-force"); nt(std::string("dm") + a.n + b.n);
      double got = UC.convert(a.f, b.f), want = UC.convert(a.e, b.e) / UC.convert(a.d, b.d);
      if (!ident(got, want)) R.violation("uc/derived/molar-force", "molar force conversion is not molar energy conversion / distance conversion (1e-12)", J().s("from", a.n).s("to", b.n).d("got", got).d("quotient", want));
    }
    // molar and extrinsic energy tables describe the same ratios
    std::vector<std::pair<EU, MEU>> em = {{EU::kilojoules, MEU::kilojoules_per_mole}, {EU::joules, MEU::joules_per_mole}, {EU::kilocalories, MEU::kilocalories_per_mole}, {EU::electron_volts, MEU::electron_volts_per_mole}, {EU::hartrees, MEU::hartrees_per_mole}};
    for (auto &a : em) for (auto &b : em) {
      R.eval("uc/energy-vs-molar-energy");
      double x = UC.convert(a.first, b.first), y = UC.convert(a.second, b.second);
      if (!agree4(x, y)) R.violation("cross/unitconverter/energy-vs-molar-energy", "the energy and the molar energy tables give different ratios for the same pair of units", J().d("energy", x).d("molar", y));
    }
  }

  // ---- tools::conv constants vs CODATA 2018 ----------------------------------
  {
    struct C { const char *name; double got, ref, alt; };
    std::vector<C> cs = {{"Pi", conv::Pi, 3.14159265358979323846, 0}, {"kB", conv::kB, kB_SI / eV, 0}, {"hbar", conv::hbar, hbar_SI / eV, 0},
                         {"bohr2nm", conv::bohr2nm, a0 / 1e-9, 0}, {"nm2bohr", conv::nm2bohr, 1e-9 / a0, 0}, {"ang2bohr", conv::ang2bohr, 1e-10 / a0, 0}, {"bohr2ang", conv::bohr2ang, a0 / 1e-10, 0},
                         {"nm2ang", conv::nm2ang, 10.0, 0}, {"ang2nm", conv::ang2nm, 0.1, 0}, {"hrt2ev", conv::hrt2ev, Eh / eV, 0}, {"ev2hrt", conv::ev2hrt, eV / Eh, 0},
                         {"ev2kj_per_mol", conv::ev2kj_per_mol, eV * NA / 1e3, 0}, {"kcal2kj", conv::kcal2kj, calth / 1e3, calit / 1e3}, {"kj2kcal", conv::kj2kcal, 1e3 / calth, 1e3 / calit}};
    for (auto &c : cs) {
      R.eval("conv/reference"); nt(std::string("conv:") + c.name);
      bool ok = agree4(c.got, c.ref);
      if (!ok && c.alt != 0 && agree4(c.got, c.alt)) { ok = true; R.counter(std::string("conv_") + c.name + "_is_the_international_table_calorie(4.1868), not the thermochemical(4.184)"); }
      if (!ok) R.violation(std::string("conv/reference/") + c.name, "constant differs from the CODATA 2018 / SI value in the 4th significant digit or earlier", J().s("constant", c.name).d("got", c.got).d("reference", c.ref).d("relative_deviation", c.got / c.ref - 1));
      else if (R.want_sample()) R.sample(J().s("constant", c.name).d("got", c.got).d("reference", c.ref));
    }
    struct I { const char *name; double got, want; };
    std::vector<I> is = {{"nm2bohr*bohr2nm", conv::nm2bohr * conv::bohr2nm, 1}, {"ang2bohr*bohr2ang", conv::ang2bohr * conv::bohr2ang, 1}, {"nm2ang*ang2nm", conv::nm2ang * conv::ang2nm, 1},
                         {"hrt2ev*ev2hrt", conv::hrt2ev * conv::ev2hrt, 1}, {"kcal2kj*kj2kcal", conv::kcal2kj * conv::kj2kcal, 1}, {"nm2bohr=nm2ang*ang2bohr", conv::nm2bohr, conv::nm2ang * conv::ang2bohr},
                         {"bohr2nm=bohr2ang*ang2nm", conv::bohr2nm, conv::bohr2ang * conv::ang2nm}};
    // The conv:: constants are tabulated independently of each other: the
    // statement asks them to agree "to at least four significant digits" with
    // every other place encoding the same quantity (the 1e-12 identities are
    // for UnitConverter conversions). Products / compositions of conv::
    // constants are therefore judged at relative 5e-5; the measured defect is
    // kept as an observation.
    double maxdef = 0;
    std::string maxname;
    for (auto &i : is) {
      R.eval("conv/identity"); nt(std::string("ci:") + i.name);
      double rel = std::fabs(i.got / i.want - 1);
      if (rel > maxdef) { maxdef = rel; maxname = i.name; }
      if (rel > 1e-12) R.counter(std::string("conv_identity_inexact_beyond_1e-12(not judged): ") + i.name);
      if (!(rel <= 5e-5)) R.violation(std::string("conv/identity/") + i.name, "there-and-back / composition of conv:: constants deviates from the identity in the 4th significant digit or earlier (relative 5e-5)", J().s("identity", i.name).d("got", i.got).d("expected", i.want).d("relative_deviation", i.got / i.want - 1));
    }
    R.counter("conv_identity_max_relative_defect_in_units_of_1e-12", (long long)std::llround(maxdef * 1e12));
    R.sample(J().s("observation", "largest relative defect among the conv:: identities").s("identity", maxname).d("relative_defect", maxdef));
    // conv:: vs UnitConverter
    std::vector<C> xs = {{"bohr2nm", conv::bohr2nm, UC.convert(DU::bohr, DU::nanometers), 0}, {"nm2bohr", conv::nm2bohr, UC.convert(DU::nanometers, DU::bohr), 0}, {"ang2bohr", conv::ang2bohr, UC.convert(DU::angstroms, DU::bohr), 0},
                         {"bohr2ang", conv::bohr2ang, UC.convert(DU::bohr, DU::angstroms), 0}, {"nm2ang", conv::nm2ang, UC.convert(DU::nanometers, DU::angstroms), 0}, {"ang2nm", conv::ang2nm, UC.convert(DU::angstroms, DU::nanometers), 0},
                         {"hrt2ev", conv::hrt2ev, UC.convert(EU::hartrees, EU::electron_volts), 0}, {"ev2hrt", conv::ev2hrt, UC.convert(EU::electron_volts, EU::hartrees), 0},
                         {"ev2kj_per_mol", conv::ev2kj_per_mol, UC.convert(EU::electron_volts, EU::kilojoules) * NA, 0},
                         {"kcal2kj", conv::kcal2kj, UC.convert(EU::kilocalories, EU::kilojoules), 0}, {"kj2kcal", conv::kj2kcal, UC.convert(EU::kilojoules, EU::kilocalories), 0},
                         {"kcal2kj(molar)", conv::kcal2kj, UC.convert(MEU::kilocalories_per_mole, MEU::kilojoules_per_mole), 0}};
    for (auto &c : xs) {
      R.eval("cross/conv-vs-unitconverter"); nt(std::string("cx:") + c.name);
      if (!agree4(c.got, c.ref))
        R.violation(std::string("cross/conv-vs-unitconverter/") + (std::string(c.name).find("kcal") != std::string::npos || std::string(c.name).find("kj2") != std::string::npos ? "kcal2kj" : c.name),
                    "tools::conv and UnitConverter encode the same quantity with different values (4th significant digit or earlier)",
                    J().s("constant", c.name).d("conv", c.got).d("unitconverter", c.ref).d("relative_deviation", c.got / c.ref - 1));
    }
  }

  // ---- csg's own unit set: derived units are the quotients of its base units ----
  {
    CsgUnits cu;
    struct Q { const char *name; double derived, quotient; };
    std::vector<Q> qs;
    qs.push_back({"force_unit = energy_unit / distance_unit", UC.convert(MolarForceUnit::kilojoules_per_mole_nanometer, cu.force_unit),
                  UC.convert(MolarEnergyUnit::kilojoules_per_mole, cu.energy_unit) / UC.convert(DistanceUnit::nanometers, cu.distance_unit)});
    qs.push_back({"force_unit = energy_unit / distance_unit (from kcal/mol/Angstrom)", UC.convert(MolarForceUnit::kilocalories_per_mole_angstrom, cu.force_unit),
                  UC.convert(MolarEnergyUnit::kilocalories_per_mole, cu.energy_unit) / UC.convert(DistanceUnit::angstroms, cu.distance_unit)});
    qs.push_back({"velocity_unit = distance_unit / time_unit", UC.convert(VelocityUnit::nanometers_per_picosecond, cu.velocity_unit),
                  UC.convert(DistanceUnit::nanometers, cu.distance_unit) / UC.convert(TimeUnit::picoseconds, cu.time_unit)});
    qs.push_back({"velocity_unit = distance_unit / time_unit (from Angstrom/fs)", UC.convert(VelocityUnit::angstroms_per_femtosecond, cu.velocity_unit),
                  UC.convert(DistanceUnit::angstroms, cu.distance_unit) / UC.convert(TimeUnit::femtoseconds, cu.time_unit)});
    for (auto &q : qs) {
      R.eval("csgunits/derived-is-quotient-of-base");
      nt(std::string("csgunits/") + q.name);
      if (!(std::fabs(q.derived - q.quotient) <= 1e-12 * std::fabs(q.quotient)))
        R.violation("csgunits/derived-unit-not-quotient-of-base-units", "a derived unit of csg::CsgUnits is not the quotient of its base units",
                    J().s("relation", q.name).d("through_derived_unit", q.derived).d("through_base_units", q.quotient));
    }
    // csg stores nm, ps, amu, e, kJ/mol (what every reader converts to and every writer converts from)
    R.eval("csgunits/base-units");
    if (cu.distance_unit != DistanceUnit::nanometers || cu.time_unit != TimeUnit::picoseconds || cu.mass_unit != MassUnit::atomic_mass_units ||
        cu.charge_unit != ChargeUnit::e || cu.energy_unit != MolarEnergyUnit::kilojoules_per_mole)
      R.violation("csgunits/base-units", "csg::CsgUnits base units are not nm, ps, amu, e, kJ/mol", J().s("note", "see csg/include/votca/csg/units.h"));
  }

  // ---- factors hard-coded in the I/O modules ---------------------------------
  try { io_writers(); } catch (std::exception &e) { R.inconclusive(std::string("io writer probe failed: ") + e.what()); }
  try { io_readers(); } catch (std::exception &e) { R.inconclusive(std::string("io reader probe failed: ") + e.what()); }
  for (auto &o : g_io) {
    std::string base = "io/" + o.module + "/" + o.quantity;
    nt(base);
    R.eval("io/factor-vs-declared-unit");
    J w; w.s("module", o.module).s("quantity", o.quantity).d("observed_factor", o.observed).s("note", o.note).s("file", o.file);
    // the key carries the size of the disagreement (4 significant digits), so that a recorded finding does not cover a
    // different disagreement of the same module and quantity
    char rb[40];
    snprintf(rb, sizeof rb, "/ratio=%.4g", o.observed / o.declared);
    if (!agree4(o.observed, o.declared))
      R.violation(base + "-vs-declared-unit" + rb, "factor applied by the I/O module differs from UnitConverter between csg's unit and the unit the module declares",
                  J().s("module", o.module).s("quantity", o.quantity).d("observed_factor", o.observed).d("factor_from_declared_unit", o.declared).d("ratio", o.observed / o.declared).s("note", o.note).s("file", o.file));
    if (!std::isnan(o.convention)) {
      R.eval("io/factor-vs-format-convention");
      if (!agree4(o.observed, o.convention))
        R.violation(base + "-vs-format-convention", "factor applied by the I/O module differs from the format's unit convention",
                    J().s("module", o.module).s("quantity", o.quantity).d("observed_factor", o.observed).d("factor_from_convention", o.convention).d("ratio", o.observed / o.convention).s("note", o.note).s("file", o.file));
    }
    if (R.want_sample() && o.module == "gro-reader") R.sample(w);
  }
  R.counter("io_module_factors_observed", (long long)g_io.size());

  elements();
  R.summary();
  return 0;
}
