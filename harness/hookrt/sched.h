// Controlled scheduler + online monitors over the VOTCA_VERIF hook events
// (DESIGN.md §2.2 "sched"). Linked into in-process harnesses. Real code, real
// threads; only the thread holding the baton runs between two hook events.
#ifndef VF_SCHED_H
#define VF_SCHED_H
#include <cstdint>
#include <string>
#include <vector>

namespace vfsched {

struct Event { int slot; int kind; long arg; };

enum Strategy { UNIFORM = 0, PCT = 1, RUN_TO_BLOCK = 2, STARVE_ONE = 3, DFS_REPLAY = 4 };

struct Config {
  uint64_t seed = 1;
  int strategy = UNIFORM;
  int pct_depth = 2;             // number of priority change points (PCT)
  int starve_slot = 1;           // STARVE_ONE: this slot runs only when nothing else can
  bool ordered = true;           // synchronised (token ring) mode expected
  std::vector<long> expect_frames;  // steps of the selected frames in file order
  bool expect_error = false;     // run expected to throw before threads start
  // DFS_REPLAY: index (into the sorted enabled list) to take at the k-th decision with >1 enabled thread; after the
  // prefix is used up index 0 is taken. Used for systematic (stateless depth-first) enumeration of all interleavings.
  std::vector<int> prefix;
  // preemption bound for DFS_REPLAY (<0: none): a decision that switches away from a still-enabled running thread costs 1
  int preemption_bound = -1;
};

struct Result {
  std::vector<Event> trace;
  std::vector<int> decisions;          // chosen slot at every decision with >1 enabled
  std::vector<int> choice_index;       // DFS: index taken at every such decision
  std::vector<int> choice_count;       // DFS: number of admissible alternatives at that decision
  uint64_t interleaving_hash = 0;
  int max_enabled = 0;                 // max number of enabled threads at a decision
  int threads = 0;
  long decisions_multi = 0;
  std::vector<std::string> violations; // "key|detail"
  std::vector<long> taken;             // FRAME_TAKEN steps in order
  std::vector<long> merged;            // frame steps in MERGE order (ordered mode)
  bool deadlock = false;
};

// arm: the calling thread becomes slot 0 and holds the baton
void begin(const Config &cfg);
// disarm: returns what was observed; final monitors are evaluated here
Result end();
// text rendering of a trace for witnesses
std::string render(const Result &r, size_t maxev = 400);
const char *kind_name(int k);

}  // namespace vfsched
#endif
