// Controlled scheduler: see sched.h. Implements the strong definition of
// votca_verif_event that the VOTCA_VERIF hooks in /repo call.
#include "sched.h"
#include "vfh.h"
#include <condition_variable>
#include <functional>
#include <map>
#include <mutex>
#include <pthread.h>
#include <sstream>
#include <votca/tools/mutex.h>
#include <votca/tools/verif_hook.h>
static_assert(sizeof(votca::tools::Mutex) == sizeof(pthread_mutex_t), "tools::Mutex is expected to hold exactly one pthread_mutex_t");

namespace vfsched {

enum SlotState { NOTSTARTED, RUNNABLE, BLOCKED_LOCK, BLOCKED_JOIN, ENDED };

struct Slot {
  int state = NOTSTARTED;
  const void *obj = nullptr;       // the tools::Thread object (workers)
  const void *wait_obj = nullptr;  // mutex / thread waited for
  long last_frame = -1;
  bool needs_eval = false, in_eval = false, has_unmerged = false;
  bool joined = false;
  double prio = 0;
};

static std::mutex G;
static std::condition_variable CV;
static std::vector<Slot> slots;
static std::map<const void *, bool> locked;
static int current = -1;
static bool armed = false;
static uint64_t epoch = 0;
static thread_local int my_slot = -1;
static thread_local uint64_t my_epoch = 0;
static Config cfg;
static Result res;
static vfh::Rng rng;
static int reader_inside = 0, merge_inside = 0;
static long steps = 0;
static std::vector<long> pct_points;
static double pct_low = 0;
static int dfs_preemptions = 0;
static std::map<long, int> evaluated;
std::function<void(const Result &)> on_deadlock;
// a monitor verdict after which the run cannot sensibly continue (the real mutex does not behave like a mutex: the next
// real lock could block the thread that holds the baton): report and leave the process
std::function<void(const Result &, const std::string &, const std::string &)> on_fatal;
static const size_t TRACE_CAP = 50000;

const char *kind_name(int k) {
  static const char *n[] = {"?", "LOCK_REQ", "LOCK_ACQ", "UNLOCK", "UNLOCK_DONE", "THREAD_CREATE", "THREAD_BEGIN", "THREAD_END", "JOIN_REQ", "JOIN_DONE", "READER_ENTER", "FRAME_TAKEN", "READER_EOF", "READER_EXIT", "EVAL_BEGIN", "EVAL_END", "MERGE_ENTER", "MERGE_EXIT", "SYNC_LOCKED", "SYNC_LOADED", "SYNC_BEFORE_WRITE", "SYNC_RELEASED", "RUN_END_EVALUATE", "SYNC_BACKUP_WRITTEN"};
  return (k >= 0 && k < (int)(sizeof(n) / sizeof(*n))) ? n[k] : "?";
}

static void viol(const std::string &key, const std::string &detail) {
  if (res.violations.size() < 20) res.violations.push_back(key + "|" + detail);
}

static bool enabled(int i) {
  const Slot &s = slots[i];
  switch (s.state) {
    case NOTSTARTED:
    case RUNNABLE: return true;
    case BLOCKED_LOCK: { auto it = locked.find(s.wait_obj); return it == locked.end() || !it->second; }
    case BLOCKED_JOIN: {
      for (auto &t : slots) if (t.obj == s.wait_obj) return t.state == ENDED;
      return true;  // unknown thread: do not block
    }
    default: return false;
  }
}

// choose the next baton holder; caller holds G. Returns -1 when nothing is enabled.
static int choose(int me) {
  std::vector<int> en;
  for (int i = 0; i < (int)slots.size(); ++i) if (enabled(i)) en.push_back(i);
  if (en.empty()) return -1;
  res.max_enabled = std::max(res.max_enabled, (int)en.size());
  int pick = en[0];
  if (en.size() > 1) {
    ++res.decisions_multi;
    switch (cfg.strategy) {
      case PCT: {
        for (long p : pct_points) if (p == steps && me >= 0) { pct_low -= 1; slots[me].prio = pct_low; }
        double best = -1e300;
        for (int i : en) if (slots[i].prio > best) { best = slots[i].prio; pick = i; }
        break;
      }
      case RUN_TO_BLOCK: {
        bool me_en = false;
        for (int i : en) if (i == me) me_en = true;
        pick = me_en ? me : en[rng.next() % en.size()];
        break;
      }
      case STARVE_ONE: {
        std::vector<int> o;
        for (int i : en) if (i != cfg.starve_slot) o.push_back(i);
        pick = o.empty() ? en[0] : o[rng.next() % o.size()];
        break;
      }
      case DFS_REPLAY: {
        // admissible alternatives: all enabled threads, or (preemption bound exhausted) only the running thread if it
        // is still enabled
        std::vector<int> adm = en;
        bool me_en = false;
        for (int i : en) if (i == me) me_en = true;
        if (cfg.preemption_bound >= 0 && dfs_preemptions >= cfg.preemption_bound && me_en) adm = {me};
        else if (me_en) {  // running thread first: index 0 = "no preemption"
          adm.clear(); adm.push_back(me);
          for (int i : en) if (i != me) adm.push_back(i);
        }
        size_t k = res.choice_index.size();
        int idx = k < cfg.prefix.size() ? cfg.prefix[k] : 0;
        if (idx >= (int)adm.size()) idx = 0;
        pick = adm[idx];
        if (me_en && pick != me) ++dfs_preemptions;
        res.choice_index.push_back(idx);
        res.choice_count.push_back((int)adm.size());
        break;
      }
      default: pick = en[rng.next() % en.size()];
    }
    res.decisions.push_back(pick);
  }
  return pick;
}

static void fatal(const std::string &key, const std::string &detail) {
  viol(key, detail);
  armed = false;
  if (on_fatal) on_fatal(res, key, detail);
  fprintf(stderr, "vfsched: %s and no handler\n", key.c_str());
  _exit(3);
}

static void deadlock_now() {
  res.deadlock = true;
  std::ostringstream o;
  for (size_t i = 0; i < slots.size(); ++i) o << "slot" << i << ":state" << slots[i].state << " ";
  viol("deadlock", "no enabled thread while some thread has not ended: " + o.str());
  armed = false;
  if (on_deadlock) on_deadlock(res);
  fprintf(stderr, "vfsched: deadlock and no handler\n");
  _exit(3);
}

// hand the baton on and wait until it comes back (caller holds lk on G)
static void yield(std::unique_lock<std::mutex> &lk, int me, bool wait_back) {
  ++steps;
  int nxt = choose(me);
  if (nxt < 0) {
    bool all_ended = true;
    for (auto &s : slots) if (s.state != ENDED) all_ended = false;
    if (all_ended) { current = -1; return; }
    deadlock_now();
  }
  current = nxt;
  if (nxt != me) CV.notify_all();
  if (wait_back) CV.wait(lk, [&] { return current == me || !armed; });
}

static void record(int slot, int kind, long arg) {
  if (res.trace.size() < TRACE_CAP) res.trace.push_back({slot, kind, arg});
  res.interleaving_hash = vfh::hmix(res.interleaving_hash, (uint64_t)slot * 64 + (uint64_t)kind);
}

static void monitors(int me, int kind, const void *, long arg) {
  Slot &s = slots[me];
  switch (kind) {
    case VV_READER_ENTER:
      if (reader_inside > 0) viol("reader/two-threads-inside", "READER_ENTER while another thread is inside the trajectory reader");
      ++reader_inside;
      break;
    case VV_READER_EXIT: --reader_inside; break;
    case VV_FRAME_TAKEN:
      if (reader_inside != 1) viol("reader/frame-taken-outside", "frame taken outside the reader section");
      if (s.needs_eval) viol("frames/taken-before-previous-evaluated", "worker took a frame before evaluating its previous one");
      s.last_frame = arg; s.needs_eval = true;
      res.taken.push_back(arg);
      break;
    case VV_EVAL_BEGIN:
      if (!s.needs_eval || s.last_frame != arg) viol("eval/frame-mismatch", "evaluation of a frame this worker did not take");
      s.in_eval = true;
      break;
    case VV_EVAL_END:
      s.in_eval = false; s.needs_eval = false; s.has_unmerged = true;
      ++evaluated[arg];
      break;
    case VV_MERGE_ENTER:
      if (merge_inside > 0) viol("merge/two-threads-inside", "MERGE_ENTER while another thread is inside the merge step");
      ++merge_inside;
      if (cfg.ordered) {
        // the merging worker is identified by the running thread itself
        if (!s.has_unmerged) viol("merge/without-evaluated-frame", "merge by a worker without an evaluated, unmerged frame");
        res.merged.push_back(s.last_frame);
        s.has_unmerged = false;
      }
      break;
    case VV_MERGE_EXIT: --merge_inside; break;
    case VV_RUN_END_EVALUATE:
      for (size_t i = 1; i < slots.size(); ++i)
        if (slots[i].state != ENDED || !slots[i].joined) viol("join/endevaluate-before-all-joined", "EndEvaluate reached while a worker thread is not joined");
      break;
    default: break;
  }
}

void begin(const Config &c) {
  std::unique_lock<std::mutex> lk(G);
  cfg = c;
  res = Result();
  slots.clear();
  locked.clear();
  evaluated.clear();
  reader_inside = merge_inside = 0;
  steps = 0;
  rng.reseed(c.seed * 1000003ULL + (uint64_t)c.strategy);
  ++epoch;
  Slot m;
  m.state = RUNNABLE;
  m.prio = rng.uni();
  slots.push_back(m);
  my_slot = 0;
  my_epoch = epoch;
  current = 0;
  pct_points.clear();
  pct_low = 0;
  dfs_preemptions = 0;
  if (c.strategy == PCT)
    for (int i = 0; i < c.pct_depth; ++i) pct_points.push_back(rng.range(1, 40 + 30 * (long)c.expect_frames.size()));
  armed = true;
}

Result end() {
  std::unique_lock<std::mutex> lk(G);
  armed = false;
  my_slot = -1;
  res.threads = (int)slots.size() - 1;
  // final monitors
  if (!cfg.expect_error) {
    std::vector<long> want = cfg.expect_frames, got = res.taken;
    auto vs = [](const std::vector<long> &v) { std::ostringstream o; for (long x : v) o << x << " "; return o.str(); };
    if (cfg.ordered) {
      if (got != want) viol("frames/not-each-once-in-file-order", "taken=[" + vs(got) + "] expected=[" + vs(want) + "]");
      if (res.merged != want) viol("merge/not-in-frame-order", "merged=[" + vs(res.merged) + "] expected=[" + vs(want) + "]");
    } else {
      std::vector<long> a = got, b = want;
      std::sort(a.begin(), a.end()); std::sort(b.begin(), b.end());
      if (a != b) viol("frames/set-differs", "taken=[" + vs(got) + "] expected=[" + vs(want) + "]");
      else {
        // all frames except the pre-loaded first one come from the serial reader: file order
        std::vector<long> rest;
        for (long x : got) if (want.empty() || x != want[0]) rest.push_back(x);
        for (size_t i = 1; i < rest.size(); ++i) if (rest[i] < rest[i - 1]) viol("frames/reader-order", "frames after the first not in file order: " + vs(got));
      }
    }
    for (long f : want) if (evaluated[f] != 1) { viol("eval/not-exactly-once", "frame " + std::to_string(f) + " evaluated " + std::to_string(evaluated[f]) + " times"); break; }
    for (auto &kv : evaluated) if (std::find(want.begin(), want.end(), kv.first) == want.end()) { viol("eval/unselected-frame", "frame " + std::to_string(kv.first) + " evaluated but not selected"); break; }
  }
  if (reader_inside != 0 || merge_inside != 0) viol("sections/unbalanced", "reader/merge enter and exit events do not balance");
  return res;
}

std::string render(const Result &r, size_t maxev) {
  std::ostringstream o;
  size_t n = r.trace.size(), from = n > maxev ? n - maxev : 0;
  if (from) o << "...(" << from << " earlier events) ";
  for (size_t i = from; i < n; ++i) o << "T" << r.trace[i].slot << ":" << kind_name(r.trace[i].kind) << "(" << r.trace[i].arg << ") ";
  return o.str();
}

}  // namespace vfsched

using namespace vfsched;

extern "C" void votca_verif_event(int kind, const void *obj, long arg) {
  if (!armed) return;
  std::unique_lock<std::mutex> lk(G);
  if (!armed) return;
  if (kind == VV_THREAD_BEGIN) {
    int idx = -1;
    for (int i = 0; i < (int)slots.size(); ++i) if (slots[i].obj == obj && slots[i].state == NOTSTARTED) idx = i;
    if (idx < 0) return;
    my_slot = idx;
    my_epoch = epoch;
    CV.wait(lk, [&] { return current == idx || !armed; });
    if (!armed) return;
    slots[idx].state = RUNNABLE;
    record(idx, kind, arg);
    return;
  }
  if (my_slot < 0 || my_epoch != epoch) return;  // a thread the scheduler does not know
  int me = my_slot;
  if (current != me) { viol("scheduler/baton", "event from a thread that does not hold the baton"); return; }
  record(me, kind, arg);
  monitors(me, kind, obj, arg);
  Slot &s = slots[me];
  switch (kind) {
    case VV_LOCK_REQ:
      s.state = BLOCKED_LOCK; s.wait_obj = obj;
      yield(lk, me, true);
      if (!armed) return;
      slots[me].state = RUNNABLE;
      locked[obj] = true;
      break;
    case VV_UNLOCK_DONE: {
      locked[obj] = false;
      // every other thread is parked outside Lock()/Unlock(): after Unlock() has returned the real mutex must be free
      pthread_mutex_t *m = reinterpret_cast<pthread_mutex_t *>(const_cast<void *>(obj));
      if (pthread_mutex_trylock(m) != 0)
        fatal("mutex/still-held-after-unlock", "tools::Mutex::Unlock() returned but the underlying mutex is still locked");
      pthread_mutex_unlock(m);
      yield(lk, me, true);
      break;
    }
    case VV_THREAD_CREATE: {
      Slot n;
      n.state = NOTSTARTED; n.obj = obj; n.prio = rng.uni();
      slots.push_back(n);
      break;
    }
    case VV_THREAD_END:
      s.state = ENDED;
      yield(lk, me, false);
      my_slot = -1;
      break;
    case VV_JOIN_REQ:
      s.state = BLOCKED_JOIN; s.wait_obj = obj;
      yield(lk, me, true);
      if (!armed) return;
      slots[me].state = RUNNABLE;
      break;
    case VV_JOIN_DONE:
      for (auto &t : slots) if (t.obj == obj) t.joined = true;
      break;
    case VV_LOCK_ACQ: {
      // the scheduler admits a thread to Lock() only when its own model says the mutex is free, so the real pthread mutex
      // is never contended here: probe it instead. After Lock() has returned the real mutex must be held.
      pthread_mutex_t *m = reinterpret_cast<pthread_mutex_t *>(const_cast<void *>(obj));
      if (pthread_mutex_trylock(m) == 0) {
        pthread_mutex_unlock(m);
        fatal("mutex/not-held-after-lock", "tools::Mutex::Lock() returned but the underlying mutex is not locked");
      }
      break;
    }
    case VV_UNLOCK:
      break;
    default:
      yield(lk, me, true);
  }
}
