// "delay" hook run-time (DESIGN.md §2.2): an LD_PRELOADable definition of
// votca_verif_event for the real executables.
//  * seeded random usleep/sched_yield at hook events (schedule perturbation)
//  * optional per-thread event log (VF_EVENT_LOG) with a global sequence number
//    taken from a relaxed atomic (no lock, so the log itself adds no
//    happens-before edge that could hide a race from TSan)
//  * TSan annotations for VOTCA's token rings (a tools::Mutex locked by one
//    thread and unlocked by another): release at UNLOCK, acquire at LOCK_ACQ.
#include <atomic>
#include <cstdint>
#include <cstdio>
#include <cstdlib>
#include <cstring>
#include <fcntl.h>
#include <pthread.h>
#include <sched.h>
#include <string>
#include <unistd.h>

extern "C" void __tsan_acquire(void *) __attribute__((weak));
extern "C" void __tsan_release(void *) __attribute__((weak));

namespace {
std::atomic<long> g_seq{0};
std::atomic<int> g_tid{0};
int g_fd = -2;
uint64_t g_seed = 0;
double g_prob = 0;
long g_maxus = 0;
bool g_annot = true;
std::atomic<bool> g_init{false};

void init() {
  bool exp = false;
  static std::atomic<bool> once{false};
  if (!once.compare_exchange_strong(exp, true)) { while (!g_init.load()) sched_yield(); return; }
  const char *e;
  if ((e = getenv("VF_DELAY_SEED"))) g_seed = strtoull(e, nullptr, 10);
  if ((e = getenv("VF_DELAY_PROB"))) g_prob = atof(e);
  if ((e = getenv("VF_DELAY_MAXUS"))) g_maxus = atol(e);
  if ((e = getenv("VF_TSAN_ANNOTATE"))) g_annot = atoi(e) != 0;
  g_fd = -1;
  if ((e = getenv("VF_EVENT_LOG"))) g_fd = open(e, O_WRONLY | O_CREAT | O_APPEND, 0644);
  g_init.store(true);
}

struct TL {
  int tid;
  uint64_t s;
  std::string buf;
  TL() { tid = g_tid.fetch_add(1, std::memory_order_relaxed); s = g_seed * 0x9e3779b97f4a7c15ULL + (uint64_t)tid * 0xbf58476d1ce4e5b9ULL + 1; }
  uint64_t next() { s ^= s << 13; s ^= s >> 7; s ^= s << 17; return s; }
  void flush() { if (g_fd >= 0 && !buf.empty()) { (void)!write(g_fd, buf.data(), buf.size()); buf.clear(); } }
  ~TL() { flush(); }
};
thread_local TL tl;
struct AtExit { ~AtExit() { tl.flush(); } } g_atexit;
}  // namespace

extern "C" void votca_verif_event(int kind, const void *obj, long arg) {
  if (!g_init.load(std::memory_order_acquire)) init();
  if (g_annot) {
    if (kind == 3 /*UNLOCK*/ && __tsan_release) __tsan_release(const_cast<void *>(obj));
    if (kind == 2 /*LOCK_ACQ*/ && __tsan_acquire) __tsan_acquire(const_cast<void *>(obj));
  }
  if (kind == 2 /*LOCK_ACQ*/) {
    // after tools::Mutex::Lock() has returned the underlying mutex must be held by somebody: a successful trylock proves
    // that it is not (event kind 90 in the log; the object is the Mutex, whose only member is the pthread mutex)
    pthread_mutex_t *m = reinterpret_cast<pthread_mutex_t *>(const_cast<void *>(obj));
    if (pthread_mutex_trylock(m) == 0) {
      pthread_mutex_unlock(m);
      kind = 90;
    }
  }
  if (g_fd >= 0 && kind >= 5) {  // thread / reader / eval / merge / sync events
    long seq = g_seq.fetch_add(1, std::memory_order_relaxed);
    char line[96];
    int n = snprintf(line, sizeof line, "%ld %d %d %ld\n", seq, tl.tid, kind, arg);
    tl.buf.append(line, n);
    if (kind == 7 /*THREAD_END*/ || kind == 22 || tl.buf.size() > 60000) tl.flush();
  }
  if (g_prob > 0) {
    uint64_t r = tl.next();
    if ((r >> 11) * (1.0 / 9007199254740992.0) < g_prob) {
      if (g_maxus > 0 && (r & 3)) usleep((useconds_t)(tl.next() % (uint64_t)g_maxus)); else sched_yield();
    }
  }
}
