// C03 monitor: neighbour search (DESIGN.md §5 C03).
// Real code: NBListGrid / NBList / NBListGrid_3Body / NBList_3Body ::Generate
// (one-, two-, three-list variants) with a counting match callback that returns
// true, exclusions built by the real Topology::RebuildExclusions.
// Oracle: O(N^2)/O(N^3) brute force over an independent long-double image
// search (fractional reduction, then 125 images).
//
// Every configuration is generated from its own seed (seed, shard, index,
// family), so one configuration can be replayed with
//   c03 --seed S --shard K --first I --n 1   (pairs)
//   c03 --seed S --shard K --first3 I --n3 1 --n 0   (3-body)
#include "vfh.h"
#include <algorithm>
#include <csignal>
#include <memory>
#include <votca/csg/beadlist.h>
#include <votca/csg/interaction.h>
#include <votca/csg/nblist.h>
#include <votca/csg/nblist_3body.h>
#include <votca/csg/nblistgrid.h>
#include <votca/csg/nblistgrid_3body.h>
#include <votca/csg/topology.h>

using namespace votca::csg;
using vfh::J;
typedef long double LD;
static const double EPS = 2.220446049250313e-16;

struct V3 { LD x, y, z; };
static V3 operator+(V3 a, V3 b) { return {a.x + b.x, a.y + b.y, a.z + b.z}; }
static V3 operator-(V3 a, V3 b) { return {a.x - b.x, a.y - b.y, a.z - b.z}; }
static V3 operator*(LD s, V3 a) { return {s * a.x, s * a.y, s * a.z}; }
static LD dot(V3 a, V3 b) { return a.x * b.x + a.y * b.y + a.z * b.z; }
static V3 cross(V3 a, V3 b) { return {a.y * b.z - a.z * b.y, a.z * b.x - a.x * b.z, a.x * b.y - a.y * b.x}; }
static LD norm(V3 a) { return sqrtl(dot(a, a)); }
static V3 ld(const Eigen::Vector3d &v) { return {v.x(), v.y(), v.z()}; }
static std::vector<double> vv(const Eigen::Vector3d &a) { return {a.x(), a.y(), a.z()}; }
static std::vector<double> vv(V3 a) { return {(double)a.x, (double)a.y, (double)a.z}; }

struct Box {
  Eigen::Matrix3d m;
  int kind;  // 1 ortho 2 triclinic
  V3 a, b, c;
  LD vol, h[3], hmin;
  void derive() {
    a = ld(m.col(0)); b = ld(m.col(1)); c = ld(m.col(2));
    vol = fabsl(dot(a, cross(b, c)));
    h[0] = vol / norm(cross(b, c)); h[1] = vol / norm(cross(c, a)); h[2] = vol / norm(cross(a, b));
    hmin = std::min(h[0], std::min(h[1], h[2]));
  }
  V3 frac(V3 d) const {  // columns a=(ax,0,0) b=(bx,by,0) c=(cx,cy,cz)
    LD fz = d.z / c.z;
    LD fy = (d.y - fz * c.y) / b.y;
    LD fx = (d.x - fy * b.x - fz * c.x) / a.x;
    return {fx, fy, fz};
  }
  V3 cart(V3 f) const { return f.x * a + f.y * b + f.z * c; }
};

struct Config {
  Box B;
  double cutoff;
  int N[3];            // cells per direction as the statement's rule gives them: max(floor(h/c),1)
  std::vector<Eigen::Vector3d> pos;
  std::vector<int> type;  // 0,1,2 -> "A","B","C"
  std::vector<int> mol;   // molecule of each bead
  int nmol = 0;
  std::vector<std::vector<int>> ia;  // bonded interactions (2,3 or 4 bead ids), bead order as written (may be descending)
  std::vector<std::pair<int, int>> xpairs;  // exclusions inserted directly (Topology::InsertExclusion)
  bool do_excl = false;
  LD M = 0, band = 0;
  bool inbound = false;  // cutoff < hmin/2 (minus band)
  std::string tag;       // seed/shard/index for replay
};

enum { ST_IN = 0, ST_OUT = 1, ST_DC = 2 };
struct PairInfo { LD d; V3 v; int nties; int st; bool image; bool othercell; bool dcb; };

struct Oracle {
  int n;
  std::vector<PairInfo> P;  // i<j at i*n+j
  std::vector<char> excl;   // same molecule and share an interaction
  std::vector<char> share;  // share an interaction (any molecule)
  const PairInfo &pi(int i, int j) const { return i < j ? P[(size_t)i * n + j] : P[(size_t)j * n + i]; }
  bool isexcl(int i, int j) const { return excl[(size_t)std::min(i, j) * n + std::max(i, j)]; }
  bool shares(int i, int j) const { return share[(size_t)std::min(i, j) * n + std::max(i, j)]; }
};

static void build_oracle(const Config &C, Oracle &O) {
  int n = (int)C.pos.size();
  O.n = n;
  O.P.assign((size_t)n * n, PairInfo{0, {0, 0, 0}, 0, ST_OUT, false, false, false});
  O.excl.assign((size_t)n * n, 0);
  O.share.assign((size_t)n * n, 0);
  const Box &B = C.B;
  LD c = C.cutoff, band = C.band;
  std::vector<V3> p(n), fr(n);
  for (int i = 0; i < n; ++i) { p[i] = ld(C.pos[i]); fr[i] = B.frac(p[i]); }
  for (int i = 0; i < n; ++i)
    for (int j = i + 1; j < n; ++j) {
      PairInfo &q = O.P[(size_t)i * n + j];
      V3 d = p[j] - p[i];
      V3 f = B.frac(d);
      f = {f.x - roundl(f.x), f.y - roundl(f.y), f.z - roundl(f.z)};
      // rigorous lower bound for every image: the distance from the plane pair k
      LD lb = std::max(fabsl(f.x) * B.h[0], std::max(fabsl(f.y) * B.h[1], fabsl(f.z) * B.h[2]));
      if (lb > c + band) { q.d = lb; q.st = ST_OUT; q.nties = 0; continue; }
      V3 d0 = B.cart(f);
      LD best = 1e300L; V3 bv = d0;
      LD all[125]; int na = 0;
      for (int a = -2; a <= 2; ++a)
        for (int b = -2; b <= 2; ++b)
          for (int cc = -2; cc <= 2; ++cc) {
            V3 v = d0 + (LD)a * B.a + (LD)b * B.b + (LD)cc * B.c;
            LD nn = norm(v);
            all[na++] = nn;
            if (nn < best) { best = nn; bv = v; }
          }
      int nt = 0;
      for (int k = 0; k < na; ++k) if (all[k] <= best + band) nt++;
      q.d = best; q.v = bv; q.nties = nt;
      q.st = best < c - band ? ST_IN : (best > c + band ? ST_OUT : ST_DC);
      // beyond the stated bound in a triclinic box the library's connection
      // vector need not be the minimum image once that is longer than hmin/2
      if (q.st == ST_IN && B.kind == 2 && !C.inbound && best >= B.hmin / 2 - band) { q.st = ST_DC; q.dcb = true; }
      q.image = norm(d - bv) > band;
      int ci[3], cj[3];
      LD fi[3] = {fr[i].x, fr[i].y, fr[i].z}, fj[3] = {fr[j].x, fr[j].y, fr[j].z};
      q.othercell = false;
      for (int k = 0; k < 3; ++k) {
        LD a = fi[k] - floorl(fi[k]), b = fj[k] - floorl(fj[k]);
        ci[k] = (int)floorl(a * C.N[k]) % C.N[k]; cj[k] = (int)floorl(b * C.N[k]) % C.N[k];
        if (ci[k] != cj[k]) q.othercell = true;
      }
    }
  for (auto &xp : C.xpairs) {
    int i = std::min(xp.first, xp.second), j = std::max(xp.first, xp.second);
    if (i != j && C.mol[i] == C.mol[j]) O.excl[(size_t)i * n + j] = 1;  // IsExcluded looks inside one molecule only
  }
  for (auto &l : C.ia)
    for (size_t a = 0; a < l.size(); ++a)
      for (size_t b = a + 1; b < l.size(); ++b) {
        int i = std::min(l[a], l[b]), j = std::max(l[a], l[b]);
        if (i == j) continue;
        O.share[(size_t)i * n + j] = 1;
        if (C.mol[i] == C.mol[j]) O.excl[(size_t)i * n + j] = 1;
      }
}

// ------------------------------------------------------------------ generator
static int pickN(vfh::Rng &r, bool small) {
  int c = (int)r.range(0, 99);
  if (c < 6) return 1;   // beyond the stated bound
  if (c < 30) return 2;
  if (c < 50) return 3;
  if (c < 75) return (int)r.range(4, 6);
  return small ? (int)r.range(4, 8) : (int)r.range(7, 20);
}

static void gen_config(vfh::Rng &r, Config &C, int nmax, bool threebody, int fixed_n = -1) {
  C = Config();
  double c = r.logu(0.1, 2.5);
  C.cutoff = c;
  Box &B = C.B;
  B.kind = r.coin() ? 1 : 2;
  B.m.setZero();
  double l[3];
  for (int k = 0; k < 3; ++k) {
    int Nk = pickN(r, threebody);
    int fm = (int)r.range(0, 9);
    double fr = fm == 0 ? 0.0 : fm == 1 ? 1e-9 : fm == 2 ? 0.999999 : r.uni();
    if (Nk == 1) fr = r.uni(0.0, 0.98);
    l[k] = c * (Nk + fr);
  }
  B.m(0, 0) = l[0]; B.m(1, 1) = l[1]; B.m(2, 2) = l[2];
  if (B.kind == 2) {
    auto tilt = [&](double lim) {
      int cc = (int)r.range(0, 9);
      if (cc == 0) return 0.5 * lim;
      if (cc == 1) return -0.5 * lim;
      if (cc == 2) return 0.0;
      return r.uni(-0.5, 0.5) * lim;
    };
    B.m(0, 1) = tilt(l[0]); B.m(0, 2) = tilt(l[0]); B.m(1, 2) = tilt(l[1]);
    if (B.m(0, 1) == 0 && B.m(0, 2) == 0 && B.m(1, 2) == 0) B.m(0, 1) = 0.25 * l[0];
  }
  B.derive();
  for (int k = 0; k < 3; ++k) C.N[k] = (int)std::max((LD)1.0, floorl(B.h[k] / (LD)c));

  // number of beads: 0, 1, 2 and then up to nmax, denser systems for small boxes
  int n;
  {
    int cc = (int)r.range(0, 19);
    if (cc == 0) n = (int)r.range(0, 2);
    else if (cc < 8) n = (int)r.range(3, std::max(3, nmax / 6));
    else if (cc < 16) n = (int)r.range(nmax / 6, std::max(nmax / 6, nmax / 2));
    else n = (int)r.range(nmax / 2, nmax);
    if (fixed_n >= 0) n = fixed_n;
  }
  int imgmode = (int)r.range(0, 9);
  long Rimg = imgmode <= 3 ? 0 : imgmode <= 5 ? 1 : imgmode == 6 ? 3 : imgmode == 7 ? 100 : imgmode == 8 ? 10000 : 1;
  double pclust = r.coin(0.5) ? r.uni(0.2, 0.9) : 0.0;
  double pbound = r.coin(0.4) ? r.uni(0.05, 0.5) : 0.0;
  C.pos.clear();
  for (int i = 0; i < n; ++i) {
    Eigen::Vector3d p;
    if (i > 0 && r.coin(pclust)) {
      // clustered: near an existing bead, many of them right around the cutoff
      const Eigen::Vector3d &q = C.pos[(size_t)r.range(0, i - 1)];
      Eigen::Vector3d dir(r.normal(), r.normal(), r.normal());
      if (dir.norm() == 0) dir = Eigen::Vector3d(1, 0, 0);
      dir.normalize();
      int dm = (int)r.range(0, 9);
      double dist = dm == 0 ? c * (1 - 1e-6) : dm == 1 ? c * (1 + 1e-6) : dm == 2 ? c * (1 - 1e-12) : dm == 3 ? c * (1 + 1e-12)
                  : dm == 4 ? c * r.uni(0.9, 1.1) : c * r.uni(0.0, 1.2);
      p = q + dir * dist;
    } else {
      Eigen::Vector3d f;
      for (int k = 0; k < 3; ++k) {
        if (r.coin(pbound)) {
          int cc = (int)r.range(0, 3);
          if (cc == 0) f[k] = 0.0;
          else if (cc == 1) f[k] = 1.0;
          else f[k] = (double)r.range(0, C.N[k]) / (double)C.N[k];  // exactly on a grid-cell boundary
        } else f[k] = r.uni();
      }
      p = B.m * f;
    }
    if (Rimg && r.coin(0.7)) {
      Eigen::Vector3d nn((double)r.range(-Rimg, Rimg), (double)r.range(-Rimg, Rimg), (double)r.range(-Rimg, Rimg));
      p += B.m * nn;
    }
    C.pos.push_back(p);
  }
  // types
  C.type.resize(n);
  int ntypes = threebody ? 3 : 2;
  double pA = r.uni(0.2, 0.8);
  for (int i = 0; i < n; ++i) {
    if (r.coin(pA)) C.type[i] = 0;
    else C.type[i] = (int)r.range(1, ntypes - 1);
  }
  // molecules: random assignment so that bead-id order and molecule order are unrelated
  C.mol.assign(n, 0);
  C.nmol = std::max(1, n ? (int)r.range(1, std::max(1, n / (int)r.range(1, 6))) : 1);
  bool consecutive = r.coin();
  for (int i = 0; i < n; ++i) C.mol[i] = consecutive ? (int)((long)i * C.nmol / std::max(1, n)) : (int)r.range(0, C.nmol - 1);
  // bonded interactions
  bool with_ia = r.coin(0.6);
  if (threebody) with_ia = false;
  if (with_ia && n >= 2) {
    std::vector<std::vector<int>> members(C.nmol);
    for (int i = 0; i < n; ++i) members[C.mol[i]].push_back(i);
    int nia = (int)r.range(1, std::max(1, n));
    for (int t = 0; t < nia; ++t) {
      int sz = (int)r.range(2, 4);
      std::vector<int> l;
      if (r.coin(0.1)) {  // hostile: beads of different molecules in one interaction
        for (int k = 0; k < sz; ++k) l.push_back((int)r.range(0, n - 1));
      } else {
        auto &mm = members[(size_t)r.range(0, C.nmol - 1)];
        if ((int)mm.size() < 2) continue;
        for (int k = 0; k < sz; ++k) l.push_back(mm[(size_t)r.range(0, (long)mm.size() - 1)]);
      }
      // distinct beads inside one interaction
      bool ok = true;
      for (size_t a = 0; a < l.size(); ++a) for (size_t b = a + 1; b < l.size(); ++b) if (l[a] == l[b]) ok = false;
      if (ok) C.ia.push_back(l);
    }
  }
  C.do_excl = threebody ? (r.coin(0.3)) : r.coin(0.6);
  if (with_ia && n >= 3) {
    // rings: chain bonds plus the closing bond written with the higher id first ("C6 C1"), and
    // angles/dihedrals written backwards; own generator so that the other draws stay as they were
    vfh::Rng q(vfh::hdouble(vfh::hmix(0x51c6, (uint64_t)n), c));
    std::vector<std::vector<int>> members(C.nmol);
    for (int i = 0; i < n; ++i) members[C.mol[i]].push_back(i);
    for (auto &mm : members) {
      if (mm.size() < 3 || !q.coin(0.3)) continue;
      size_t len = (size_t)q.range(3, (long)std::min<size_t>(mm.size(), 8));
      for (size_t k = 0; k + 1 < len; ++k) C.ia.push_back(q.coin() ? std::vector<int>{mm[k], mm[k + 1]} : std::vector<int>{mm[k + 1], mm[k]});
      C.ia.push_back({mm[len - 1], mm[0]});
      if (q.coin()) C.ia.push_back({mm[2], mm[1], mm[0]});
      if (len >= 4 && q.coin()) C.ia.push_back({mm[3], mm[2], mm[1], mm[0]});
    }
  }
  LD M = B.m.cwiseAbs().maxCoeff();
  for (auto &p : C.pos) M = std::max(M, (LD)p.cwiseAbs().maxCoeff());
  C.M = M + (LD)B.m.cwiseAbs().maxCoeff();
  C.band = 1e-9L * c + 1e3L * EPS * C.M;
  C.inbound = (LD)c < B.hmin / 2 - 2 * C.band;
}

static void add_ia(const Config &C, Topology &top, const std::vector<int> &l, int idx) {
  Interaction *ic = nullptr;
  if (l.size() == 2) ic = new IBond(l[0], l[1]);
  else if (l.size() == 3) ic = new IAngle(l[0], l[1], l[2]);
  else ic = new IDihedral(l[0], l[1], l[2], l[3]);
  ic->setGroup(l.size() == 2 ? "bond" : l.size() == 3 ? "angle" : "dih");
  ic->setIndex(idx);
  ic->setMolecule(C.mol[l[0]]);
  top.AddBondedInteraction(ic);
  top.getMolecule(C.mol[l[0]])->AddInteraction(ic);
}

static void build_topology(const Config &C, Topology &top) {
  static const char *tn[3] = {"A", "B", "C"};
  top.setBox(C.B.m);
  for (int t = 0; t < 3; ++t) top.RegisterBeadType(tn[t]);
  top.CreateResidue("RES");
  std::vector<Molecule *> mols;
  for (int m = 0; m < C.nmol; ++m) mols.push_back(top.CreateMolecule("M" + std::to_string(m)));
  for (size_t i = 0; i < C.pos.size(); ++i) {
    Bead *b = top.CreateBead(Bead::spherical, "b" + std::to_string(i), tn[C.type[i]], 0, 1.0, 0.0);
    b->setPos(C.pos[i]);
    mols[C.mol[i]]->AddBead(b, "b" + std::to_string(i));
  }
  int idx = 0;
  for (auto &l : C.ia) add_ia(C, top, l, idx++);
  top.RebuildExclusions();
}

// derived quantities of a configuration (after its box, cutoff or positions changed)
static void finalize(Config &C) {
  C.B.derive();
  for (int k = 0; k < 3; ++k) C.N[k] = (int)std::max((LD)1.0, floorl(C.B.h[k] / (LD)C.cutoff));
  LD M = C.B.m.cwiseAbs().maxCoeff();
  for (auto &p : C.pos) M = std::max(M, (LD)p.cwiseAbs().maxCoeff());
  C.M = M + (LD)C.B.m.cwiseAbs().maxCoeff();
  C.band = 1e-9L * C.cutoff + 1e3L * EPS * C.M;
  C.inbound = (LD)C.cutoff < C.B.hmin / 2 - 2 * C.band;
}

static J config_json(const Config &C) {
  J j;
  std::vector<double> bm;
  for (int i = 0; i < 3; ++i) for (int k = 0; k < 3; ++k) bm.push_back(C.B.m(i, k));
  j.s("replay", C.tag).i("box_kind", C.B.kind).vec("box_rowmajor", bm).d("cutoff", C.cutoff).d("hmin", (double)C.B.hmin);
  j.vec("cells", std::vector<int>{C.N[0], C.N[1], C.N[2]}).b("do_exclusions", C.do_excl).i("nbeads", (long long)C.pos.size());
  std::string ps = "[";
  for (size_t i = 0; i < C.pos.size(); ++i) {
    std::ostringstream o; o << std::setprecision(17);
    o << (i ? "," : "") << "[" << C.pos[i].x() << "," << C.pos[i].y() << "," << C.pos[i].z() << "]";
    ps += o.str();
  }
  j.raw("pos", ps + "]");
  j.vec("type", C.type).vec("mol", C.mol);
  std::string is = "[";
  for (size_t i = 0; i < C.ia.size(); ++i) {
    is += (i ? ",[" : "[");
    for (size_t k = 0; k < C.ia[i].size(); ++k) is += (k ? "," : "") + std::to_string(C.ia[i][k]);
    is += "]";
  }
  j.raw("interactions", is + "]");
  std::vector<int> xp;
  for (auto &q : C.xpairs) { xp.push_back(q.first); xp.push_back(q.second); }
  if (!xp.empty()) j.vec("inserted_exclusion_pairs_flat", xp);
  return j;
}

// ------------------------------------------------------------------ callbacks
struct Delivery { int a, b; Eigen::Vector3d r; double d; const Bead *pa, *pb; };
static std::vector<Delivery> g_del;
static bool pair_cb(Bead *a, Bead *b, const Eigen::Vector3d &r, double d) {
  g_del.push_back({(int)a->getId(), (int)b->getId(), r, d, a, b});
  return true;
}
struct Delivery3 { int a, b, c; const Bead *pa, *pb, *pc; };
static std::vector<Delivery3> g_del3;
static bool triple_cb(Bead *a, Bead *b, Bead *c, const Eigen::Vector3d &, const Eigen::Vector3d &, const Eigen::Vector3d &,
                      const double, const double, const double) {
  g_del3.push_back({(int)a->getId(), (int)b->getId(), (int)c->getId(), a, b, c});
  return true;
}

static uint64_t upair(int a, int b) { return ((uint64_t)std::min(a, b) << 32) | (uint64_t)std::max(a, b); }

// compare a connection vector a->b reported by the library with the oracle
static const char *check_vec(const Config &C, const Oracle &O, int a, int b, const Eigen::Vector3d &r, double d) {
  const PairInfo &q = O.pi(a, b);
  if (q.nties == 0 || q.st == ST_OUT) return nullptr;  // beyond the cutoff: reported separately as spurious
  LD tol = 64 * EPS * C.M;
  V3 e = a < b ? q.v : (LD)-1 * q.v;
  V3 rr = ld(r);
  if (!(std::fabs(d - r.norm()) <= 8 * EPS * std::max(d, 1e-300))) return "dist-differs-from-norm-of-r";
  if (q.nties == 1 && (C.inbound || C.B.kind == 1 || q.d < C.B.hmin / 2 - C.band)) {
    if (!(norm(rr - e) <= tol)) return "connection-vector";
  } else {
    // tie or beyond the bound: lattice congruence and length only
    V3 f = C.B.frac(rr - e);
    LD dev = std::max(fabsl(f.x - roundl(f.x)), std::max(fabsl(f.y - roundl(f.y)), fabsl(f.z - roundl(f.z))));
    LD minedge = std::min((LD)C.B.m(0, 0), std::min((LD)C.B.m(1, 1), (LD)C.B.m(2, 2)));
    if (!(dev <= 1e3 * EPS * (C.M / minedge + 1) * 4)) return "connection-vector-not-congruent";
    if (C.B.kind == 1 && !(fabsl(norm(rr) - q.d) <= tol + C.band)) return "connection-vector-not-shortest";
  }
  return nullptr;
}

struct PairResult { std::set<uint64_t> stored; };

// fresh: the object's stored list was empty before this call, so it is judged
// as the result of the call; otherwise (reuse without Cleanup, the library
// accumulates) only "every delivered pair can be found in the list" is judged.
template <class NB>
static void run_pairs_on(NB &nb, bool fresh, const char *fam, const Config &C, const Oracle &O, Topology &top, bool twolist,
                         BeadList &l1, BeadList &l2, const std::string &sel1, vfh::Reporter &R, PairResult &out, bool &nontrivial) {
  int n = (int)C.pos.size();
  std::vector<char> in1(n, 0), in2(n, 0);
  for (auto *b : l1) in1[b->getId()] = 1;
  if (twolist) for (auto *b : l2) in2[b->getId()] = 1;
  nb.setCutoff(C.cutoff);
  nb.SetMatchFunction(&pair_cb);
  g_del.clear();
  if (twolist) nb.Generate(l1, l2, C.do_excl);
  else nb.Generate(l1, C.do_excl);
  R.eval(fam);
  R.counter("callback_deliveries", (long long)g_del.size());
  std::string F(fam);
  auto wit = [&](int a, int b) {
    J w = config_json(C);
    w.s("variant", F).s("list1", sel1).s("list2", twolist ? "B" : "(same)");
    if (a >= 0) {
      const PairInfo &q = O.pi(a, b);
      w.vec("pair", std::vector<int>{a, b}).d("oracle_min_image_dist", (double)q.d).vec("oracle_vec_lo_to_hi", vv(q.v)).i("oracle_status", q.st);
      w.b("oracle_excluded", O.isexcl(a, b));
    }
    return w;
  };
  std::map<uint64_t, int> cnt;
  for (auto &dl : g_del) {
    if (dl.a >= n || dl.b >= n || top.getBead(dl.a) != dl.pa || top.getBead(dl.b) != dl.pb) {
      R.violation(F + "/stale-bead-delivered", "a delivered bead does not belong to the topology of this call (left over from an earlier Generate)", wit(-1, -1));
      continue;
    }
    if (dl.a == dl.b) { R.violation(F + "/self-pair-delivered", "a bead was paired with itself", wit(dl.a, dl.b)); continue; }
    bool member = twolist ? (in1[dl.a] && in2[dl.b]) : (in1[dl.a] && in1[dl.b]);
    if (!member) { R.violation(F + "/pair-outside-lists", "delivered pair is not (list1,list2)", wit(dl.a, dl.b)); continue; }
    cnt[upair(dl.a, dl.b)]++;
    if (const char *e = check_vec(C, O, dl.a, dl.b, dl.r, dl.d))
      R.violation(F + "/callback-" + e, "r/dist handed to the match callback disagree with the minimum image first->second",
                  wit(dl.a, dl.b).vec("got_r", vv(dl.r)).d("got_dist", dl.d));
  }
  long long n_in = 0, n_dc = 0, n_ex = 0, n_dcb = 0;
  for (int i = 0; i < n; ++i)
    for (int j = i + 1; j < n; ++j) {
      bool cand = twolist ? ((in1[i] && in2[j]) || (in1[j] && in2[i])) : (in1[i] && in1[j]);
      if (!cand) continue;
      const PairInfo &q = O.pi(i, j);
      auto it = cnt.find(upair(i, j));
      int k = it == cnt.end() ? 0 : it->second;
      if (C.do_excl && O.isexcl(i, j)) {
        if (q.st != ST_OUT) n_ex++;
        if (k > 0) R.violation(F + "/excluded-pair-delivered", "pair shares a bonded interaction inside one molecule but was delivered", wit(i, j).i("deliveries", k));
        continue;
      }
      if (q.st == ST_IN) {
        n_in++;
        if (k == 0) {
          R.violation(F + "/pair-missed", "pair within the cutoff (minimum image), not excluded, was not delivered",
                      wit(i, j).b("shares_interaction_across_molecules", C.do_excl && O.shares(i, j)));
        } else if (k > 1)
          R.violation(F + "/pair-delivered-twice", "pair delivered to the match callback more than once", wit(i, j).i("deliveries", k));
        else {
          if (q.image) { R.counter("pairs_found_through_periodic_image"); nontrivial = true; }
          if (q.othercell) { R.counter("pairs_found_in_neighbouring_cell"); nontrivial = true; }
        }
      } else if (q.st == ST_OUT) {
        if (k > 0) R.violation(F + "/pair-beyond-cutoff-delivered", "pair farther than the cutoff was delivered", wit(i, j).i("deliveries", k));
      } else {
        n_dc++;
        if (q.dcb) n_dcb++;
        if (k > 1) R.violation(F + "/pair-delivered-twice", "pair delivered to the match callback more than once", wit(i, j).i("deliveries", k));
      }
    }
  R.counter("pairs_expected_within_cutoff", n_in);
  R.counter("dontcare_pairs_in_cutoff_band", n_dc - n_dcb);
  R.counter("dontcare_pairs_triclinic_beyond_half_height", n_dcb);
  R.counter("pairs_suppressed_by_exclusion", n_ex);
  // stored list
  out.stored.clear();
  if (!fresh) {
    // reuse without Cleanup(): the unchanged library accumulates the pairs of all calls (observation)
    R.counter("reuse_calls_on_non_empty_stored_list_observed_only");
    for (auto &kv : cnt) {
      int a = (int)(kv.first >> 32), b = (int)(kv.first & 0xffffffffu);
      if (!nb.FindPair(top.getBead(a), top.getBead(b)))
        R.violation(F + "/delivered-pair-not-in-stored-list", "callback returned true but FindPair does not know the pair after the call", wit(a, b));
    }
    return;
  }
  for (auto *p : nb) {
    int a = (int)p->first()->getId(), b = (int)p->second()->getId();
    if (!out.stored.insert(upair(a, b)).second) R.violation(F + "/stored-duplicate", "pair stored twice", wit(a, b));
    if (a != b && a < n && b < n)
      if (const char *e = check_vec(C, O, a, b, p->r(), p->dist()))
        R.violation(F + "/stored-" + e, "stored r()/dist() disagree with the minimum image first->second", wit(a, b).vec("got_r", vv(p->r())).d("got_dist", p->dist()));
  }
  std::set<uint64_t> delivered;
  for (auto &kv : cnt) delivered.insert(kv.first);
  if (delivered != out.stored) {
    J w = wit(-1, -1);
    w.i("delivered_distinct", (long long)delivered.size()).i("stored", (long long)out.stored.size());
    R.violation(F + "/stored-differs-from-delivered", "stored pair list is not the set of delivered pairs (callback returns true)", w);
  }
  if ((long long)nb.size() != (long long)out.stored.size()) R.violation(F + "/stored-duplicate", "size() differs from the number of distinct pairs", wit(-1, -1));
  if (R.want_sample() && n_in > 0 && n <= 12) {
    J w = wit(-1, -1);
    w.i("expected_pairs", n_in).i("delivered", (long long)g_del.size()).i("stored", (long long)nb.size());
    R.sample(w);
  }
}

template <class NB>
static void run_pairs(const char *fam, const Config &C, const Oracle &O, Topology &top, bool twolist, const std::string &sel1,
                      vfh::Reporter &R, PairResult &out, bool &nontrivial) {
  BeadList l1, l2;
  l1.Generate(top, sel1);
  if (twolist) l2.Generate(top, "B");
  NB nb;
  run_pairs_on(nb, true, fam, C, O, top, twolist, l1, l2, sel1, R, out, nontrivial);
}

static void compare_grid_simple(const char *what, const Config &C, const Oracle &O, const std::set<uint64_t> &g, const std::set<uint64_t> &s,
                                vfh::Reporter &R) {
  std::vector<uint64_t> diff;
  std::set_symmetric_difference(g.begin(), g.end(), s.begin(), s.end(), std::back_inserter(diff));
  for (uint64_t u : diff) {
    int i = (int)(u >> 32), j = (int)(u & 0xffffffffu);
    if (i == j || j >= O.n) continue;
    if (O.pi(i, j).st == ST_DC) continue;
    J w = config_json(C);
    w.vec("pair", std::vector<int>{i, j}).b("in_grid", g.count(u) > 0).b("in_simple", s.count(u) > 0).d("oracle_min_image_dist", (double)O.pi(i, j).d);
    R.violation(std::string(what) + "/grid-differs-from-simple", "grid and simple search disagree on a pair outside the don't-care band", w);
    break;
  }
}

// ------------------------------------------------------------------ 3-body
struct T3 { int i, j, k; bool operator<(const T3 &o) const { return std::tie(i, j, k) < std::tie(o.i, o.j, o.k); } };
static T3 canon(int i, int j, int k) { return {i, std::min(j, k), std::max(j, k)}; }

// fresh: see run_pairs_on. Not fresh: the set of triples delivered to the
// callback during this call (multiplicity ignored) is judged instead of the
// accumulated stored list.
template <class NB>
static void run_triples_on(NB &nb, bool fresh, const char *fam, int nlists, const Config &C, const Oracle &O, Topology &top,
                           BeadList &l1, BeadList &l2, BeadList &l3, const std::string &sel1, vfh::Reporter &R, std::set<T3> &stored,
                           bool &nontrivial) {
  int n = (int)C.pos.size();
  std::vector<char> in1(n, 0), in2(n, 0), in3(n, 0);
  for (auto *b : l1) in1[b->getId()] = 1;
  if (nlists == 1) { in2 = in1; in3 = in1; }
  if (nlists >= 2) { for (auto *b : l2) in2[b->getId()] = 1; in3 = in2; }
  if (nlists >= 3) { in3.assign(n, 0); for (auto *b : l3) in3[b->getId()] = 1; }
  nb.setCutoff(C.cutoff);
  nb.SetMatchFunction(&triple_cb);
  g_del3.clear();
  if (nlists == 1) nb.Generate(l1, C.do_excl);
  else if (nlists == 2) nb.Generate(l1, l2, C.do_excl);
  else nb.Generate(l1, l2, l3, C.do_excl);
  R.eval(fam);
  std::string F(fam);
  R.counter("triple_callback_deliveries", (long long)g_del3.size());
  {
    // observation only (DESIGN.md: callback multiplicity is judged for pairs)
    std::map<T3, int> mult;
    for (auto &d : g_del3) ++mult[canon(d.a, d.b, d.c)];
    long long multi = 0;
    for (auto &kv : mult) if (kv.second > 1) ++multi;
    R.counter("triples_delivered_to_callback_more_than_once_observed_only", multi);
  }
  auto wit = [&](int i, int j, int k) {
    J w = config_json(C);
    w.s("variant", F).s("list1", sel1).i("nlists", nlists);
    if (i >= 0) {
      w.vec("triple_centre_j_k", std::vector<int>{i, j, k});
      if (i != j && i != k) w.d("oracle_d_ij", (double)O.pi(i, j).d).d("oracle_d_ik", (double)O.pi(i, k).d).i("st_ij", O.pi(i, j).st).i("st_ik", O.pi(i, k).st);
    }
    return w;
  };
  stored.clear();
  LD tol = 64 * EPS * C.M;
  bool stale = false;
  for (auto &d : g_del3)
    if (d.a >= n || d.b >= n || d.c >= n || top.getBead(d.a) != d.pa || top.getBead(d.b) != d.pb || top.getBead(d.c) != d.pc) stale = true;
  if (stale) R.violation(F + "/stale-bead-delivered", "a delivered bead does not belong to the topology of this call (left over from an earlier Generate)", wit(-1, -1, -1));
  if (!fresh) {
    R.counter("reuse_calls_on_non_empty_stored_list_observed_only");
    for (auto &d : g_del3) {
      if (d.a >= n || d.b >= n || d.c >= n || top.getBead(d.a) != d.pa || top.getBead(d.b) != d.pb || top.getBead(d.c) != d.pc) continue;
      int i = d.a, j = d.b, k = d.c;
      if (i == j || i == k || j == k) { R.violation(F + "/triple-with-repeated-bead", "a bead occurs twice in a triple", wit(i, j, k)); continue; }
      bool member = in1[i] && ((in2[j] && in3[k]) || (nlists < 3 && in2[k] && in3[j]));
      if (!member) R.violation(F + "/triple-outside-lists", "delivered triple is not (list1,{list2,list3})", wit(i, j, k));
      stored.insert(canon(i, j, k));
      if (!nb.FindTriple(top.getBead(i), top.getBead(j), top.getBead(k)))
        R.violation(F + "/delivered-triple-not-in-stored-list", "callback returned true but FindTriple does not know the triple after the call", wit(i, j, k));
    }
  }
  for (auto it = nb.begin(); fresh && it != nb.end(); ++it) {
    BeadTriple *t = *it;
    int i = (int)t->bead1()->getId(), j = (int)t->bead2()->getId(), k = (int)t->bead3()->getId();
    if (i == j || i == k || j == k) { R.violation(F + "/triple-with-repeated-bead", "a bead occurs twice in a triple", wit(i, j, k)); continue; }
    bool member = in1[i] && ((in2[j] && in3[k]) || (nlists < 3 && in2[k] && in3[j]));
    if (!member) R.violation(F + "/triple-outside-lists", "stored triple is not (list1,{list2,list3})", wit(i, j, k));
    if (!stored.insert(canon(i, j, k)).second) R.violation(F + "/stored-duplicate-triple", "triple (centre,{j,k}) stored more than once", wit(i, j, k));
    // centre distances: same rule as for pairs
    const Eigen::Vector3d r12 = t->r12(), r13 = t->r13();
    const char *e = check_vec(C, O, i, j, r12, t->dist12());
    if (!e) e = check_vec(C, O, i, k, r13, t->dist13());
    if (e) R.violation(F + "/stored-" + e, "stored r12/r13/dist12/dist13 disagree with the minimum image centre->j,k", wit(i, j, k).vec("r12", vv(r12)).vec("r13", vv(r13)).d("d12", t->dist12()).d("d13", t->dist13()));
    // r23: lattice congruence only (its length may exceed half the box height)
    V3 f = C.B.frac(ld(t->r23()) - (ld(C.pos[k]) - ld(C.pos[j])));
    LD dev = std::max(fabsl(f.x - roundl(f.x)), std::max(fabsl(f.y - roundl(f.y)), fabsl(f.z - roundl(f.z))));
    LD minedge = std::min((LD)C.B.m(0, 0), std::min((LD)C.B.m(1, 1), (LD)C.B.m(2, 2)));
    if (!(dev <= 1e3 * EPS * (C.M / minedge + 1) * 4)) R.violation(F + "/stored-r23-not-congruent", "stored r23 is not a periodic image of r_k-r_j", wit(i, j, k).vec("r23", vv(t->r23())));
    (void)tol;
  }
  long long n_in = 0, n_dc = 0;
  for (int i = 0; i < n; ++i) {
    if (!in1[i]) continue;
    for (int j = 0; j < n; ++j) {
      if (j == i) continue;
      for (int k = (nlists < 3 ? j + 1 : 0); k < n; ++k) {
        if (k == i || k == j) continue;
        bool cand = nlists < 3 ? (in2[j] && in2[k]) : (in2[j] && in3[k]);
        if (!cand) continue;
        int sj = O.pi(i, j).st, sk = O.pi(i, k).st;
        int st = (sj == ST_OUT || sk == ST_OUT) ? ST_OUT : (sj == ST_IN && sk == ST_IN) ? ST_IN : ST_DC;
        bool have = stored.count(canon(i, j, k)) > 0;
        if (st == ST_IN) {
          n_in++;
          if (!have) R.violation(F + "/triple-missed", "triple with both centre distances below the cutoff is not in the list", wit(i, j, k));
          else if (O.pi(i, j).image || O.pi(i, k).image || O.pi(i, j).othercell || O.pi(i, k).othercell) nontrivial = true;
        } else if (st == ST_OUT) {
          if (have) R.violation(F + "/triple-spurious", "stored triple has a centre distance beyond the cutoff", wit(i, j, k));
        } else n_dc++;
      }
    }
  }
  R.counter("triples_expected", n_in);
  R.counter("triples_stored", (long long)stored.size());
  R.counter("dontcare_triples_in_cutoff_band_or_beyond_bound", n_dc);
  if (R.want_sample() && n_in > 0 && n <= 8) {
    J w = wit(-1, -1, -1);
    w.i("expected_triples", n_in).i("stored", (long long)stored.size()).i("callback_deliveries", (long long)g_del3.size());
    R.sample(w);
  }
}

template <class NB>
static void run_triples(const char *fam, int nlists, const Config &C, const Oracle &O, Topology &top, const std::string &sel1,
                        vfh::Reporter &R, std::set<T3> &stored, bool &nontrivial) {
  BeadList l1, l2, l3;
  l1.Generate(top, sel1);
  if (nlists >= 2) l2.Generate(top, "B");
  if (nlists >= 3) l3.Generate(top, "C");
  NB nb;
  run_triples_on(nb, true, fam, nlists, C, O, top, l1, l2, l3, sel1, R, stored, nontrivial);
}

static void compare3(const char *what, const Config &C, const Oracle &O, const std::set<T3> &g, const std::set<T3> &s, vfh::Reporter &R) {
  std::vector<T3> diff;
  std::set_symmetric_difference(g.begin(), g.end(), s.begin(), s.end(), std::back_inserter(diff));
  for (auto &t : diff) {
    if (t.i == t.j || t.i == t.k) continue;
    if (O.pi(t.i, t.j).st == ST_DC || O.pi(t.i, t.k).st == ST_DC) continue;
    J w = config_json(C);
    w.vec("triple_centre_j_k", std::vector<int>{t.i, t.j, t.k}).b("in_grid", g.count(t) > 0).b("in_simple", s.count(t) > 0);
    R.violation(std::string(what) + "/grid-differs-from-simple", "3-body grid and simple search disagree on a triple outside the don't-care band", w);
    break;
  }
}

// ------------------------------------------------------------------ many cells per direction
// Thin elongated orthorhombic / reduced triclinic boxes with 30..600 grid cells
// in one direction (2..4 in the others), or two long directions with up to
// ~150 x 150 cells; few beads, a good share of them within one cutoff of the
// periodic faces of the long direction(s), on both sides, so that pairs
// straddle the periodic boundary. The box is constructed so that the box
// heights (not the edges) are cutoff*(N+frac).
static const int kSpecialN[] = {31, 32, 33, 63, 64, 65, 127, 128, 129, 130, 131, 255, 256, 257, 300, 511, 512, 513};

static void gen_config_many(vfh::Rng &r, Config &C, bool threebody) {
  int n = threebody ? (int)r.range(20, 60) : (int)r.range(20, 200);
  gen_config(r, C, n, threebody, n);  // types, molecules, interactions, exclusion switch
  double c = r.logu(0.1, 1.0);
  C.cutoff = c;
  Box &B = C.B;
  B.kind = r.coin() ? 1 : 2;
  B.m.setZero();
  int Nt[3];
  bool lng[3] = {false, false, false};
  bool two = r.coin(0.25);
  int k1 = (int)r.range(0, 2), k2 = (k1 + 1 + (int)r.range(0, 1)) % 3;
  for (int k = 0; k < 3; ++k) Nt[k] = (int)r.range(2, 4);
  auto drawN = [&](int hi) {
    if (r.coin(0.6)) {
      for (int t = 0; t < 50; ++t) { int v = kSpecialN[(size_t)r.range(0, (long)(sizeof kSpecialN / sizeof kSpecialN[0]) - 1)]; if (v <= hi) return v; }
    }
    return (int)r.range(30, hi);
  };
  if (two) { Nt[k1] = drawN(150); Nt[k2] = drawN(150); lng[k1] = lng[k2] = true; if (threebody) { Nt[k1] = std::min(Nt[k1], 70); Nt[k2] = std::min(Nt[k2], 70); } }
  else { Nt[k1] = drawN(600); lng[k1] = true; }
  double l[3];
  for (int k = 0; k < 3; ++k) {
    int fm = (int)r.range(0, 9);
    double fr = fm == 0 ? 0.02 : fm == 1 ? 0.98 : r.uni(0.05, 0.95);
    l[k] = c * (Nt[k] + fr);
  }
  if (B.kind == 1) { B.m(0, 0) = l[0]; B.m(1, 1) = l[1]; B.m(2, 2) = l[2]; }
  else {
    auto t = [&]() { int cc = (int)r.range(0, 5); return cc == 0 ? 1.0 : cc == 1 ? -1.0 : r.uni(-1, 1); };
    double cz = l[2];
    double cy = 0.5 * t() * std::min(l[1], l[2]);
    double by = l[1] * std::sqrt(cz * cz + cy * cy) / cz;
    double bx = 0.5 * t() * std::min(l[0], l[1]), cx = 0.5 * t() * std::min(l[0], l[2]);
    // b x c = (by cz, -bx cz, bx cy - by cx); height along a = ax by cz / |b x c|
    double bxc = std::sqrt(by * cz * by * cz + bx * cz * bx * cz + (bx * cy - by * cx) * (bx * cy - by * cx));
    double ax = l[0] * bxc / (by * cz);
    B.m(0, 0) = ax; B.m(1, 1) = by; B.m(2, 2) = cz; B.m(0, 1) = bx; B.m(0, 2) = cx; B.m(1, 2) = cy;
    if (bx == 0 && cx == 0 && cy == 0) B.m(0, 1) = 0.25 * std::min(l[0], l[1]);
  }
  B.derive();
  // beads
  C.pos.assign(n, Eigen::Vector3d::Zero());
  double pface = r.uni(0.4, 0.8);
  int nanch = (int)r.range(1, 6);
  std::vector<Eigen::Vector3d> anchors;
  for (int a = 0; a < nanch; ++a) {
    Eigen::Vector3d f(r.uni(), r.uni(), r.uni());
    for (int k = 0; k < 3; ++k) if (lng[k] && (!two || r.coin(0.7))) f[k] = 0.0;  // on the periodic face (edge, if both long directions)
    if (two && f[k1] != 0.0 && f[k2] != 0.0) f[k1] = 0.0;
    anchors.push_back(B.m * f);
  }
  long Rimg = r.coin(0.7) ? 0 : (r.coin() ? 1 : 3);
  for (int i = 0; i < n; ++i) {
    Eigen::Vector3d p;
    if (r.coin(pface)) {
      Eigen::Vector3d dir(r.normal(), r.normal(), r.normal());
      if (dir.norm() == 0) dir = Eigen::Vector3d(1, 0, 0);
      dir.normalize();
      p = anchors[(size_t)r.range(0, nanch - 1)] + dir * (c * r.uni(0.0, 0.75));
      // as it is (one side of the face lies outside the cell), or wrapped into the cell (then the partners sit at opposite ends)
      if (r.coin(0.6)) {
        V3 f = B.frac(ld(p));
        p += B.m * Eigen::Vector3d(-(double)floorl(f.x), -(double)floorl(f.y), -(double)floorl(f.z));
      }
    } else if (i > 0 && r.coin(0.4)) {
      Eigen::Vector3d dir(r.normal(), r.normal(), r.normal());
      if (dir.norm() == 0) dir = Eigen::Vector3d(1, 0, 0);
      dir.normalize();
      int dm = (int)r.range(0, 5);
      double dist = dm == 0 ? c * (1 - 1e-6) : dm == 1 ? c * (1 + 1e-6) : c * r.uni(0.0, 1.2);
      p = C.pos[(size_t)r.range(0, i - 1)] + dir * dist;
    } else {
      Eigen::Vector3d f(r.uni(), r.uni(), r.uni());
      for (int k = 0; k < 3; ++k) if (lng[k] && r.coin(0.3)) f[k] = r.coin() ? r.uni(0, 1.0 / Nt[k]) : 1 - r.uni(0, 1.0 / Nt[k]);  // first / last cell
      p = B.m * f;
    }
    if (Rimg && r.coin(0.5)) p += B.m * Eigen::Vector3d((double)r.range(-Rimg, Rimg), (double)r.range(-Rimg, Rimg), (double)r.range(-Rimg, Rimg));
    C.pos[(size_t)i] = p;
  }
  finalize(C);
}

// ------------------------------------------------------------------ reuse families
// One search object is used for several Generate() calls in sequence: other
// positions / box (incl. orthorhombic <-> triclinic on the same Topology
// object) / cutoff (setCutoff between calls) / bead lists / exclusion switch,
// another Topology object in between, the ExclusionList rebuilt after an
// interaction was added, exclusions inserted directly with descending ids, one
// BeadList filled by two Generate() calls. What the unchanged library does
// with the stored list: Generate() never clears it (pairs of all calls
// accumulate, FindPair/FindTriple keep the first entry) - so the deliveries of
// the call are judged always and the stored list only after an explicit
// Cleanup().
static uint64_t cfg_hash(const Config &C);
struct Slot { Config C; std::unique_ptr<Topology> top; };

static void mutate_slot(vfh::Rng &r, Slot &S, int nmax, bool threebody, vfh::Reporter &R, int action) {
  Config &C = S.C;
  int n = (int)C.pos.size();
  if (action <= 4) {  // new geometry on the same Topology object
    Config D;
    gen_config(r, D, nmax, threebody, n);
    int oldkind = C.B.kind;
    C.B = D.B; C.cutoff = D.cutoff; C.pos = D.pos;
    for (int k = 0; k < 3; ++k) C.N[k] = D.N[k];
    finalize(C);
    S.top->setBox(C.B.m);
    for (int i = 0; i < n; ++i) S.top->getBead(i)->setPos(C.pos[i]);
    R.counter(std::string("reuse_box_kind_") + (oldkind == 1 ? "ortho" : "tric") + "_to_" + (C.B.kind == 1 ? "ortho" : "tric"));
  } else if (action == 5) {  // other cutoff only
    C.cutoff *= r.uni(0.6, 1.6);
    finalize(C);
    R.counter("reuse_cutoff_changed_only");
  } else if (action == 6 && n >= 2 && !threebody) {  // one more interaction, exclusions rebuilt
    std::vector<int> l;
    int a = (int)r.range(0, n - 1);
    std::vector<int> same;
    for (int i = 0; i < n; ++i) if (i != a && C.mol[i] == C.mol[a]) same.push_back(i);
    if (same.empty()) return;
    l.push_back(a);
    int sz = (int)r.range(2, 4);
    for (int k = 1; k < sz && !same.empty(); ++k) {
      size_t q = (size_t)r.range(0, (long)same.size() - 1);
      l.push_back(same[q]);
      same.erase(same.begin() + (long)q);
    }
    if (r.coin()) std::sort(l.rbegin(), l.rend());  // written with descending ids
    add_ia(C, *S.top, l, (int)C.ia.size());
    C.ia.push_back(l);
    S.top->RebuildExclusions();
    R.counter("reuse_exclusions_rebuilt_after_adding_interaction");
  } else if (action == 7 && n >= 2 && !threebody) {  // Topology::InsertExclusion(bead, list), ids in any order
    int a = (int)r.range(0, n - 1);
    std::vector<Bead *> l;
    int cnt = (int)r.range(1, 4);
    for (int k = 0; k < cnt; ++k) {
      int b = (int)r.range(0, n - 1);
      if (b == a) continue;
      l.push_back(S.top->getBead(b));
      C.xpairs.push_back({a, b});
      if (b < a) R.counter("reuse_inserted_exclusions_with_descending_ids");
    }
    S.top->InsertExclusion(S.top->getBead(a), l);
  }
}

static void judge_beadlist_twice(Topology &top, const Config &C, BeadList &u, vfh::Reporter &R) {
  R.eval("reuse/beadlist");
  long nA = 0, nB = 0;
  for (int t : C.type) { if (t == 0) nA++; if (t == 1) nB++; }
  votca::Index c1 = u.Generate(top, "A");
  votca::Index c2 = u.Generate(top, "B");
  bool ok = c1 == nA && c2 == nA + nB && u.size() == nA + nB;
  long k = 0, last = -1;
  for (auto *b : u) {
    int want = k < nA ? 0 : 1;
    if (k == nA) last = -1;
    if (C.type[(size_t)b->getId()] != want || (long)b->getId() <= last) ok = false;
    last = (long)b->getId();
    ++k;
  }
  if (!ok) {
    J w = config_json(C);
    w.i("first_return", c1).i("second_return", c2).i("size", u.size()).i("want_A", nA).i("want_B", nB);
    R.violation("reuse/beadlist/second-generate", "BeadList filled by Generate(\"A\") then Generate(\"B\") is not the A beads followed by the B beads", w);
  }
  BeadList dup;
  dup.Generate(top, "A");
  dup.Generate(top, "A");
  if (dup.size() == 2 * nA && nA > 0) R.counter("beadlist_same_select_twice_lists_every_bead_twice_observed_only");
}

static void reuse_pairs(vfh::Rng &rng, const std::string &tag, vfh::Reporter &R, int nmax) {
  Slot S[2];
  for (int k = 0; k < 2; ++k) {
    gen_config(rng, S[k].C, nmax, false);
    S[k].C.tag = tag;
    S[k].top = std::make_unique<Topology>();
    build_topology(S[k].C, *S[k].top);
  }
  NBListGrid g;
  NBList s;
  int K = (int)rng.range(3, 6), cur = 0;
  bool nontriv = false;
  bool empty = true;  // stored lists empty (both objects are always treated alike)
  for (int step = 0; step < K; ++step) {
    if (step > 0) {
      int action = (int)rng.range(0, 9);
      if (action >= 8) { cur = 1 - cur; R.counter("reuse_switched_to_other_topology_object"); }
      else mutate_slot(rng, S[cur], nmax, false, R, action);
    }
    Config &C = S[cur].C;
    Topology &top = *S[cur].top;
    C.do_excl = rng.coin(0.6);
    C.tag = tag + " (step " + std::to_string(step) + " of " + std::to_string(K) + ")";
    for (int k = 0; k < 3; ++k) R.counter("cells_per_dir_" + std::to_string(C.N[k]));
    Oracle O;
    build_oracle(C, O);
    if (rng.coin(0.5)) { g.Cleanup(); s.Cleanup(); empty = true; R.counter("reuse_explicit_cleanup_before_call"); }
    int variant = (int)rng.range(0, 3);
    BeadList l1, l2;
    std::string sel;
    bool two = false;
    if (variant == 0) { sel = "*"; l1.Generate(top, sel); }
    else if (variant == 1) { sel = "A"; l1.Generate(top, sel); }
    else if (variant == 2) { sel = "A"; two = true; l1.Generate(top, "A"); l2.Generate(top, "B"); }
    else { sel = "A then B in one BeadList"; judge_beadlist_twice(top, C, l1, R); }
    PairResult pg, ps;
    std::string fg = std::string("reuse/grid/") + (two ? "two-lists" : "one-list"), fs = std::string("reuse/simple/") + (two ? "two-lists" : "one-list");
    run_pairs_on(g, empty, fg.c_str(), C, O, top, two, l1, l2, sel, R, pg, nontriv);
    run_pairs_on(s, empty, fs.c_str(), C, O, top, two, l1, l2, sel, R, ps, nontriv);
    if (empty) compare_grid_simple("reuse", C, O, pg.stored, ps.stored, R);
    empty = false;
    if (step > 0) R.counter("reuse_generate_calls_on_used_object", 2);
  }
  if (nontriv) R.nontrivial(vfh::hmix(cfg_hash(S[0].C), cfg_hash(S[1].C)));
}

template <class NB3>
static void reuse_triples(const char *prefix, vfh::Rng &rng, const std::string &tag, vfh::Reporter &R, int nmax) {
  Slot S[2];
  for (int k = 0; k < 2; ++k) {
    gen_config(rng, S[k].C, nmax, true);
    S[k].C.tag = tag;
    S[k].top = std::make_unique<Topology>();
    build_topology(S[k].C, *S[k].top);
  }
  NB3 nb;
  int K = (int)rng.range(3, 5), cur = 0;
  bool nontriv = false, empty = true;
  for (int step = 0; step < K; ++step) {
    if (step > 0) {
      int action = (int)rng.range(0, 9);
      if (action >= 8) { cur = 1 - cur; R.counter("reuse_switched_to_other_topology_object"); }
      else mutate_slot(rng, S[cur], nmax, true, R, action);
    }
    Config &C = S[cur].C;
    Topology &top = *S[cur].top;
    C.tag = tag + " (step " + std::to_string(step) + " of " + std::to_string(K) + ")";
    for (int k = 0; k < 3; ++k) R.counter("cells_per_dir_" + std::to_string(C.N[k]));
    Oracle O;
    build_oracle(C, O);
    if (rng.coin(0.5)) { nb.Cleanup(); empty = true; R.counter("reuse_explicit_cleanup_before_call"); }
    int nl = (int)rng.range(1, 3);
    BeadList l1, l2, l3;
    std::string sel = nl == 1 && rng.coin(0.6) ? "*" : "A";
    l1.Generate(top, sel);
    if (nl >= 2) l2.Generate(top, "B");
    if (nl >= 3) l3.Generate(top, "C");
    std::set<T3> st;
    std::string f = std::string(prefix) + (nl == 1 ? "/one-list" : nl == 2 ? "/two-lists" : "/three-lists");
    run_triples_on(nb, empty, f.c_str(), nl, C, O, top, l1, l2, l3, sel, R, st, nontriv);
    empty = false;
    if (step > 0) R.counter("reuse_generate_calls_on_used_object");
  }
  if (nontriv) R.nontrivial(vfh::hmix(cfg_hash(S[0].C), cfg_hash(S[1].C) + 3));
}

// ------------------------------------------------------------------ main
static struct sigaction g_old_abrt;
static void on_abort(int sig, siginfo_t *si, void *ctx) {
  vfh::abort_handler(sig);
  if (g_old_abrt.sa_flags & SA_SIGINFO) { if (g_old_abrt.sa_sigaction) g_old_abrt.sa_sigaction(sig, si, ctx); }
  else if (g_old_abrt.sa_handler != SIG_DFL && g_old_abrt.sa_handler != SIG_IGN) g_old_abrt.sa_handler(sig);
}

static uint64_t cfg_hash(const Config &C) {
  uint64_t h = vfh::hdouble(101, C.cutoff);
  for (int i = 0; i < 3; ++i) for (int k = 0; k < 3; ++k) h = vfh::hdouble(h, C.B.m(i, k));
  for (auto &p : C.pos) { h = vfh::hdouble(h, p.x()); h = vfh::hdouble(h, p.y()); h = vfh::hdouble(h, p.z()); }
  for (int t : C.type) h = vfh::hmix(h, (uint64_t)t);
  return vfh::hmix(h, C.do_excl);
}

int main(int argc, char **argv) {
  vfh::Args A(argc, argv);
  long seed = A.num("seed", 1), shard = A.num("shard", 0);
  long n = A.num("n", 100), n3 = A.num("n3", 30);
  long first = A.num("first", 0), first3 = A.num("first3", 0);
  long nmax = A.num("nmax", 300), nmax3 = A.num("nmax3", 60);
  {
    struct sigaction sa;
    memset(&sa, 0, sizeof sa);
    sa.sa_sigaction = on_abort;
    sa.sa_flags = SA_SIGINFO;
    sigaction(SIGABRT, &sa, &g_old_abrt);
  }
  vfh::Reporter R;
  vfh::Rng rng(1);
  for (long ic = first; ic < first + n; ++ic) {
    rng.reseed(vfh::hmix(vfh::hmix(vfh::hmix(0xC03, (uint64_t)seed), (uint64_t)shard), (uint64_t)ic));
    Config C;
    gen_config(rng, C, (int)nmax, false);
    C.tag = "c03 --seed " + std::to_string(seed) + " --shard " + std::to_string(shard) + " --first " + std::to_string(ic) + " --n 1 --n3 0";
    vfh::set_case(C.tag);
    for (int k = 0; k < 3; ++k) R.counter("cells_per_dir_" + std::to_string(C.N[k]));
    R.counter(C.inbound ? "configs_cutoff_within_half_height" : "configs_cutoff_beyond_half_height");
    R.counter(C.B.kind == 1 ? "configs_orthorhombic" : "configs_triclinic");
    if (C.do_excl && !C.ia.empty()) R.counter("configs_with_exclusions");
    Oracle O;
    build_oracle(C, O);
    Topology top;
    build_topology(C, top);
    bool nontriv = false;
    std::string sel = rng.coin(0.6) ? "*" : "A";
    PairResult g1, s1, g2, s2;
    run_pairs<NBListGrid>("grid/one-list", C, O, top, false, sel, R, g1, nontriv);
    run_pairs<NBList>("simple/one-list", C, O, top, false, sel, R, s1, nontriv);
    compare_grid_simple("one-list", C, O, g1.stored, s1.stored, R);
    run_pairs<NBListGrid>("grid/two-lists", C, O, top, true, "A", R, g2, nontriv);
    run_pairs<NBList>("simple/two-lists", C, O, top, true, "A", R, s2, nontriv);
    compare_grid_simple("two-lists", C, O, g2.stored, s2.stored, R);
    if (nontriv) R.nontrivial(cfg_hash(C));
  }
  for (long ic = first3; ic < first3 + n3; ++ic) {
    rng.reseed(vfh::hmix(vfh::hmix(vfh::hmix(0x3C03, (uint64_t)seed), (uint64_t)shard), (uint64_t)ic));
    Config C;
    gen_config(rng, C, (int)nmax3, true);
    C.tag = "c03 --seed " + std::to_string(seed) + " --shard " + std::to_string(shard) + " --first3 " + std::to_string(ic) + " --n3 1 --n 0";
    vfh::set_case(C.tag);
    for (int k = 0; k < 3; ++k) R.counter("cells_per_dir_" + std::to_string(C.N[k]));
    R.counter(C.inbound ? "configs3_cutoff_within_half_height" : "configs3_cutoff_beyond_half_height");
    Oracle O;
    build_oracle(C, O);
    Topology top;
    build_topology(C, top);
    bool nontriv = false;
    std::string sel = rng.coin(0.6) ? "*" : "A";
    std::set<T3> g, s;
    run_triples<NBListGrid_3Body>("grid3/one-list", 1, C, O, top, sel, R, g, nontriv);
    run_triples<NBList_3Body>("simple3/one-list", 1, C, O, top, sel, R, s, nontriv);
    compare3("3body/one-list", C, O, g, s, R);
    run_triples<NBListGrid_3Body>("grid3/two-lists", 2, C, O, top, "A", R, g, nontriv);
    run_triples<NBList_3Body>("simple3/two-lists", 2, C, O, top, "A", R, s, nontriv);
    compare3("3body/two-lists", C, O, g, s, R);
    run_triples<NBListGrid_3Body>("grid3/three-lists", 3, C, O, top, "A", R, g, nontriv);
    run_triples<NBList_3Body>("simple3/three-lists", 3, C, O, top, "A", R, s, nontriv);
    compare3("3body/three-lists", C, O, g, s, R);
    if (nontriv) R.nontrivial(cfg_hash(C));
  }
  long nr = A.num("reuse", 0), nr3 = A.num("reuse3", 0), nr3g = A.num("reuse3grid", 0), firstr = A.num("firstr", 0);
  std::string base = "c03 --seed " + std::to_string(seed) + " --shard " + std::to_string(shard) + " --n 0 --n3 0 --firstr ";
  for (long ic = firstr; ic < firstr + nr; ++ic) {
    rng.reseed(vfh::hmix(vfh::hmix(vfh::hmix(0xAC03, (uint64_t)seed), (uint64_t)shard), (uint64_t)ic));
    std::string tag = base + std::to_string(ic) + " --reuse 1";
    vfh::set_case(tag);
    reuse_pairs(rng, tag, R, (int)A.num("nmaxr", 120));
  }
  for (long ic = firstr; ic < firstr + nr3; ++ic) {
    rng.reseed(vfh::hmix(vfh::hmix(vfh::hmix(0xBC03, (uint64_t)seed), (uint64_t)shard), (uint64_t)ic));
    std::string tag = base + std::to_string(ic) + " --reuse3 1";
    vfh::set_case(tag);
    reuse_triples<NBList_3Body>("reuse/simple3", rng, tag, R, (int)nmax3);
  }
  for (long ic = firstr; ic < firstr + nr3g; ++ic) {
    rng.reseed(vfh::hmix(vfh::hmix(vfh::hmix(0xCC03, (uint64_t)seed), (uint64_t)shard), (uint64_t)ic));
    std::string tag = base + std::to_string(ic) + " --reuse3grid 1";
    vfh::set_case(tag);
    reuse_triples<NBListGrid_3Body>("reuse/grid3", rng, tag, R, (int)nmax3);
  }
  long nm = A.num("many", 0), nm3 = A.num("many3", 0), firstm = A.num("firstm", 0);
  long maxcells = 0, maxgrid = 0;
  auto many_counters = [&](const Config &C) {
    long tot = 1;
    for (int k = 0; k < 3; ++k) {
      tot *= C.N[k];
      maxcells = std::max(maxcells, (long)C.N[k]);
      if (C.N[k] < 30) continue;
      bool special = false;
      for (int v : kSpecialN) if (v == C.N[k]) special = true;
      if (special) R.counter("many_cells_per_dir_" + std::to_string(C.N[k]));
      R.counter(C.N[k] < 64 ? "many_cells_per_dir_bucket_030_063" : C.N[k] < 128 ? "many_cells_per_dir_bucket_064_127" : C.N[k] < 256 ? "many_cells_per_dir_bucket_128_255"
                : C.N[k] < 512 ? "many_cells_per_dir_bucket_256_511" : "many_cells_per_dir_bucket_512_600");
    }
    maxgrid = std::max(maxgrid, tot);
    int nl = 0;
    for (int k = 0; k < 3; ++k) if (C.N[k] >= 30) nl++;
    R.counter(nl >= 2 ? "many_cells_configs_two_long_directions" : "many_cells_configs_one_long_direction");
    R.counter(C.B.kind == 1 ? "many_cells_configs_orthorhombic" : "many_cells_configs_triclinic");
  };
  for (long ic = firstm; ic < firstm + nm; ++ic) {
    rng.reseed(vfh::hmix(vfh::hmix(vfh::hmix(0xDC03, (uint64_t)seed), (uint64_t)shard), (uint64_t)ic));
    Config C;
    gen_config_many(rng, C, false);
    C.tag = "c03 --seed " + std::to_string(seed) + " --shard " + std::to_string(shard) + " --n 0 --n3 0 --firstm " + std::to_string(ic) + " --many 1";
    vfh::set_case(C.tag);
    many_counters(C);
    Oracle O;
    build_oracle(C, O);
    Topology top;
    build_topology(C, top);
    bool nontriv = false;
    std::string sel = rng.coin(0.6) ? "*" : "A";
    PairResult g1, s1, g2, s2;
    long long before = R.counters["pairs_found_through_periodic_image"];
    run_pairs<NBListGrid>("many-cells/grid/one-list", C, O, top, false, sel, R, g1, nontriv);
    run_pairs<NBList>("many-cells/simple/one-list", C, O, top, false, sel, R, s1, nontriv);
    compare_grid_simple("many-cells/one-list", C, O, g1.stored, s1.stored, R);
    run_pairs<NBListGrid>("many-cells/grid/two-lists", C, O, top, true, "A", R, g2, nontriv);
    run_pairs<NBList>("many-cells/simple/two-lists", C, O, top, true, "A", R, s2, nontriv);
    compare_grid_simple("many-cells/two-lists", C, O, g2.stored, s2.stored, R);
    R.counter("many_cells_pairs_across_a_periodic_face", R.counters["pairs_found_through_periodic_image"] - before);
    if (nontriv) R.nontrivial(cfg_hash(C));
  }
  for (long ic = firstm; ic < firstm + nm3; ++ic) {
    rng.reseed(vfh::hmix(vfh::hmix(vfh::hmix(0xEC03, (uint64_t)seed), (uint64_t)shard), (uint64_t)ic));
    Config C;
    gen_config_many(rng, C, true);
    C.tag = "c03 --seed " + std::to_string(seed) + " --shard " + std::to_string(shard) + " --n 0 --n3 0 --firstm " + std::to_string(ic) + " --many3 1";
    vfh::set_case(C.tag);
    many_counters(C);
    Oracle O;
    build_oracle(C, O);
    Topology top;
    build_topology(C, top);
    bool nontriv = false;
    std::string sel = rng.coin(0.6) ? "*" : "A";
    std::set<T3> g, s;
    int nl = (int)rng.range(1, 3);
    std::string sfx = nl == 1 ? "/one-list" : nl == 2 ? "/two-lists" : "/three-lists";
    if (nl > 1) sel = "A";
    run_triples<NBListGrid_3Body>(("many-cells/grid3" + sfx).c_str(), nl, C, O, top, sel, R, g, nontriv);
    run_triples<NBList_3Body>(("many-cells/simple3" + sfx).c_str(), nl, C, O, top, sel, R, s, nontriv);
    compare3(("many-cells/3body" + sfx).c_str(), C, O, g, s, R);
    if (nontriv) R.nontrivial(cfg_hash(C));
  }
  if (nm + nm3 > 0) {
    R.counter("max_cells_per_direction_shard_" + std::to_string(shard), maxcells);
    R.counter("max_grid_cells_shard_" + std::to_string(shard), maxgrid);
  }
  R.summary();
  return 0;
}
